"""Family `nettcp`: scripts for the real turmoil-net stack (harness bin `nettcp`,
the harness is the wire) and their rendering as TV.NetTcp.Model events.
Serves C06, C13, C16."""
import json

ERR = {"NotFound": 1, "NotConnected": 2, "BrokenPipe": 3, "ConnectionReset": 4, "TimedOut": 5,
       "ConnectionRefused": 6, "AddrInUse": 7, "AddrNotAvailable": 8, "InvalidInput": 9, "os90": 10,
       "os97": 11, "WouldBlock": 12}
STATE = {"Listen": 0, "SynSent": 1, "SynReceived": 2, "Established": 3, "FinWait1": 4, "FinWait2": 5,
         "CloseWait": 6, "LastAck": 7, "Closing": 8, "Closed": 9, None: 10}
F_SYN, F_ACK, F_FIN, F_RST, F_PSH = 1, 2, 4, 8, 16

NET = "crates/turmoil-net/src/"
NET_CONSTS = [
    ("ipv4_hdr", NET + "kernel/packet.rs", r"IPV4_HEADER_SIZE: u16 = (\d+)", "N"),
    ("ipv6_hdr", NET + "kernel/packet.rs", r"IPV6_HEADER_SIZE: u16 = (\d+)", "N"),
    ("udp_hdr", NET + "kernel/packet.rs", r"UDP_HEADER_SIZE: u16 = (\d+)", "N"),
    ("tcp_hdr", NET + "kernel/packet.rs", r"TCP_HEADER_SIZE: u16 = (\d+)", "N"),
    ("default_window", NET + "kernel/tcp.rs", r"const DEFAULT_WINDOW: u16 = (\d+)", "N"),
    ("isn_base", NET + "kernel/mod.rs", r"tcp_isn: (0x[0-9a-fA-F_]+)", "N"),
    ("isn_step", NET + "kernel/tcp.rs", r"k\.tcp_isn\.wrapping_add\((0x[0-9a-fA-F_]+)\)", "N"),
    ("eph_lo", NET + "kernel/socket.rs", r"DEFAULT_EPHEMERAL_PORTS: RangeInclusive<u16> = (\d+)\.\.=", "N"),
    ("eph_hi", NET + "kernel/socket.rs", r"DEFAULT_EPHEMERAL_PORTS: RangeInclusive<u16> = \d+\.\.=(\d+)", "N"),
]
NET_ANCHORS = [(NET + "kernel/tcp.rs", f) for f in (
    "poll_connect", "deliver", "emit_rst", "handle_on_connection", "handle_established", "accept_syn",
    "push_to_listener", "on_close", "reap_closed", "abort_with", "abort_error", "find_listener", "count_children",
    "auto_bind", "initial_sequence", "poll_send", "poll_shutdown_write", "poll_recv", "poll_peek", "check_retx",
    "emit_handshake", "segment_all", "segment_one", "mss_for", "advertised_window", "local_endpoint")] + [
    (NET + "kernel/socket.rs", f) for f in ("insert", "remove", "insert_binding", "insert_connection",
                                            "find_connection", "connections_on", "allocate_port", "allocate")] + [
    (NET + "kernel/mod.rs", f) for f in ("close", "bind", "listen", "poll_accept", "egress", "is_local")] + [
    (NET + "kernel/udp.rs", f) for f in ("send_to", "max_payload")] + [
    (NET + "netstat.rs", f) for f in ("tcp_entry", "tcb_entry", "listen_entry")] + [
    (NET + "fabric.rs", f) for f in ("egress_all",)] + [
    (NET + "shim/tokio/net/tcp/stream.rs", f) for f in ("connect", "try_read", "try_write", "drop")]

HEADER = ("From TV.Lib Require Import Base.\nFrom TV.NetTcp Require Import Gen Model.\nOpen Scope N_scope.\n")

DEFAULT_CFG = {"mtu": 1500, "loopback_mtu": 65536, "send_cap": 65536, "recv_cap": 65536, "backlog": 1024,
               "retx_threshold": 3, "retx_max": 5, "v6": False, "hosts": 2}


def full_cfg(cfg):
    c = dict(DEFAULT_CFG)
    c.update(cfg)
    return c


def mss_of(cfg, ia, hdr=20):
    """Spec constants (RFC 791/8200/793/768), independent of the translated ones."""
    c = full_cfg(cfg)
    mtu = c["loopback_mtu"] if ia == 1 else c["mtu"]
    return max(0, mtu - (40 if c["v6"] else 20) - hdr)


# ---- rendering a case as a Coq term ------------------------------------------

def coq_list(xs):
    return "[" + "; ".join(str(x) for x in xs) + "]"


def coq_ev(c):
    n = c[0]
    if n == "listen":
        return "EListen %d %d %d %d" % (c[1], c[2], c[3], c[4])
    if n == "connect":
        return "EConnect %d %d %d %d" % (c[1], c[2], c[3], c[4])
    if n == "poll_connect":
        return "EPollConnect %d" % c[1]
    if n == "cancel":
        return "ECancel %d" % c[1]
    if n in ("accept", "accept_w"):
        return "EAccept %d %d" % (c[1], c[2])
    if n == "woken":
        return "EAddrs 4294967295"         # wake-up delivery is outside the model: a no-op there (no such slot)
    if n == "write":
        return "EWrite %d %s" % (c[1], coq_list(c[2]))
    if n == "read":
        return "ERead %d %d" % (c[1], c[2])
    if n == "peek":
        return "EPeek %d %d" % (c[1], c[2])
    if n == "shutdown":
        return "EShutdown %d" % c[1]
    if n == "close":
        return "EClose %d" % c[1]
    if n == "addrs":
        return "EAddrs %d" % c[1]
    if n == "egress":
        return "EEgress"
    if n == "deliver":
        return "EDeliver %d" % c[1]
    if n == "drop":
        return "EDrop %d" % c[1]
    if n == "dup":
        return "EDup %d" % c[1]
    if n == "flush":
        return "EFlush"
    if n == "netstat":
        return "ENetstat %d" % c[1]
    if n in ("counts", "rows"):
        return "ECounts %d" % c[1]
    if n == "udp_bind":
        return "EUdpBind %d %d %d %d" % (c[1], c[2], c[3], c[4])
    if n == "udp_send":
        return "EUdpSend %d %d %d %d" % (c[1], c[2], c[3], c[4])
    if n == "set_isn":
        return "ESetIsn %d %d" % (c[1], c[2])
    if n == "set_cursor":
        return "ESetCursor %d %d" % (c[1], c[2])
    if n == "udp_connect":
        return "EUdpConnect %d %d %d" % (c[1], c[2], c[3])
    if n == "udp_send_c":
        return "EUdpSendC %d %d" % (c[1], c[2])
    raise ValueError("unknown command %r" % (c,))


def coq_cfg(cfg):
    c = full_cfg(cfg)
    return "(mkcfg %d %d %d %d %d %d %d) %s %d" % (
        c["mtu"], c["loopback_mtu"], c["send_cap"], c["recv_cap"], c["backlog"], c["retx_threshold"],
        c["retx_max"], "true" if c["v6"] else "false", c["hosts"])


def to_model(case, obs):
    evs = [coq_ev(c) for c in case["script"]]
    term = "run_enc %s [%s]" % (coq_cfg(case["cfg"]), "; ".join(evs))
    return term, None, []


# ---- encoding implementation observations in the model's row format ----------

def _err(r):
    return [[1, ERR.get(r, 99)]]


def _addr(v):
    if isinstance(v, list):
        return list(v)
    return [99, ERR.get(v, 99)]


def enc_pkt(p):
    if p[0] == 0:
        return [list(p[:9]), list(p[9])]
    return [list(p[:6]), []]


def enc_obs(cmd, o):
    n, r = cmd[0], o.get("r")
    if r == "noslot" or r == "none":
        return [[9]]
    if r == "pending":
        return [[2]]
    if n in ("listen", "udp_bind"):
        return [[0] + o["local"]] if r == "ok" else _err(r)
    if n in ("connect", "poll_connect"):
        return [[0] + _addr(o["a"]["local"]) + _addr(o["a"]["peer"])] if r == "ok" else _err(r)
    if n in ("accept", "accept_w"):
        return [[0] + o["from"] + _addr(o["a"]["local"]) + _addr(o["a"]["peer"])] if r == "ok" else _err(r)
    if n in ("write", "udp_send", "udp_send_c"):
        return [[0, o["n"]]] if r == "ok" else _err(r)
    if n in ("read", "peek"):
        return [[0], list(o["b"])] if r == "ok" else _err(r)
    if n in ("shutdown", "close", "cancel", "udp_connect", "set_isn", "set_cursor"):
        return [[0]] if r == "ok" else _err(r)
    if n == "addrs":
        a = o["a"]
        return [[0] + _addr(a["local"]) + (_addr(a["peer"]) if "peer" in a else [])]
    if n in ("egress", "flush"):
        rows = [[0]]
        for p in o["pk"]:
            rows.extend(enc_pkt(p))
        return rows
    if n in ("deliver", "drop", "dup"):
        return [[0]] + enc_pkt(o["p"])
    if n == "netstat":
        rows = [[0]]
        for e in o["ns"]:
            peer = e[4]
            rows.append([e[0], e[1], e[2], e[3][0], e[3][1], 1 if peer else 0,
                         peer[0] if peer else 0, peer[1] if peer else 0, STATE[e[5]]])
        return rows
    if n == "counts":
        return [[0] + o["c"]]
    if n == "rows":
        rs = o["rows"]
        return [[0, len(rs), len(o["bindings"]), sum(len(b[1]) for b in o["bindings"]), len(o["connections"])]]
    raise ValueError(n)


def norm(v):
    if isinstance(v, (list, tuple)):
        return [norm(x) for x in v]
    return v


def compare(case, obs, model, probes):
    if obs.get("panic"):
        return "implementation panicked: %s" % obs["panic"]
    if isinstance(model, tuple) and model and model[0] == "error":
        return "model evaluation failed: %s" % str(model[1])[-400:]
    model = norm(model)
    script = case["script"]
    if len(model) != len(script) or len(obs["obs"]) != len(script):
        return "observation count: script %d, implementation %d, model %d" % (len(script), len(obs["obs"]), len(model))
    for i, (cmd, o) in enumerate(zip(script, obs["obs"])):
        e = enc_obs(cmd, o)
        if e != model[i]:
            return "step %d %s: implementation %s, model %s" % (i, json.dumps(cmd), json.dumps(e), json.dumps(model[i]))
    return None


# ---- reading implementation traces (shared by the python oracles) ---------------

def conn_key(p):
    """(src ia, sport, dst ia, dport) of a TCP packet row."""
    return (p[1], p[3], p[2], p[4])


def packets_emitted(case, obs):
    out = []
    for i, (c, o) in enumerate(zip(case["script"], obs["obs"])):
        if c[0] == "egress":
            for p in o["pk"]:
                out.append((i, p))
    return out


# ---- generators ---------------------------------------------------------------

E = ["egress"]


def D(k=0):
    return ["deliver", k]


def round_(m=4):
    """Clean round: everything emitted now is delivered in order."""
    return [E] + [D(0)] * m


def pattern(base, start, n):
    return [(base + start + i) % 251 for i in range(n)]


def rand_cfg(rng, small=True):
    v6 = rng.random() < 0.25
    hdr = (40 if v6 else 20) + 20
    if small:
        mss = rng.choice([1, 2, 3, 5, 8, 13, 20, 40, 1460])
        mtu = hdr + mss if mss < 1460 else (1500 if not v6 else 1520)
        cap = lambda: rng.choice([1, 2, 3, 4, 8, 8, 16, 16, 32, 64, 200, 65536, 70000])
        cfg = {"mtu": mtu, "send_cap": cap(), "recv_cap": cap()}
    else:
        cfg = {}
    cfg["loopback_mtu"] = rng.choice([65536, hdr + rng.choice([1, 4, 16])])
    cfg["backlog"] = rng.choice([1, 1, 2, 3, 1024])
    cfg["retx_threshold"] = rng.choice([1, 2, 3, 3])
    cfg["retx_max"] = rng.choice([1, 2, 3, 5])
    cfg["v6"] = v6
    return full_cfg(cfg)


class Script:
    """Helper that builds a script and keeps slot numbers fresh."""

    def __init__(self):
        self.s = []
        self.next_slot = 0

    def slot(self):
        self.next_slot += 1
        return self.next_slot - 1

    def add(self, *cmds):
        self.s.extend(list(c) for c in cmds)

    def clean(self, rounds=1, m=4):
        for _ in range(rounds):
            self.add(*round_(m))


def handshake(sc, loop=False, listen_ia=3, port=80, chost=0, lhost=1, connect_ia=None):
    """listener + one client, clean three-way handshake; returns (lslot, cslot, aslot)."""
    ls, cs, as_ = sc.slot(), sc.slot(), sc.slot()
    if loop:
        sc.add(["listen", ls, chost, listen_ia, port], ["connect", cs, chost, 1, port])
        sc.add(E, ["poll_connect", cs], ["accept", ls, as_])
    else:
        sc.add(["listen", ls, lhost, listen_ia, port],
               ["connect", cs, chost, connect_ia if connect_ia is not None else lhost + 2, port])
        sc.clean(3, 2)
        sc.add(["poll_connect", cs], ["accept", ls, as_])
    return ls, cs, as_


def faulty_round(rng, sc, pdrop=0.25, phold=0.2, pdup=0.0, m=4):
    """One egress followed by per-packet decisions taken blindly on wire indexes."""
    sc.add(E)
    for _ in range(m):
        r = rng.random()
        if r < pdrop:
            sc.add(["drop", rng.choice([0, 0, 1])])
        elif r < pdrop + phold:
            sc.add(D(rng.choice([1, 1, 2])))          # overtakes: index 0 stays on the wire
        elif r < pdrop + phold + pdup:
            sc.add(["dup", rng.choice([0, 1])])
        else:
            sc.add(D(0))


def gen_transfer(rng, dup=False, live=False):
    """One connection, data both ways with random faults, close, drain."""
    cfg = rand_cfg(rng)
    loop = rng.random() < 0.12
    sc = Script()
    ls, cs, as_ = handshake(sc, loop=loop, listen_ia=rng.choice([3, 3, 0]) if not loop else rng.choice([1, 0]))
    ends = [cs, as_]
    hosts = {cs: 0, as_: 0 if loop else 1}
    sent = {cs: 0, as_: 0}
    base = {cs: 10, as_: 130}
    pdrop = rng.choice([0.0, 0.1, 0.25]) if not live else rng.choice([0.0, 0.1, 0.2])
    phold = rng.choice([0.0, 0.15, 0.3])
    pdup = rng.choice([0.1, 0.25]) if dup else 0.0
    nops = rng.randrange(6, 26)
    closed = set()
    for _ in range(nops):
        r = rng.random()
        x = rng.choice(ends)
        if r < 0.33:
            n = rng.choice([1, 2, 3, 5, 9, 17, 40])
            sc.add(["write", x, pattern(base[x], sent[x], n)])
            sent[x] += n       # upper bound; the oracle uses the accepted count
            if rng.random() < 0.5:
                sc.add(["netstat", hosts[x]])
        elif r < 0.55:
            sc.add(["read", x, rng.choice([1, 1, 2, 4, 8, 64])])
        elif r < 0.6:
            sc.add(["peek", x, rng.choice([1, 3, 64])])
        elif r < 0.66 and not live:
            sc.add(["shutdown", x])
        elif r < 0.69 and not live:
            sc.add(["close", x])
            closed.add(x)
        elif r < 0.72:
            sc.add(["netstat", rng.choice([0, 1])])
        else:
            faulty_round(rng, sc, pdrop, phold, pdup)
    for x in ends:
        if rng.random() < 0.7:
            sc.add(["shutdown", x])
    # drain: clean rounds with reads
    for _ in range(rng.choice([4, 10, 24])):
        sc.clean(1, 4)
        for x in ends:
            sc.add(["read", x, rng.choice([1, 4, 64])])
    sc.add(["netstat", 0], ["netstat", 1], ["counts", 0], ["counts", 1])
    for x in ends:
        if rng.random() < 0.8:
            sc.add(["close", x])
    if rng.random() < 0.7:
        sc.add(["close", ls])
    sc.clean(rng.choice([2, 8, 20]), 4)
    sc.add(["netstat", 0], ["netstat", 1], ["counts", 0], ["counts", 1])
    return {"cfg": cfg, "script": sc.s, "flavour": "transfer-dup" if dup else "transfer"}


def gen_lifecycle(rng):
    """Many connects / cancels / accepts / closes / listener drops (C13)."""
    cfg = rand_cfg(rng, small=rng.random() < 0.5)
    cfg["backlog"] = rng.choice([1, 1, 2, 3])
    sc = Script()
    port = 80
    listeners, pending, streams = [], [], []
    lia = rng.choice([3, 3, 0])
    ls = sc.slot()
    sc.add(["listen", ls, 1, lia, port])
    listeners.append(ls)
    pdrop = rng.choice([0.0, 0.0, 0.15, 0.3])
    for _ in range(rng.randrange(10, 36)):
        r = rng.random()
        if r < 0.2:
            c = sc.slot()
            target = rng.choice([3, 3, 3, 3, 9, 2])         # 9: nobody owns it; 2: own address, nobody listens
            tport = port if rng.random() < 0.85 else 81
            sc.add(["connect", c, 0, target, tport])
            pending.append(c)
        elif r < 0.3 and pending:
            sc.add(["poll_connect", rng.choice(pending)])
        elif r < 0.36 and pending:
            c = rng.choice(pending)
            sc.add(["cancel", c])
            pending.remove(c)
        elif r < 0.48 and listeners:
            a = sc.slot()
            sc.add(["accept", rng.choice(listeners), a])
            streams.append(a)
        elif r < 0.54 and (streams or pending):
            x = rng.choice(streams + pending)
            sc.add(["write", x, pattern(7, 0, rng.choice([1, 5, 20]))])
        elif r < 0.58 and (streams or pending):
            sc.add(["read", rng.choice(streams + pending), 16])
        elif r < 0.62 and (streams or pending):
            sc.add(["shutdown", rng.choice(streams + pending)])
        elif r < 0.7 and (streams or pending):
            x = rng.choice(streams + pending)
            sc.add(["close", x])
            if x in streams:
                streams.remove(x)
            else:
                pending.remove(x)
        elif r < 0.74 and listeners:
            x = rng.choice(listeners)
            sc.add(["close", x])
            listeners.remove(x)
        elif r < 0.8:
            l2 = sc.slot()
            sc.add(["listen", l2, 1, rng.choice([3, 0]), rng.choice([port, port, 81])])
            listeners.append(l2)
        elif r < 0.86:
            sc.add(["counts", rng.choice([0, 1])], ["netstat", rng.choice([0, 1])])
        else:
            faulty_round(rng, sc, pdrop, rng.choice([0.0, 0.2]))
        if rng.random() < 0.3:
            for c in pending:
                sc.add(["poll_connect", c])
    # teardown: everything the applications hold is dropped, then quiescence
    for c in list(pending):
        sc.add(["poll_connect", c])
    closed_all = rng.random() < 0.85
    if closed_all:
        for x in range(sc.next_slot):          # every slot ever handed out (already closed ones answer `noslot`)
            sc.add(["cancel", x], ["close", x])
    rounds = (cfg["retx_max"] + 2) * (cfg["retx_threshold"] + 1) + 6 if rng.random() < 0.8 else 3
    for _ in range(rounds):
        sc.add(E, ["flush"])
    sc.add(["netstat", 0], ["netstat", 1], ["counts", 0], ["counts", 1], ["rows", 0], ["rows", 1])
    l3 = sc.slot()
    sc.add(["listen", l3, 1, 3, port], ["counts", 1])
    return {"cfg": cfg, "script": sc.s, "flavour": "lifecycle",
            "plan": {"closed_all": closed_all, "settled": rounds > 3, "port": port, "final_listen": l3}}


def gen_caps(rng):
    """Tiny caps / MSS, writes until blocked, slow reads, window shrinking and growing, UDP near the limit (C16)."""
    cfg = rand_cfg(rng)
    loop = rng.random() < 0.2
    sc = Script()
    ls, cs, as_ = handshake(sc, loop=loop, listen_ia=(1 if loop else 3))
    w, rd = (cs, as_) if rng.random() < 0.6 else (as_, cs)
    wh, rh = (0, 0) if loop else ((0, 1) if w == cs else (1, 0))
    sent = 0
    for _ in range(rng.randrange(8, 30)):
        r = rng.random()
        if r < 0.4:
            n = rng.choice([1, 3, 7, 20, 64, 100])
            sc.add(["netstat", wh], ["write", w, pattern(3, sent, n)], ["netstat", wh])
            sent += n
        elif r < 0.6:
            sc.add(["read", rd, rng.choice([1, 1, 2, 4, 8, 32, 100])], ["netstat", rh])
        elif r < 0.66:
            sc.add(["write", rd, pattern(99, 0, rng.choice([1, 9]))])
        else:
            faulty_round(rng, sc, rng.choice([0.0, 0.1]), rng.choice([0.0, 0.25]))
            sc.add(["netstat", 0], ["netstat", 1])
    u = sc.slot()
    uh = rng.choice([0, 1])
    sc.add(["udp_bind", u, uh, rng.choice([0, uh + 2, 1]), rng.choice([0, 5000])])
    for _ in range(rng.randrange(1, 5)):
        dst = rng.choice([2, 3, 1])
        lim = mss_of(cfg, dst, 8)
        n = max(0, lim + rng.choice([-1, 0, 0, 1, 1, 2, -lim // 2]))
        if n <= 4000:
            sc.add(["udp_send", u, n, dst, 6000], E, D(0))
    # connected UDP: connect, then send / try_send around the limit of the peer's path (and a re-connect)
    if rng.random() < 0.7:
        if rng.random() < 0.15:
            sc.add(["udp_send_c", u, 3])               # not connected yet
        for _ in range(rng.randrange(1, 3)):
            dst = rng.choice([2, 3, 1])
            lim = mss_of(cfg, dst, 8)
            sc.add(["udp_connect", u, dst, 6000])
            for _ in range(rng.randrange(1, 4)):
                n = max(0, lim + rng.choice([-1, 0, 0, 1, 1, 2, 7, -lim // 2]))
                if n <= 4000:
                    sc.add(["udp_send_c", u, n], E, D(0))
            if rng.random() < 0.3:
                d2 = rng.choice([2, 3, 1])
                n = max(0, mss_of(cfg, d2, 8) + rng.choice([0, 1]))
                if n <= 4000:
                    sc.add(["udp_send", u, n, d2, 6001], E, D(0))     # send_to on a connected socket
    sc.clean(3, 4)
    sc.add(["netstat", 0], ["netstat", 1])
    return {"cfg": cfg, "script": sc.s, "flavour": "caps"}


def gen_mixed_mss(rng):
    """One host with a LOOPBACK connection and a CROSS-HOST connection that both have unsent data in the same
    egress sweep, in both socket-table orders, loopback_mtu != mtu: every segment must be cut with the MSS of the
    interface it leaves from (C16)."""
    cfg = rand_cfg(rng)
    hdr = (40 if cfg["v6"] else 20) + 20
    mss_x = rng.choice([1, 3, 8, 20, 100, 100, 300])
    cfg["mtu"] = hdr + mss_x
    cfg["loopback_mtu"] = rng.choice([65536, 65536, 65536, hdr + rng.choice([2, 5, 50, 300])])
    cfg["send_cap"] = rng.choice([64, 512, 4096, 65536])
    cfg["recv_cap"] = rng.choice([64, 4096, 65536])
    cfg["backlog"] = 4
    cfg["retx_threshold"], cfg["retx_max"] = 3, 5
    sc = Script()
    h = rng.choice([0, 0, 1])                       # the host that has both kinds of connection
    o = 1 - h
    ext_active = rng.random() < 0.6                 # h is the client of the cross-host connection (else it accepts)

    def mk_loop():
        ls, cs, as_ = sc.slot(), sc.slot(), sc.slot()
        sc.add(["listen", ls, h, rng.choice([1, 0]), 81], ["connect", cs, h, 1, 81])
        sc.add(E, ["poll_connect", cs], ["accept", ls, as_])
        return cs, as_

    def mk_ext():
        ls, cs, as_ = sc.slot(), sc.slot(), sc.slot()
        (ch, lh) = (h, o) if ext_active else (o, h)
        sc.add(["listen", ls, lh, rng.choice([lh + 2, 0]), 80], ["connect", cs, ch, lh + 2, 80])
        sc.clean(3, 2)
        sc.add(["poll_connect", cs], ["accept", ls, as_])
        return (cs, as_) if ext_active else (as_, cs)   # (end on h, end on the other host)

    if rng.random() < 0.6:
        lc, la = mk_loop()
        xh, xo = mk_ext()
    else:
        xh, xo = mk_ext()
        lc, la = mk_loop()
    lw, lr = (lc, la) if rng.random() < 0.5 else (la, lc)
    pos = 0
    for _ in range(rng.randrange(1, 4)):
        big = min(cfg["send_cap"], rng.choice([mss_x + 1, 2 * mss_x + 1, 40, 200, 400]))
        order = [(lw, 40), (xh, 90)]
        if rng.random() < 0.3:
            order.reverse()
        for (sl, base) in order:                    # both get unsent data before the same sweep
            sc.add(["write", sl, pattern(base, pos, big)])
        pos += big
        if rng.random() < 0.3:
            sc.add(["write", xo, pattern(7, pos, rng.choice([1, mss_x + 2]))])
        sc.add(E)
        for _ in range(rng.randrange(2, 8)):
            sc.add(D(0))
        sc.add(["read", lr, rng.choice([64, 4096, 70000])], ["read", xo, rng.choice([64, 4096, 70000])],
               ["read", xh, 4096])
        if rng.random() < 0.5:
            sc.add(["netstat", h])
    for _ in range(3):
        sc.add(E, ["flush"], ["read", lr, 70000], ["read", xo, 70000])
    sc.add(["netstat", 0], ["netstat", 1])
    return {"cfg": cfg, "script": sc.s, "flavour": "mixed"}


def bidi_cases():
    """Deterministic family (always emitted): both directions at once.  One side sends a request (or only its FIN),
    the segment is dropped once; the opposite direction keeps streaming a heartbeat every egress round for 14 rounds
    (everything else is delivered in order), then answers and half-closes; both sides read to EOF.  The lost segment
    must be retransmitted after retx_threshold passes although the peer keeps sending (C06)."""
    out = []
    for (th, v6, lost, swap) in [(3, False, "data", False), (2, False, "data", True), (3, True, "fin", False),
                                 (2, False, "fin", True), (3, False, "data2", False)]:
        cfg = full_cfg({"retx_threshold": th, "retx_max": 5, "send_cap": 64, "recv_cap": 64, "backlog": 4, "v6": v6})
        sc = Script()
        ls, cs, as_ = handshake(sc)
        q, hb = (cs, as_) if not swap else (as_, cs)        # q: the side whose segment is lost; hb: the heartbeat side
        if lost == "data":
            sc.add(["write", q, [80, 73, 78, 71]], E, ["drop", 0])
        elif lost == "data2":                               # second of two segments lost, first one delivered
            sc.add(["write", q, [1, 2, 3]], E, ["flush"], ["write", q, [80, 73, 78, 71]], E, ["drop", 0])
        else:
            sc.add(["shutdown", q], E, ["drop", 0])
        for i in range(14):
            sc.add(["write", hb, pattern(100, 4 * i, 4)], E, ["flush"], ["read", q, 64], ["read", hb, 64])
        sc.add(["write", hb, [68, 79, 78, 69]], ["shutdown", hb])
        if lost != "fin":
            sc.add(["shutdown", q])
        for i in range(8):
            sc.add(E, ["flush"], ["read", q, 64], ["read", hb, 64])
        sc.add(["read", q, 64], ["read", hb, 64], ["rows", 0], ["rows", 1], ["netstat", 0], ["netstat", 1])
        out.append({"cfg": cfg, "script": sc.s, "flavour": "bidi",
                    "plan": {"w": q, "r": hb, "both": True, "fair_from": 0, "drops": 1, "ls": ls}})
    return out


def handshake_ack_lost_cases():
    """Deterministic family (always emitted, C13): exactly the client's third handshake packet (the bare ACK) is
    lost; the client does not send first (nobody speaks, or the server speaks first after accept).  The server
    child retransmits its SYN-ACK, the established client must answer it, and accept must hand the connection out
    - once - within the retransmit budget."""
    out = []
    for (th, mx, v6, speak) in [(3, 5, False, "nobody"), (2, 3, False, "server"), (3, 2, True, "nobody"), (1, 2, False, "server")]:
        cfg = full_cfg({"retx_threshold": th, "retx_max": mx, "backlog": 4, "send_cap": 64, "recv_cap": 64, "v6": v6})
        sc = Script()
        ls, cs, as_ = sc.slot(), sc.slot(), sc.slot()
        sc.add(["listen", ls, 1, 3, 80], ["connect", cs, 0, 3, 80], E, D(0), E, D(0), ["poll_connect", cs],
               E, ["drop", 0])                                           # the bare ACK of the handshake is lost
        for _ in range(th * 2 + 3):
            sc.add(E, ["flush"], ["accept", ls, as_], ["netstat", 1])
        spare = sc.slot()
        sc.add(["accept", ls, spare])                                    # nothing else to hand out
        if speak == "server":
            sc.add(["write", as_, [9, 8, 7]], E, ["flush"], ["read", cs, 10])
        sc.add(["close", cs], ["close", as_], ["close", spare], ["close", ls])
        for _ in range(4):
            sc.add(E, ["flush"])
        sc.add(["counts", 0], ["counts", 1], ["rows", 0], ["rows", 1])
        fin = sc.slot()
        sc.add(["listen", fin, 1, 3, 80], ["counts", 1])
        out.append({"cfg": cfg, "script": sc.s, "flavour": "hs_ack_lost",
                    "plan": {"closed_all": True, "settled": True, "port": 80, "final_listen": fin,
                             "expect_accept": {"ls": ls, "cs": cs, "drops": 1}}})
    return out


def fin_ack_lost_cases():
    """Deterministic family (always emitted, C06): one side sends its request and half-closes; exactly the bare ACK
    that covers its FIN is lost (variant: the data ACK too); the FIN receiver stays silent for more than
    retx_threshold*(retx_max+1) egress rounds, then answers and closes.  The closer retransmits its FIN, every copy
    must be re-ACKed (CLOSE_WAIT), nobody is aborted, the late response and EOF arrive."""
    out = []
    for (th, mx, v6, swap, both_acks) in [(3, 5, False, False, False), (2, 3, False, True, False),
                                          (2, 3, True, False, True), (1, 3, False, True, True)]:
        cfg = full_cfg({"retx_threshold": th, "retx_max": mx, "backlog": 4, "send_cap": 64, "recv_cap": 64, "v6": v6})
        sc = Script()
        ls, cs, as_ = handshake(sc)
        q, rsp = (cs, as_) if not swap else (as_, cs)       # q half-closes, rsp answers late
        drops = 1
        if both_acks:
            sc.add(["write", q, [80, 73, 78, 71]], ["shutdown", q], E, ["flush"], E, ["drop", 0], ["drop", 0])
            drops = 2
        else:
            sc.add(["write", q, [80, 73, 78, 71]], E, ["flush"], E, ["flush"],
                   ["shutdown", q], E, ["flush"], E, ["drop", 0])
        for _ in range(th * (mx + 1) + 4):
            sc.add(E, ["flush"], ["read", q, 64])
        sc.add(["read", rsp, 64], ["read", rsp, 64], ["write", rsp, [68, 79, 78, 69]], ["shutdown", rsp])
        for _ in range(th * (mx + 1) + 6):                  # long enough for any (wrong) retransmission series to end
            sc.add(E, ["flush"], ["read", q, 64], ["read", rsp, 64])
        sc.add(["read", q, 64], ["read", rsp, 64], ["rows", 0], ["rows", 1], ["netstat", 0], ["netstat", 1])
        out.append({"cfg": cfg, "script": sc.s, "flavour": "fin_ack_lost",
                    "plan": {"w": q, "r": rsp, "both": True, "fair_from": 0, "drops": drops, "ls": ls}})
    return out


def retx_budget_cases():
    """Deterministic family (always emitted, C06): one and the same data segment is lost on every transmission until
    exactly retx_max copies are gone (the script drops whatever the writer emits for th*(mx-1)+1 (+1) egress rounds; the
    oracle counts the copies really dropped and judges only runs with at most retx_max of them), then the wire is clean.
    The stack transmits a segment retx_max + 1 times before it gives up, so the next copy arrives: nobody is aborted,
    the bytes and end-of-file arrive (seed C06-A8: budget one attempt short)."""
    out = []
    for (th, mx, swap) in [(2, 2, True), (2, 3, False), (3, 2, True), (3, 3, False), (2, 1, False)]:     # th >= 2: the ACK's round trip takes two egress rounds
        for extra in (0, 1):
            cfg = full_cfg({"retx_threshold": th, "retx_max": mx, "backlog": 4, "send_cap": 64, "recv_cap": 64})
            sc = Script()
            ls, cs, as_ = handshake(sc)
            w, rd = (cs, as_) if not swap else (as_, cs)
            sc.add(["write", w, [82, 69, 84, 88]])
            for _ in range(th * (mx - 1) + 1 + extra):
                sc.add(E, ["drop", 0])
            for _ in range(th * (mx + 2) + 6):
                sc.add(E, ["flush"], ["read", rd, 64], ["read", w, 64])
            sc.add(["shutdown", w], ["shutdown", rd])
            for _ in range(8):
                sc.add(E, ["flush"], ["read", rd, 64], ["read", w, 64])
            sc.add(["read", rd, 8], ["read", w, 8], ["rows", 0], ["rows", 1], ["netstat", 0], ["netstat", 1])
            out.append({"cfg": cfg, "script": sc.s, "flavour": "retx_budget",
                        "plan": {"w": w, "r": rd, "both": True, "fair_from": 0, "drops": mx, "ls": ls, "max_drops": mx}})
    return out


def udp_boundary_cases():
    """Deterministic family (always emitted, C16): UDP payload sizes at the MTU boundary of the destination's path
    and at / beyond the 16-bit boundary (65507..65537, 70000, 131072+k with k inside the limit), through every send
    path (send_to / try_send_to by parity, connected send / try_send by parity), loopback and cross-host, v4 and
    v6, default MTUs and a small loopback MTU."""
    out = []
    for (v6, lo_mtu, mtu) in [(False, 65536, 1500), (True, 65536, 1500), (True, 100, 1500), (False, 300, 600)]:
        cfg = full_cfg({"v6": v6, "loopback_mtu": lo_mtu, "mtu": mtu})
        sc = Script()
        u, rl, rx = sc.slot(), sc.slot(), sc.slot()
        sc.add(["udp_bind", u, 0, 0, 5000], ["udp_bind", rl, 0, 1, 6000], ["udp_bind", rx, 1, 3, 6000])
        for dst in (1, 3):
            lim = mss_of(cfg, dst, 8)
            sizes = sorted({max(0, lim - 1), lim, lim + 1, lim + 2, 65507, 65508, 65535, 65536, 65537, 70000,
                            131072 + min(lim, 5), 131072 + min(lim, 5) + 1, 65536 + lim, 65536 + lim + 1})
            for n in sizes:
                sc.add(["udp_send", u, n, dst, 6000], E, ["flush"])
            sc.add(["udp_connect", u, dst, 6000])
            for n in sizes:
                sc.add(["udp_send_c", u, n], E, ["flush"])
            sc.add(["netstat", 0], ["netstat", 1])
        out.append({"cfg": cfg, "script": sc.s, "flavour": "udp_boundary"})
    return out


def hs_retx_cases():
    """Deterministic family (always emitted, C13): the handshake completes on a RETRANSMITTED segment - exactly the
    first SYN, or exactly the first SYN-ACK, is lost; then data both ways, both sides close, more rounds than the
    retransmit budget, table probes and a re-bind.  connect Ok => accept hands the connection out once; afterwards
    both tables are empty."""
    out = []
    for (th, mx, v6, lost, cdata) in [(2, 3, False, "syn", False), (2, 3, False, "synack", False), (3, 5, True, "syn", True),
                                      (1, 3, False, "synack", True), (3, 5, False, "syn", False)]:
        cfg = full_cfg({"retx_threshold": th, "retx_max": mx, "backlog": 4, "send_cap": 64, "recv_cap": 64, "v6": v6})
        sc = Script()
        ls, cs, as_ = sc.slot(), sc.slot(), sc.slot()
        sc.add(["listen", ls, 1, 3, 80], ["connect", cs, 0, 3, 80], E)
        if lost == "syn":
            sc.add(["drop", 0])
        else:
            sc.add(D(0), E, ["drop", 0])
        for _ in range(2 * th + 4):
            sc.add(E, ["flush"], ["poll_connect", cs], ["accept", ls, as_])
        if cdata:
            sc.add(["write", cs, [1, 2, 3]], E, ["flush"], ["read", as_, 8], E, ["flush"], E, ["flush"], ["read", as_, 8])
        sc.add(["write", as_, [4, 5]], E, ["flush"], ["read", cs, 8], E, ["flush"], E, ["flush"], ["read", cs, 8])
        # both applications drop their streams (client first), then the listener goes
        sc.add(["close", cs], E, ["flush"], ["read", as_, 8], E, ["flush"], ["close", as_], E, ["flush"], ["close", ls])
        for _ in range(th * (mx + 1) + 4):
            sc.add(E, ["flush"])
        sc.add(["counts", 0], ["counts", 1], ["rows", 0], ["rows", 1])
        fin = sc.slot()
        sc.add(["listen", fin, 1, 3, 80], ["counts", 1])
        out.append({"cfg": cfg, "script": sc.s, "flavour": "hs_retx",
                    "plan": {"closed_all": True, "settled": True, "port": 80, "final_listen": fin,
                             "expect_accept": {"ls": ls, "cs": cs, "drops": 1}}})
    return out


def blocked_writer_cases():
    """Deterministic family (always emitted, C06): receive cap smaller than the transfer, no loss, no delay.  X's writer
    is parked behind Y's closed window with bytes still queued; Y writes back to X meanwhile; Y reads only after more
    than retx_threshold*(retx_max+1) egress rounds.  Y's bytes must be acknowledged (X owes bare ACKs although it has
    queued payload it cannot send), nobody is aborted, everything and EOF arrive.  Loopback and two hosts."""
    out = []
    for (th, mx, loop, swap, v6) in [(3, 5, True, False, False), (3, 5, False, False, False), (2, 3, False, True, True),
                                     (2, 3, True, True, False)]:
        cfg = full_cfg({"retx_threshold": th, "retx_max": mx, "backlog": 4, "send_cap": 64, "recv_cap": 16, "v6": v6})
        sc = Script()
        ls, cs, as_ = handshake(sc, loop=loop, listen_ia=(1 if loop else 3))
        x, y = (cs, as_) if not swap else (as_, cs)
        sc.add(["write", x, pattern(10, 0, 60)])
        for _ in range(4):
            sc.add(E, ["flush"])
        sc.add(["write", y, [49, 50, 51, 52]])
        for _ in range(th * (mx + 1) + 4):
            sc.add(E, ["flush"], ["read", x, 8])
        for _ in range(10):
            sc.add(["read", y, 16], E, ["flush"], E, ["flush"])
        sc.add(["shutdown", x], ["shutdown", y])
        for _ in range(th * (mx + 1) + 6):
            sc.add(E, ["flush"], ["read", x, 16], ["read", y, 16])
        sc.add(["read", x, 16], ["read", y, 16], ["rows", 0], ["rows", 1], ["netstat", 0], ["netstat", 1])
        out.append({"cfg": cfg, "script": sc.s, "flavour": "blocked_writer",
                    "plan": {"w": x, "r": y, "both": True, "fair_from": 0, "drops": 0, "ls": ls}})
    return out


def accept_waker_cases():
    """Deterministic family (always emitted, C13): two or three (simulated) tasks call accept() on one listener, each
    with its own waker; the earlier ones abandon it (never poll again); then connections arrive.  Once a connection
    sits in the ready queue the waker of the LIVE acceptor must have been woken, and its next poll returns the
    connection, once.  Loopback and two hosts; several rounds on one listener (backlog 1)."""
    out = []
    for (loop, ntasks, rounds, v6) in [(True, 2, 1, False), (False, 2, 2, False), (False, 3, 2, True), (True, 3, 3, False)]:
        cfg = full_cfg({"backlog": 1, "send_cap": 64, "recv_cap": 64, "v6": v6})
        sc = Script()
        lh = 0 if loop else 1
        ls = sc.slot()
        sc.add(["listen", ls, lh, 1 if loop else 3, 80])
        tid = 0
        handles = [ls]
        for r in range(rounds):
            live = None
            ns = sc.slot()
            for t in range(ntasks):
                tid += 1
                sc.add(["accept_w", ls, ns, tid])          # all park; only the last one stays interested
                live = tid
            cs = sc.slot()
            sc.add(["connect", cs, 0, 1 if loop else 3, 80])
            if loop:
                sc.add(E, ["poll_connect", cs])
            else:
                sc.clean(3, 2)
                sc.add(["poll_connect", cs])
            sc.add(["netstat", lh], ["woken", live], ["accept_w", ls, ns, live], ["netstat", lh])
            spare = sc.slot()
            sc.add(["accept", ls, spare])                    # nothing else queued
            handles += [ns, cs, spare]
        for h_ in handles[1:] + [ls]:
            sc.add(["close", h_])
        for _ in range(4):
            sc.add(E, ["flush"])
        sc.add(["counts", 0], ["counts", 1], ["rows", 0], ["rows", 1])
        fin = sc.slot()
        sc.add(["listen", fin, lh, 1 if loop else 3, 80], ["counts", lh])
        out.append({"cfg": cfg, "script": sc.s, "flavour": "accept_wakers",
                    "plan": {"closed_all": True, "settled": True, "port": 80, "final_listen": fin}})
    return out


def port_wrap_cases():
    """Deterministic family (always emitted, C13): the ephemeral-port scan wraps (verif hook set_cursor).  The top of
    the range is occupied (listener / UDP socket on 65535, or a connection bound there) and the cursor stands at or
    just below the end; also the first ports occupied with the cursor at the end.  connect / bind :0 must find a free
    port after the wrap; the connection works; everything is reclaimed."""
    out = []
    for (v6, how, cur) in [(False, "listen", 65535), (False, "udp", 65534), (True, "listen", 65534), (False, "first", 65535)]:
        cfg = full_cfg({"backlog": 4, "send_cap": 64, "recv_cap": 64, "v6": v6})
        sc = Script()
        hold = []
        if how == "listen":
            x = sc.slot(); hold.append(x)
            sc.add(["listen", x, 0, 0, 65535])
        elif how == "udp":
            x = sc.slot(); hold.append(x)
            sc.add(["udp_bind", x, 0, 0, 65535])
            y = sc.slot(); hold.append(y)
            sc.add(["listen", y, 0, 2, 65535])
        else:
            for prt in (49152, 49153):
                x = sc.slot(); hold.append(x)
                sc.add(["listen", x, 0, 0, prt])
        ls = sc.slot()
        sc.add(["listen", ls, 1, 3, 80], ["set_cursor", 0, cur])
        conns = []
        for i in range(3):
            cs, as_ = sc.slot(), sc.slot()
            sc.add(["connect", cs, 0, 3, 80])
            sc.clean(3, 2)
            sc.add(["poll_connect", cs], ["accept", ls, as_], ["write", cs, [i + 1]], E, ["flush"], ["read", as_, 4])
            conns += [cs, as_]
        u = sc.slot()
        sc.add(["udp_bind", u, 0, 0, 0], ["udp_send", u, 4, 3, 6000], E, ["flush"])       # bind :0 and an auto-bound datagram
        u2 = sc.slot()
        sc.add(["set_cursor", 0, 65535], ["udp_bind", u2, 0, 2, 0])
        for h_ in conns + [u, u2] + hold + [ls]:
            sc.add(["close", h_], E, ["flush"])
        for _ in range(6):
            sc.add(E, ["flush"])
        sc.add(["counts", 0], ["counts", 1], ["rows", 0], ["rows", 1])
        fin = sc.slot()
        sc.add(["listen", fin, 1, 3, 80], ["counts", 1])
        out.append({"cfg": cfg, "script": sc.s, "flavour": "port_wrap",
                    "plan": {"closed_all": True, "settled": True, "port": 80, "final_listen": fin}})
    return out


def rst_after_lost_data_cases():
    """Deterministic family (always emitted, C13): the client writes one byte and drops its stream (FIN, FIN_WAIT2); the
    server's data segment(s) to it are lost on the wire; the server drops its stream with the byte unread, so its RST
    carries seq = snd_nxt AHEAD of the client's rcv_nxt; the RST is delivered.  The lingering client socket must be
    torn down by it: afterwards both tables are empty (a delivered RST is not the OrphanLinger class)."""
    out = []
    for (v6, nseg, th) in [(False, 1, 3), (True, 2, 3), (False, 1, 2)]:
        cfg = full_cfg({"backlog": 4, "send_cap": 64, "recv_cap": 64, "v6": v6, "retx_threshold": th, "retx_max": 5})
        sc = Script()
        ls, cs, as_ = handshake(sc)
        sc.add(["write", cs, [7]], ["close", cs], E, ["flush"], E, ["flush"], E, ["flush"])
        for i in range(nseg):
            sc.add(["write", as_, [20 + i, 21 + i, 22 + i]], E, ["drop", 0])
        sc.add(["close", as_], E, ["flush"], ["close", ls])
        for _ in range(th * 6 + 6):
            sc.add(E, ["flush"])
        sc.add(["counts", 0], ["counts", 1], ["rows", 0], ["rows", 1])
        fin = sc.slot()
        sc.add(["listen", fin, 1, 3, 80], ["counts", 1])
        out.append({"cfg": cfg, "script": sc.s, "flavour": "rst_after_lost_data",
                    "plan": {"closed_all": True, "settled": True, "port": 80, "final_listen": fin}})
    return out


def wrap_cases(rng=None):
    """Sequence numbers crossing 2^32 (verif hook set_isn): ISN = 2^32 - k on both hosts, transfer larger than k in both
    directions, both roles, with and without one lost data segment; the model computes on unbounded naturals and the
    wire shows them mod 2^32.  Deterministic (always emitted); `rng` adds the random variants of the thorough tier."""
    out = []
    combos = [(1, False, False, 2), (100, False, True, 20), (100, True, False, 20), (1460, False, False, 1460),
              (1460, True, True, 100), (5000, False, True, 1460)]
    for (k, loss, swap, mss) in combos:
        cfg = full_cfg({"mtu": 40 + mss, "retx_threshold": 2, "retx_max": 5, "backlog": 4,
                        "send_cap": 8192 if k > 2000 else 4096, "recv_cap": 8192 if k > 2000 else 4096})
        sc = Script()
        sc.add(["set_isn", 0, 2 ** 32 - k], ["set_isn", 1, 2 ** 32 - (k // 2 + 1)])
        ls, cs, as_ = handshake(sc)
        w, rd = (cs, as_) if not swap else (as_, cs)
        total = k + (300 if k < 2000 else 1000)
        back = min(total, 600)
        chunk = 4096 if k < 2000 else 8192
        pos = 0
        first = True
        while pos < total:
            n = min(chunk, total - pos)
            sc.add(["write", w, pattern(10, pos, n)])
            if pos < back:
                sc.add(["write", rd, pattern(130, pos, min(200, back - pos))])
            sc.add(E)
            if loss and first:
                sc.add(["drop", 0])
                first = False
            sc.add(["flush"], ["read", rd, 70000], ["read", w, 70000])
            for _ in range(3 + (total // max(1, mss)) // 8):
                sc.add(E, ["flush"], ["read", rd, 70000], ["read", w, 70000])
            pos += n
        sc.add(["shutdown", w], ["shutdown", rd])
        for _ in range(10):
            sc.add(E, ["flush"], ["read", rd, 70000], ["read", w, 70000])
        sc.add(["read", rd, 8], ["read", w, 8], ["rows", 0], ["rows", 1], ["netstat", 0], ["netstat", 1])
        out.append({"cfg": cfg, "script": sc.s, "flavour": "wrap",
                    "plan": {"w": w, "r": rd, "both": True, "fair_from": 0, "drops": 1 if loss else 0, "ls": ls}})
    return out


def fin_wrap_cases():
    """Deterministic family (always emitted, C13 and C06): the FIN of a graceful close sits on or next to the last
    sequence number (verif hook set_isn: ISN = 2^32 - k, n bytes written before the shutdown, so the FIN has sequence
    number 2^32 - k + 1 + n and its acknowledgement is that plus one, mod 2^32 - for n = k - 2 the FIN is 0xFFFFFFFF and
    its ACK is 0), on the connecting and on the accepting side; with n > k the send window spans the wrap and a
    data-only ACK arrives while the FIN is outstanding (two MSS-sized segments, the first one acknowledged alone).  Both
    sides close; everything must be reclaimed and the port can be listened on again (seed C13-A8)."""
    out = []
    for (k, n, swap, mss) in [(2, 0, False, 100), (3, 1, False, 100), (10, 8, False, 100), (10, 8, True, 100), (10, 9, False, 100),
                              (10, 7, True, 100), (50, 48, False, 20), (50, 48, True, 20), (30, 60, False, 40), (30, 60, True, 40)]:
        cfg = full_cfg({"mtu": 40 + mss, "retx_threshold": 2, "retx_max": 5, "backlog": 4, "send_cap": 4096, "recv_cap": 4096})
        sc = Script()
        sc.add(["set_isn", 0, 2 ** 32 - k], ["set_isn", 1, 2 ** 32 - k])
        ls, cs, as_ = handshake(sc)
        w, rd = (cs, as_) if not swap else (as_, cs)
        if n:
            sc.add(["write", w, pattern(10, 0, n)])
        sc.add(["shutdown", w])
        for _ in range(6):
            sc.add(E, ["flush"], ["read", rd, 70000], ["read", w, 70000])
        sc.add(["rows", 0], ["rows", 1])
        sc.add(["shutdown", rd])
        for _ in range(6):
            sc.add(E, ["flush"], ["read", rd, 70000], ["read", w, 70000])
        for h_ in (cs, as_, ls):
            sc.add(["close", h_], E, ["flush"])
        for _ in range(6):
            sc.add(E, ["flush"])
        sc.add(["counts", 0], ["counts", 1], ["rows", 0], ["rows", 1])
        fin = sc.slot()
        sc.add(["listen", fin, 1, 3, 80], ["counts", 1])
        out.append({"cfg": cfg, "script": sc.s, "flavour": "fin_wrap",
                    "plan": {"closed_all": True, "settled": True, "port": 80, "final_listen": fin,
                             "w": w, "r": rd, "both": True, "fair_from": 0, "drops": 0, "ls": ls}})
    return out


def gen_live(rng):
    """Transfer with bounded faults (total drops < retx_max, overtaking by at most a few rounds)
    followed by a long fair phase in which both applications keep pumping and every packet is
    delivered in order (C06 liveness oracle).  `plan` tells the oracle who writes and reads."""
    cfg = rand_cfg(rng)
    cfg["retx_max"] = rng.choice([3, 3, 5])
    cfg["retx_threshold"] = rng.choice([2, 3, 3])
    cfg["backlog"] = 4
    sc = Script()
    fault_hs = rng.random() < 0.4
    ls, cs, as_ = sc.slot(), sc.slot(), sc.slot()
    sc.add(["listen", ls, 1, 3, 80], ["connect", cs, 0, 3, 80])
    budget = cfg["retx_max"] - 1
    drops = 0
    settle = cfg["retx_threshold"] + 1
    for i in range(3):
        sc.add(E)
        if fault_hs and drops < budget and rng.random() < 0.4:
            sc.add(["drop", 0])
            drops += 1
            for _ in range(settle):
                sc.add(E, D(0), D(0))
        sc.add(D(0), D(0))
    for _ in range(2 * settle):
        sc.add(E, D(0), D(0))
    sc.add(["poll_connect", cs], E, D(0), ["accept", ls, as_])
    w, rd = (cs, as_) if rng.random() < 0.6 else (as_, cs)
    rsize = rng.choice([1, 1, 2, 4, 16, 256])
    unit = max(1, min(rsize, cfg["recv_cap"], cfg["send_cap"], mss_of(cfg, 2)))   # bytes that get through per two rounds, at least
    total = min(rng.choice([1, 5, 20, 64, 150]), 40 * unit)
    chunk = rng.choice([1, 3, 16, 64, 200])
    both = rng.random() < 0.3
    pos = 0
    pdrop = rng.choice([0.0, 0.1, 0.2])
    phold = rng.choice([0.0, 0.0, 0.2])
    skipped = False
    for _ in range(rng.randrange(2, 10)):
        if pos < total:
            n = min(chunk, total - pos)
            sc.add(["write", w, pattern(10, pos, n)])
            pos += n
        if both and rng.random() < 0.5:
            sc.add(["write", rd, pattern(130, 0, 3)])
        sc.add(E)
        for _ in range(3):
            r = rng.random()
            if r < pdrop and drops < budget:
                sc.add(["drop", 0])
                drops += 1
            elif r < pdrop + phold:
                sc.add(D(1))
            else:
                sc.add(D(0))
        # bounded delay: what is left on the wire is held for at most one more round
        if skipped or rng.random() < 0.75:
            sc.add(["flush"])
            skipped = False
        else:
            skipped = True
        if rng.random() < 0.6:
            sc.add(["read", rd, rsize])
    fair_from = len(sc.s)
    FL = ["flush"]
    wrounds = 0
    while pos < total and wrounds < 60:
        n = min(chunk, total - pos)
        sc.add(["write", w, pattern(10, pos, n)], E, FL, ["read", rd, rsize])
        if both:
            sc.add(["read", w, 8])
        pos += n
        wrounds += 1
    sc.add(["shutdown", w])
    if both:
        sc.add(["shutdown", rd])
    rounds = (cfg["retx_max"] + 2) * settle + 12 + 3 * (total // unit)
    for i in range(rounds):
        sc.add(E, FL, ["read", rd, rsize])
        if both:
            sc.add(["read", w, 8])
    sc.add(["read", rd, rsize], ["read", w, 8], ["rows", 0], ["rows", 1], ["netstat", 0], ["netstat", 1])
    plan = {"w": w, "r": rd, "both": both, "fair_from": fair_from, "drops": drops, "ls": ls}
    return {"cfg": cfg, "script": sc.s, "flavour": "live", "plan": plan}


def exhaustive_single_faults(retx_threshold=2, retx_max=2):
    """Small fixed transfer (handshake, 5 bytes one way with MSS 2, shutdown both, close both);
    every emission round x every wire index gets exactly one drop or one overtaking."""
    out = []
    base_rounds = 14
    for fault_round in range(base_rounds):
        for idx in (0, 1):
            for kind in ("drop", "hold"):
                cfg = full_cfg({"mtu": 42, "send_cap": 8, "recv_cap": 4, "retx_threshold": retx_threshold,
                                "retx_max": retx_max, "backlog": 1})
                sc = Script()
                ls, cs, as_ = sc.slot(), sc.slot(), sc.slot()
                sc.add(["listen", ls, 1, 3, 80], ["connect", cs, 0, 3, 80])
                acts = {2: [["poll_connect", cs]], 3: [["poll_connect", cs], ["accept", ls, as_], ["write", cs, pattern(10, 0, 5)]],
                        5: [["accept", ls, as_], ["read", as_, 2]], 6: [["read", as_, 8], ["shutdown", cs]],
                        8: [["read", as_, 8], ["shutdown", as_]], 10: [["read", cs, 8], ["read", as_, 8]],
                        12: [["close", cs], ["close", as_]]}
                for r in range(base_rounds):
                    for a in acts.get(r, []):
                        sc.add(a)
                    sc.add(E)
                    if r == fault_round:
                        if kind == "drop":
                            sc.add(["drop", idx])
                        else:
                            sc.add(D(idx + 1))
                    sc.add(D(0), D(0), D(0))
                for r in range(10):
                    sc.add(E, D(0), D(0), D(0), ["poll_connect", cs], ["accept", ls, as_], ["read", as_, 8], ["read", cs, 8])
                sc.add(["close", cs], ["close", as_], ["close", ls])
                sc.clean(8, 3)
                sc.add(["netstat", 0], ["netstat", 1], ["counts", 0], ["counts", 1])
                out.append({"cfg": cfg, "script": sc.s, "flavour": "exhaustive-1fault"})
    return out


def case_signature(case):
    return json.dumps([case["cfg"], case["script"]], sort_keys=True)


def histogram(cases):
    h = {"cases": len(cases), "flavours": {}, "commands": {}, "steps": 0, "v6": 0, "mss": {}, "send_cap": {},
         "recv_cap": {}, "backlog": {}}
    for c in cases:
        h["flavours"][c.get("flavour", "corpus")] = h["flavours"].get(c.get("flavour", "corpus"), 0) + 1
        cfg = full_cfg(c["cfg"])
        h["v6"] += 1 if cfg["v6"] else 0
        for k, v in (("mss", mss_of(cfg, 2)), ("send_cap", cfg["send_cap"]), ("recv_cap", cfg["recv_cap"]),
                     ("backlog", cfg["backlog"])):
            h[k][str(v)] = h[k].get(str(v), 0) + 1
        h["steps"] += len(c["script"])
        for cmd in c["script"]:
            h["commands"][cmd[0]] = h["commands"].get(cmd[0], 0) + 1
    return h
