"""Family `rules` (property C19): scripts for harness bin `rules` and their
rendering as TV.NetPure.Fixture events."""
import ipaddress
import itertools
import json

MS = 1000000
TICK = MS            # fixture TICK; re-read from the source by the translator (C19.consts)
PORT = 9000
DELAYS = [0, 1, 300000, 999999, 1000000, 1000001, 1500000, 2000000, 2500000, 3000000, 5000000]
UNKNOWN4, UNKNOWN6 = "10.9.9.9", "fd00::99"
TCP_ID0 = 1000000

HEADER = ("From TV.Lib Require Import Base.\nFrom TV.NetPure Require Import Ip Rules Sched Fixture.\n"
          "Open Scope N_scope.\n")


# ---- rendering ---------------------------------------------------------------

def ip_coq(s):
    a = ipaddress.ip_address(s)
    return "(V%d %d)" % (a.version, int(a))


def is_loopback(s):
    return ipaddress.ip_address(s).is_loopback


def v_coq(v):
    if v == "pass":
        return "Pass"
    if v == "drop":
        return "Drop"
    return "(Deliver %d)" % v[1]


def spec_coq(s):
    t = s["t"]
    if t == "const":
        return "(RConst %s)" % v_coq(s["v"])
    if t == "seq":
        return "(RSeq [%s] %s)" % ("; ".join(v_coq(v) for v in s["vs"]), v_coq(s["d"]))
    if t == "bytag":
        return "(RByTag [%s] %s)" % ("; ".join("(%d, %s)" % (k, v_coq(v)) for k, v in s["tbl"]), v_coq(s["d"]))
    if t in ("bydst", "bysrc"):
        return "(%s [%s] %s)" % ("RByDst" if t == "bydst" else "RBySrc",
                                 "; ".join("(%s, %s)" % (ip_coq(k), v_coq(v)) for k, v in s["tbl"]), v_coq(s["d"]))
    if t == "proto":
        return "(RProto %d %s %s)" % (s["p"], v_coq(s["v"]), v_coq(s["d"]))
    raise ValueError(t)


def pkt_coq(pid, d):
    """d = harness packet descriptor [src, dst, proto, sport, dport, flags, tag, seq, len]"""
    return "(mkpkt %d %s %s %d %d %d %d)" % (pid, ip_coq(d[0]), ip_coq(d[1]), d[2], d[3], d[4], d[5])


def udp_src(addrs, dst):
    """source address udp::send_to picks for a wildcard-bound socket"""
    a = ipaddress.ip_address(dst)
    if a.is_loopback:
        return "127.0.0.1" if a.version == 4 else "::1"
    for x in addrs:
        if ipaddress.ip_address(x).version == a.version:
            return x
    return "0.0.0.0" if a.version == 4 else "::"


def udp_desc(addrs, dst, tag):
    return [udp_src(addrs, dst), dst, 0, PORT, PORT, 0, tag, 0, 8]


def norm_ip(s):
    return str(ipaddress.ip_address(s))


def is_local(addrs, dst):
    return is_loopback(dst) or norm_ip(dst) in [norm_ip(a) for a in addrs]


def owner(hosts, dst):
    d = norm_ip(dst)
    for i, addrs in enumerate(hosts):
        if d in [norm_ip(a) for a in addrs]:
            return i
    return None


def hosts_coq(hosts):
    return "[%s]" % "; ".join("[%s]" % "; ".join(ip_coq(a) for a in addrs) for addrs in hosts)


def fam(ip):
    return ipaddress.ip_address(ip).version


# ---- python semantics of specs (oracle side) --------------------------------------

def spec_answer(s, calls, d):
    """verdict of a rule with spec s on its (calls+1)-th invocation for packet desc d"""
    t = s["t"]
    if t == "const":
        return s["v"]
    if t == "seq":
        return s["vs"][calls] if calls < len(s["vs"]) else s["d"]
    if t == "bytag":
        for k, v in s["tbl"]:
            if k == d[6]:
                return v
        return s["d"]
    if t in ("bydst", "bysrc"):
        key = norm_ip(d[1] if t == "bydst" else d[0])
        for k, v in s["tbl"]:
            if norm_ip(k) == key:
                return v
        return s["d"]
    if t == "proto":
        return s["v"] if d[2] == s["p"] else s["d"]
    raise ValueError(t)


def vcode(v):
    if v == "pass":
        return [0, 0]
    if v == "drop":
        return [2, 0]
    return [1, v[1]]


# ---- to_model ---------------------------------------------------------------------

def rule_events_manual(cmd):
    n = cmd[0]
    if n == "install":
        return "FInstall true %s" % spec_coq(cmd[2])
    if n == "drop":
        return "FDropGuard %d" % cmd[1]
    if n == "forget":
        return "FForget %d" % cmd[1]
    return None


def has_tcp(case):
    if case["mode"] == "manual":
        return any(c[0].startswith("tcp_") or c[0] == "pump_drop" for c in case["script"])
    return bool(case["cfg"].get("tcp"))


def assign_ids(descs, counter):
    """ghost ids of observed packets: the tag for datagrams, a running number for TCP"""
    out = []
    for d in descs:
        if d[2] == 0:
            out.append(d[6])
        else:
            out.append(TCP_ID0 + counter[0])
            counter[0] += 1
    return out


def fixture_steps(case):
    cfg = case["cfg"]
    n = len(cfg["hosts"])
    for k in range(cfg["nsteps"]):
        for h in range(n):
            st = case["script"].get(str(h), [])
            for cmd in (st[k] if k < len(st) else []):
                yield k, h, cmd


def tap_packets(case, obs):
    """(tick index, desc) of every packet shown to rule 1, ticks 1..nsteps"""
    n = case["cfg"]["nsteps"]
    return [(e[1] // TICK, e[2]) for e in obs["log"] if e[0] == 1 and e[1] <= n * TICK]


def to_model(case, obs):
    cfg = case["cfg"]
    hosts = cfg["hosts"]
    evs, probes, problems = [], [], []
    if case["mode"] == "manual":
        tcp = has_tcp(case)
        counter = [0]
        for s in cfg["perm"]:
            evs.append("FInstall false %s" % spec_coq(s))
        for i, cmd in enumerate(case["script"]):
            o = obs["steps"][i] if i < len(obs.get("steps", [])) else {}
            e = rule_events_manual(cmd)
            if e:
                if cmd[0] == "install":
                    probes.append((len(evs), "id", i))
                evs.append(e)
            elif cmd[0] == "udp":
                if o.get("r") == 8 and not tcp:
                    evs.append("FSend %d %s" % (cmd[1], pkt_coq(cmd[3], udp_desc(hosts[cmd[1]], cmd[2], cmd[3]))))
            elif cmd[0] == "pump_drop":
                ids = assign_ids(o.get("out", []), counter)
                pk = [pkt_coq(a, d) for a, d in zip(ids, o.get("out", []))]
                j = min(cmd[2], len(pk))
                first = len(evs)
                evs.append("FEvalIn [%s]" % "; ".join(pk[:j]))
                if cmd[2] < len(pk):
                    evs.append("FDropGuard %d" % cmd[1])
                probes.append((first, "pumpd", (i, len(evs))))
                evs.append("FEvalIn [%s]" % "; ".join(pk[j:]))
            elif cmd[0] == "pump":
                probes.append((len(evs), "pump", i))
                if tcp:
                    ids = assign_ids(o.get("out", []), counter)
                    evs.append("FEvalIn [%s]" % "; ".join(pkt_coq(a, d) for a, d in zip(ids, o.get("out", []))))
                else:
                    evs.append("FPump")
    else:
        tcp = has_tcp(case)
        nst = cfg["nsteps"]
        bytick = {}
        if tcp:
            counter = [0]
            taps = tap_packets(case, obs)
            ids = assign_ids([d for _, d in taps], counter)
            for (j, d), a in zip(taps, ids):
                bytick.setdefault(j, []).append(pkt_coq(a, d))
        sends = {(s[0], s[1], s[2]): s for s in obs.get("sends", [])}
        cmds = {}
        for k, h, cmd in fixture_steps(case):
            cmds.setdefault(k, []).append((h, cmd))
        for k in range(nst):
            for h, cmd in cmds.get(k, []):
                e = rule_events_manual(cmd) if cmd[0] != "udp" else None
                if e:
                    if cmd[0] == "install":
                        probes.append((len(evs), "id", cmd[1]))
                    evs.append(e)
                elif cmd[0] == "udp" and not tcp:
                    s = sends.get((h, k, cmd[2]))
                    if s is None:
                        problems.append("step %d host %d: send of %d not executed" % (k, h, cmd[2]))
                    elif s[4] == 8:
                        evs.append("FSend %d %s" % (h, pkt_coq(cmd[2], udp_desc(hosts[h], cmd[1], cmd[2]))))
            probes.append((len(evs), "tick", k + 1))
            if tcp:
                evs.append("FTickIn %d [%s]" % (TICK, "; ".join(bytick.get(k + 1, []))))
            else:
                evs.append("FTick %d" % TICK)
    term = "frun_enc %s [%s]" % (hosts_coq(hosts), "; ".join(evs))
    return term, probes, problems


# ---- compare -------------------------------------------------------------------------

def desc_id_map(case, obs):
    """ghost id -> descriptor for every packet the model was told about"""
    return None


def compare(case, obs, model, probes):
    if obs.get("panic"):
        return "implementation panicked: %s" % obs["panic"]
    if isinstance(model, tuple) and model and model[0] == "error":
        return "model evaluation failed: %s" % str(model[1])[-400:]
    if obs.get("errs"):
        return "harness errors: %s" % obs["errs"][:3]
    cfg = case["cfg"]
    hosts = cfg["hosts"]
    tcp = has_tcp(case)
    if case["mode"] == "manual":
        counter = [0]
        prev_len = 0
        for idx, kind, i in probes:
            if idx >= len(model):
                return "model produced too few outputs"
            m = model[idx]
            o = obs["steps"][i[0] if kind == "pumpd" else i]
            if kind == "id":
                if o.get("id") != m[1] or m[1] != case["script"][i][1]:
                    return "cmd %d: install returned RuleId %s, model %s, script key %s" % (i, o.get("id"), m[1], case["script"][i][1])
                continue
            # pump
            m5 = list(m[5])
            if kind == "pumpd":
                i, idx2 = i
                o = obs["steps"][i]
                m5 += list(model[idx2][5])
            out = o["out"]
            ids = assign_ids(out, counter)
            m_evals = [list(x) for x in m5]
            if [x[0] for x in m_evals] != ids:
                return "cmd %d: egress_all handed out packets %s, model %s" % (i, ids, [x[0] for x in m_evals])
            if [list(v) for v in o["verdicts"]] != [[x[2], x[3]] for x in m_evals]:
                return "cmd %d: evaluate returned %s, model %s" % (i, o["verdicts"], [[x[2], x[3]] for x in m_evals])
            start = obs["steps"][i - 1]["log_len"] if i > 0 else 0
            seg = obs["log"][start:o["log_len"]]
            exp = [[r, out[j]] for j, x in enumerate(m_evals) for r in x[1]]
            got = [[e[0], e[2]] for e in seg]
            if exp != got:
                return "cmd %d: rule invocation log %s, model %s" % (i, [[g[0], g[1][6] or g[1][2:6]] for g in got], [[g[0], g[1][6] or g[1][2:6]] for g in exp])
            if not tcp:
                # arrivals: folded packets at their own host, then every non-dropped packet at its owner
                desc = {}
                for c in case["script"][:i + 1]:
                    if c[0] == "udp":
                        desc[c[3]] = (c[1], udp_desc(hosts[c[1]], c[2], c[3]))
                exp_arr = {}
                for t in m[3]:
                    h, d = desc[t]
                    exp_arr.setdefault((h, fam(d[1])), []).append([h, t, norm_ip(d[0])])
                for x in m_evals:
                    if x[2] == 2:
                        continue
                    h0, d = desc[x[0]]
                    h = owner(hosts, d[1])
                    if h is not None:
                        exp_arr.setdefault((h, fam(d[1])), []).append([h, x[0], norm_ip(d[0])])
                flat = []
                for h in range(len(hosts)):
                    for f in (4, 6):
                        flat.extend(exp_arr.get((h, f), []))
                got_arr = [[a[0], a[1], norm_ip(a[2])] for a in o["arr"]]
                if flat != got_arr:
                    return "cmd %d: datagrams received %s, model %s" % (i, got_arr, flat)
        return None
    # fixture
    ids_obs = {k: v for k, v in obs["ids"]}
    nst = cfg["nsteps"]
    exp_log, exp_arr = [], {}
    desc = {}
    if tcp:
        counter = [0]
        taps = tap_packets(case, obs)
        for (j, d), a in zip(taps, assign_ids([d for _, d in taps], counter)):
            desc[a] = (None, d)
    else:
        for k, h, cmd in fixture_steps(case):
            if cmd[0] == "udp":
                desc[cmd[2]] = (h, udp_desc(hosts[h], cmd[1], cmd[2]))
    for idx, kind, key in probes:
        if idx >= len(model):
            return "model produced too few outputs"
        m = model[idx]
        if kind == "id":
            if ids_obs.get(key) != m[1] or m[1] != key:
                return "install of rule %s returned RuleId %s, model %s" % (key, ids_obs.get(key), m[1])
            continue
        t = key * TICK
        if m[1] != t:
            return "tick %d: model scheduler time %s" % (key, m[1])
        for x in m[5]:
            for r in x[1]:
                exp_log.append([r, t, desc[x[0]][1]])
        for group, folded in ((m[2], False), (m[3], True), (m[4], False)):
            for a in group:
                h0, d = desc[a]
                if d[2] != 0:
                    continue
                h = h0 if folded else owner(hosts, d[1])
                if h is not None:
                    exp_arr.setdefault((h, fam(d[1])), []).append([a, norm_ip(d[0]), t])
    got_log = [[e[0], e[1], e[2]] for e in obs["log"] if e[1] <= nst * TICK]
    if exp_log != got_log:
        for i, (a, b) in enumerate(itertools.zip_longest(got_log, exp_log)):
            if a != b:
                return "rule invocation %d: implementation %s, model %s" % (i, brief(a), brief(b))
    got_arr = {}
    known = set(desc)
    for a in obs["arr"]:
        if tcp and a[1] not in known:
            continue          # loopback datagrams are not shown to the tap; the oracle covers them
        got_arr.setdefault((a[0], fam(a[2])), []).append([a[1], norm_ip(a[2]), a[3]])
    for key in sorted(set(exp_arr) | set(got_arr)):
        if exp_arr.get(key, []) != got_arr.get(key, []):
            return "host %d (IPv%d) received (tag, from, instant) %s, model %s" % (key[0], key[1], got_arr.get(key, []), exp_arr.get(key, []))
    return None


def brief(e):
    if e is None:
        return None
    return [e[0], e[1], e[2][6] if e[2][2] == 0 else e[2][:6]]


# ---- generators --------------------------------------------------------------------------

def rand_verdict(rng, delays=DELAYS, w_pass=3, w_drop=1, w_del=3):
    r = rng.randrange(w_pass + w_drop + w_del)
    if r < w_pass:
        return "pass"
    if r < w_pass + w_drop:
        return "drop"
    return ["deliver", rng.choice(delays)]


def rand_spec(rng, tags, ips, delays=DELAYS):
    r = rng.random()
    if r < 0.25:
        return {"t": "const", "v": rand_verdict(rng, delays)}
    if r < 0.45:
        return {"t": "seq", "vs": [rand_verdict(rng, delays) for _ in range(rng.randrange(1, 6))], "d": rand_verdict(rng, delays)}
    if r < 0.7:
        ks = rng.sample(tags, min(len(tags), rng.randrange(1, 8))) if tags else []
        return {"t": "bytag", "tbl": [[k, rand_verdict(rng, delays, 1, 1, 3)] for k in ks], "d": rand_verdict(rng, delays, 5, 1, 1)}
    if r < 0.85:
        ks = rng.sample(ips, min(len(ips), rng.randrange(1, 3)))
        return {"t": rng.choice(["bydst", "bysrc"]), "tbl": [[k, rand_verdict(rng, delays, 1, 2, 3)] for k in ks], "d": "pass"}
    return {"t": "proto", "p": rng.choice([0, 1]), "v": rand_verdict(rng, delays, 1, 1, 2), "d": "pass"}


def rand_hosts(rng, n=None, v6=True):
    n = n or rng.choice([1, 2, 2, 3, 3, 4])
    hosts = []
    for h in range(n):
        addrs = ["10.0.%d.1" % h]
        r = rng.random()
        if r < 0.3:
            addrs.append("10.0.%d.2" % h)
        if v6 and rng.random() < 0.4:
            addrs.append("fd00::%d:1" % (h + 1))
        if rng.random() < 0.08:
            addrs = [a for a in addrs if ":" in a]      # no IPv4 address at all
        hosts.append(addrs)
    return hosts


def rand_dst(rng, hosts, h):
    r = rng.random()
    others = [a for i, x in enumerate(hosts) if i != h for a in x]
    if r < 0.6 and others:
        return rng.choice(others)
    if r < 0.72:
        return rng.choice(["127.0.0.1", "127.0.0.1", "::1", "127.5.5.5"])
    if r < 0.84 and hosts[h]:
        return rng.choice(hosts[h])
    if r < 0.92:
        return rng.choice([UNKNOWN4, UNKNOWN6])
    return rng.choice(others) if others else "127.0.0.1"


class Tags:
    def __init__(self):
        self.n = 100

    def next(self):
        self.n += 1
        return self.n


def gen_manual(rng, with_tcp=False):
    hosts = rand_hosts(rng)
    allips = [a for x in hosts for a in x] + [UNKNOWN4]
    tags = Tags()
    ncmd = rng.randrange(10, 40)
    future_tags = list(range(101, 101 + ncmd))
    perm = [rand_spec(rng, future_tags, allips) for _ in range(rng.choice([0, 0, 1, 2]))]
    key = len(perm)
    live, script = [], []
    tcpn = 0
    listeners, streams, conns = [], [], []
    for _ in range(ncmd):
        r = rng.random()
        if r < 0.18:
            key += 1
            script.append(["install", key, rand_spec(rng, future_tags, allips), rng.choice(["guard", "free"])])
            live.append(key)
        elif r < 0.27 and key:
            k = rng.choice(live) if live and rng.random() < 0.85 else rng.randrange(1, key + 1)
            script.append([rng.choice(["drop", "drop", "forget"]), k])
            if k in live:
                live.remove(k)
        elif r < 0.75 or not with_tcp:
            if rng.random() < 0.25:
                script.append(["pump"])
            else:
                h = rng.randrange(len(hosts))
                script.append(["udp", h, rand_dst(rng, hosts, h), tags.next()])
        else:
            q = rng.random()
            v4hosts = [i for i, x in enumerate(hosts) if any("." in a for a in x)]
            if q < 0.25 and v4hosts:
                h = rng.choice(v4hosts)
                tcpn += 1
                nm = "l%d" % tcpn
                ip = rng.choice(["0.0.0.0"] + [a for a in hosts[h] if "." in a])
                script.append(["tcp_listen", h, nm, "%s:%d" % (ip, 7000 + tcpn)])
                listeners.append((nm, h, 7000 + tcpn))
            elif q < 0.55 and listeners:
                nm_l, hl, port = rng.choice(listeners)
                h = rng.randrange(len(hosts))
                tcpn += 1
                nm = "c%d" % tcpn
                dst = "127.0.0.1" if h == hl and rng.random() < 0.5 else next(a for a in hosts[hl] if "." in a)
                script.append(["tcp_connect", h, nm, "%s:%d" % (dst, port)])
                script.append(["pump"])
                script.append(["pump"])
                script.append(["tcp_poll", nm])
                conns.append(nm)
            elif q < 0.7 and listeners:
                tcpn += 1
                nm = "s%d" % tcpn
                script.append(["tcp_accept", rng.choice(listeners)[0], nm])
                streams.append(nm)
            elif q < 0.9 and (conns or streams):
                script.append(["tcp_write", rng.choice(conns + streams), rng.randrange(1, 3000)])
                script.append(["pump"])
            elif conns or streams or listeners:
                nm = rng.choice(conns + streams + [x[0] for x in listeners])
                script.append(["tcp_drop", nm])
                conns = [c for c in conns if c != nm]
                streams = [c for c in streams if c != nm]
                listeners = [x for x in listeners if x[0] != nm]
    script.append(["pump"])
    script.append(["pump"])
    return {"mode": "manual", "cfg": {"hosts": hosts, "perm": perm}, "script": script,
            "flavour": "manual-tcp" if with_tcp else "manual"}


def gen_fixture(rng, lo=False, with_tcp=False, sched_focus=False):
    hosts = [[]] if lo else rand_hosts(rng, n=rng.choice([2, 2, 3, 4]))
    n = len(hosts)
    allips = [a for x in hosts for a in x] + [UNKNOWN4]
    active = rng.randrange(4, 12)
    delays = DELAYS
    if sched_focus:
        delays = rng.choice([[1000000, 2000000, 3000000], [999999, 1000000, 1000001, 2000000], [300000, 1500000, 2500000, 0]])
    maxd = max(delays)
    nsteps = active + maxd // TICK + 3
    tags = Tags()
    future_tags = list(range(101, 101 + active * n * 4))
    script = {str(h): [[] for _ in range(nsteps)] for h in range(n)}
    key = 0
    live = []
    tcpcfg = []
    if with_tcp:
        script["0"][0].append(["install", 1, {"t": "const", "v": "pass"}])
        script["0"][0].append(["forget", 1])
        key = 1
        v4 = [i for i, x in enumerate(hosts) if any("." in a for a in x)]
        for i in range(rng.randrange(1, 3)):
            if not v4:
                break
            s = rng.choice(v4)
            c = rng.randrange(n)
            dst = "127.0.0.1" if c == s else next(a for a in hosts[s] if "." in a)
            tcpcfg.append({"server": s, "client": c, "dst": dst, "port": 7000 + i,
                           "at": rng.randrange(1, max(2, active - 2)), "n": rng.choice([1, 10, 200, 3000])})
    for k in range(active):
        rh = rng.randrange(n)                      # the one host allowed rule operations in this step
        for h in range(n):
            cmds = script[str(h)][k]
            nsend = rng.choice([0, 1, 1, 2, 3, 5] if sched_focus else [0, 0, 1, 1, 2, 3])
            for _ in range(nsend):
                cmds.append(["udp", rand_dst(rng, hosts, h), tags.next()])
            if h == rh and not (with_tcp and k == 0):
                nops = rng.choice([0, 0, 1, 1, 2]) if not sched_focus else (1 if k == 0 else rng.choice([0, 0, 0, 1]))
                ops = []
                for _ in range(nops):
                    r = rng.random()
                    if r < 0.6 or not key:
                        key += 1
                        if sched_focus:
                            spec = {"t": "bytag", "tbl": [[t, ["deliver", rng.choice(delays)]] for t in rng.sample(future_tags, len(future_tags) * 3 // 4)],
                                    "d": rng.choice(["pass", ["deliver", rng.choice(delays)]])}
                        else:
                            spec = rand_spec(rng, future_tags, allips, delays)
                        ops.append(["install", key, spec])
                        live.append(key)
                    else:
                        kk = rng.choice(live) if live and rng.random() < 0.85 else rng.randrange(1, key + 1)
                        ops.append([rng.choice(["drop", "drop", "forget"]), kk])
                        if kk in live:
                            live.remove(kk)
                # interleave with the sends of this step, keeping the order of the rule operations
                slots = sorted(rng.randrange(len(cmds) + 1) for _ in ops)
                for off, (pos, op) in enumerate(zip(slots, ops)):
                    cmds.insert(pos + off, op)
    return {"mode": "fixture", "cfg": {"hosts": hosts, "lo": lo, "nsteps": nsteps, "tcp": tcpcfg}, "script": script,
            "flavour": "fixture-lo" if lo else "fixture-tcp" if with_tcp else "fixture-sched" if sched_focus else "fixture"}


def gen_coincide(rng, variant=None):
    """deadlines that coincide exactly between delayed and zero-delay packets to one destination:
    "a" leaves with Deliver(k ticks); k ticks later "b" leaves with no delay (Pass / Deliver(0) / no rule
    left because the latency guard was dropped meanwhile); several of each.  Arrival order at the
    destination must be emission order: everything that came due first, then this tick's packets."""
    variant = rng.randrange(3) if variant is None else variant
    hosts = [["10.0.0.1"], ["10.0.1.1"], ["10.0.2.1"]]
    dst = "10.0.1.1"
    ks = sorted(rng.sample([1, 2, 3, 4], rng.randrange(1, 4)), reverse=True)     # delays in ticks
    t0 = 1
    base = t0 + max(ks)                 # the step in which the zero-delay packets leave
    nsteps = base + 4
    tags = Tags()
    s0 = [[] for _ in range(nsteps)]
    s2 = [[] for _ in range(nsteps)]
    table, late = [], []
    for k in ks:                        # "a" packets: sent k steps before `base`, deadline = tick of `base`+1
        for _ in range(rng.randrange(1, 3)):
            t = tags.next()
            table.append([t, ["deliver", k * TICK]])
            (s0 if rng.random() < 0.7 else s2)[base - k].append(["udp", dst, t])
    for _ in range(rng.randrange(1, 4)):    # "b" packets
        t = tags.next()
        late.append(t)
        (s0 if rng.random() < 0.7 else s2)[base].append(["udp", dst, t])
    if variant == 0:        # per-packet delay function: b falls through to Pass
        spec = {"t": "bytag", "tbl": table, "d": "pass"}
        s0[0].append(["install", 1, spec])
    elif variant == 1:      # b gets an explicit Deliver(0)
        spec = {"t": "bytag", "tbl": table + [[t, ["deliver", 0]] for t in late], "d": "drop"}
        s0[0].append(["install", 1, spec])
    else:                   # a latency guard dropped while the delayed packets are in flight
        k = ks[0]
        s0 = [[] for _ in range(nsteps)]
        s2 = [[] for _ in range(nsteps)]
        s0[0].append(["install", 1, {"t": "const", "v": ["deliver", k * TICK]}])
        for _ in range(rng.randrange(1, 4)):
            (s0 if rng.random() < 0.7 else s2)[base - k].append(["udp", dst, tags.next()])
        s0[base - 1].insert(0, ["drop", 1]) if base - 1 > base - k else s0[base].insert(0, ["drop", 1])
        for _ in range(rng.randrange(1, 4)):
            s0[base].append(["udp", dst, tags.next()])
    return {"mode": "fixture", "cfg": {"hosts": hosts, "lo": False, "nsteps": nsteps, "tcp": []},
            "script": {"0": s0, "1": [], "2": s2}, "flavour": "coincide"}


def gen_batch_drop(rng):
    """a hand-written scheduler that drops a guard between two evaluate calls of ONE drain:
    egress_all, evaluate j packets, drop the guard, evaluate the rest (no install in between).
    The dropped rule must stop applying at once."""
    hosts = [["10.0.0.1"], ["10.0.1.1"]]
    tags = Tags()
    script = []
    nrules = rng.randrange(1, 4)
    victim = rng.randrange(1, nrules + 1)
    for k in range(1, nrules + 1):
        v = rng.choice(["drop", ["deliver", 1500000], ["deliver", 0]]) if k == victim else rng.choice(["pass", "pass", "drop"])
        script.append(["install", k, {"t": "const", "v": v}, rng.choice(["guard", "free"])])
    n = rng.randrange(2, 7)
    for _ in range(n):
        h = rng.randrange(2)
        script.append(["udp", h, hosts[1 - h][0], tags.next()])
    script.append(["pump_drop", victim, rng.randrange(0, n)])
    for _ in range(rng.randrange(1, 3)):
        script.append(["udp", 0, "10.0.1.1", tags.next()])
    script.append(["pump"])
    return {"mode": "manual", "cfg": {"hosts": hosts, "perm": []}, "script": script, "flavour": "batch-drop"}


def exhaustive_chains():
    """every chain of <= 3 constant rules over {pass, drop, deliver 0, deliver d}, one datagram each,
    then every single removal followed by another datagram (manual mode)."""
    alpha = ["pass", "drop", ["deliver", 0], ["deliver", 1500000]]
    out = []
    hosts = [["10.0.0.1"], ["10.0.1.1"]]
    for L in (0, 1, 2, 3):
        for combo in itertools.product(alpha, repeat=L):
            script = []
            for i, v in enumerate(combo):
                script.append(["install", i + 1, {"t": "const", "v": v}, "guard" if i % 2 else "free"])
            script += [["udp", 0, "10.0.1.1", 101], ["pump"]]
            for i in range(L):
                script += [["drop" if i % 2 == 0 else "forget", i + 1], ["udp", 1, "10.0.0.1", 102 + i], ["pump"]]
            out.append({"mode": "manual", "cfg": {"hosts": hosts, "perm": []}, "script": script, "flavour": "chain-exhaustive"})
    return out


def exhaustive_sched():
    """two datagrams, emitted in the same or in consecutive ticks, with every pair of delays from a
    small set: covers equal, crossing, sub-tick and zero delays (fixture mode)."""
    ds = [0, 1, 999999, 1000000, 1000001, 2000000]
    out = []
    hosts = [["10.0.0.1"], ["10.0.1.1"]]
    for d1 in ds:
        for d2 in ds:
            for gap in (0, 1):
                spec = {"t": "bytag", "tbl": [[101, ["deliver", d1]], [102, ["deliver", d2]]], "d": "drop"}
                s0 = [[["install", 1, spec]], [["udp", "10.0.1.1", 101]]]
                if gap == 0:
                    s0[1].append(["udp", "10.0.1.1", 102])
                else:
                    s0.append([["udp", "10.0.1.1", 102]])
                out.append({"mode": "fixture", "cfg": {"hosts": hosts, "lo": False, "nsteps": 8, "tcp": []},
                            "script": {"0": s0, "1": []}, "flavour": "sched-exhaustive"})
    return out


def case_signature(case):
    return json.dumps([case["mode"], case["cfg"], case["script"]], sort_keys=True)


def histogram(cases):
    h = {"cases": len(cases), "flavours": {}, "installs": 0, "drops": 0, "forgets": 0, "datagrams": 0,
         "pumps": 0, "tcp_cmds": 0, "hosts": {}, "spec_kinds": {}, "delays": {}}

    def count_spec(s):
        h["spec_kinds"][s["t"]] = h["spec_kinds"].get(s["t"], 0) + 1
        vs = [s.get("v"), s.get("d")] + list(s.get("vs", [])) + [v for _, v in s.get("tbl", [])]
        for v in vs:
            if isinstance(v, list):
                h["delays"][str(v[1])] = h["delays"].get(str(v[1]), 0) + 1

    def count_cmd(c):
        n = c[0]
        if n == "install":
            h["installs"] += 1
            count_spec(c[2])
        elif n == "drop":
            h["drops"] += 1
        elif n == "forget":
            h["forgets"] += 1
        elif n == "udp":
            h["datagrams"] += 1
        elif n == "pump":
            h["pumps"] += 1
        elif n.startswith("tcp_"):
            h["tcp_cmds"] += 1
    for c in cases:
        f = c.get("flavour", c["mode"])
        h["flavours"][f] = h["flavours"].get(f, 0) + 1
        nh = str(len(c["cfg"]["hosts"]))
        h["hosts"][nh] = h["hosts"].get(nh, 0) + 1
        if c["mode"] == "manual":
            for s in c["cfg"]["perm"]:
                count_spec(s)
            for cmd in c["script"]:
                count_cmd(cmd)
        else:
            h["tcp_cmds"] += len(c["cfg"].get("tcp", []))
            for st in c["script"].values():
                for cmds in st:
                    for cmd in cmds:
                        count_cmd(cmd)
    return h
