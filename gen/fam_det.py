"""Family `det` (C01): scenario generator for the double-run determinism search."""


def gen_scenario(rng, big=False):
    n = rng.choice([1, 2, 3, 3, 4, 5])
    cfg = {
        "seed": rng.choice([0, 1, (1 << 64) - 1, (1 << 63), rng.randrange(1 << 64)]) if rng.random() < 0.25
        else rng.randrange(1 << 40), "tick_us": rng.choice([500, 1000, 1000, 2000, 3000, 7000]),
        "min_ms": rng.choice([0, 0, 1, 3]), "curve": rng.choice([5.0, 1.0, 0.2, 30.0]),
        "fail": rng.choice([0.0, 0.0, 0.05, 0.3]), "repair": rng.choice([1.0, 0.5, 0.1]),
        "random_order": rng.random() < 0.5, "tcp_cap": rng.choice([1, 2, 4, 64]), "udp_cap": rng.choice([1, 2, 64]),
        "ipv6": rng.random() < 0.3, "epoch_s": rng.choice([0, 1, 1700000000, 4102444800]),
        "fs": {"sync_p": rng.choice([0.0, 0.0, 0.3, 1.0]), "err_p": rng.choice([0.0, 0.0, 0.1]),
               "short_p": rng.choice([0.0, 0.3]), "lat_ms": rng.choice([None, 1, 5]),
               "block": rng.choice([None, 4, 16])},
    }
    cfg["max_ms"] = cfg["min_ms"] + rng.choice([0, 2, 10, 40])
    kinds = []
    servers_udp, servers_tcp = [], []
    for i in range(n):
        k = rng.choice(["udp_echo", "udp_client", "tcp_server", "tcp_client", "spawner", "racer", "fs", "fs", "uring", "finisher"])
        kinds.append(k)
        if k == "udp_echo":
            servers_udp.append(i)
        if k == "tcp_server":
            servers_tcp.append(i)
    if n >= 3 and rng.random() < 0.3:
        # a multicast scenario: one sender, the others members of one group
        kinds = ["mc_sender"] + ["mc_member"] * (n - 1)
        rng.shuffle(kinds)
    hosts = []
    for i, k in enumerate(kinds):
        h = {"kind": k, "salt": rng.randrange(1, 1 << 20)}
        if k == "udp_client":
            t = rng.choice(servers_udp) if servers_udp else rng.randrange(n)
            h.update({"target": "n%d" % t, "n": rng.randrange(2, 8), "timeout_ms": rng.choice([3, 10, 30])})
        elif k == "tcp_client":
            t = rng.choice(servers_tcp) if servers_tcp else rng.randrange(n)
            h.update({"target": "n%d" % t, "n": rng.randrange(1, 4)})
        elif k == "spawner":
            h.update({"tasks": rng.randrange(2, 9)})
        elif k == "mc_sender":
            h.update({"n": rng.randrange(3, 9)})
        elif k == "mc_member":
            h.update({"leave_after": rng.choice([1000, 1000, 2, 4])})
        elif k == "racer":
            h.update({"lanes": 3, "rounds": rng.randrange(6, 20)})
        elif k == "finisher":
            h.update({"linger_ms": rng.choice([0, 0, 1, 5, 20])})
        elif k == "fs":
            h.update({"files": rng.randrange(2, 7), "rounds": rng.randrange(2, 4)})
        elif k == "uring":
            h.update({"depth": rng.choice([1, 2, 4, 8]), "batches": rng.randrange(2, 5)})
        hosts.append(h)
    nsteps = rng.randrange(40, 160 if not big else 400)
    ctl = {}
    down = set()
    for _ in range(rng.choice([0, 1, 2, 4, 6])):
        k = rng.randrange(2, nsteps)
        r = rng.random()
        if r < 0.12 and n >= 2:
            # host sets by regex: several hosts crashed / bounced / cut in resolution order
            pat = rng.choice(["^n", "^n[0-%d]$" % rng.randrange(n), "^n[%d-%d]$" % (rng.randrange(n), n - 1)])
            ctl.setdefault(str(k), []).append(["crash_re", pat])
            ctl.setdefault(str(min(nsteps - 1, k + rng.randrange(0, 12))), []).append(["bounce_re", pat])
        elif r < 0.2 and n >= 2:
            pat, pat2 = "^n[0-%d]$" % rng.randrange(n), rng.choice(["^n", "^n[%d-%d]$" % (rng.randrange(n), n - 1)])
            ctl.setdefault(str(k), []).append([rng.choice(["partition_re", "hold_re"]), pat, pat2])
            ctl.setdefault(str(min(nsteps - 1, k + rng.randrange(1, 15))), []).append([rng.choice(["repair_re", "release_re"]), pat, pat2])
        elif r < 0.3:
            h = rng.randrange(n)
            ctl.setdefault(str(k), []).append(["crash", h])
            ctl.setdefault(str(min(nsteps - 1, k + rng.randrange(0, 12))), []).append(["bounce", h])
        elif n >= 2:
            a, b = rng.sample(range(n), 2)
            name = rng.choice(["partition", "repair", "hold", "hold", "release", "partition_oneway", "repair_oneway"])
            ctl.setdefault(str(k), []).append([name, a, b])
            if name == "hold":      # un-park from the controller a little later, one way or another
                k2 = min(nsteps - 1, k + rng.randrange(1, 15))
                ctl.setdefault(str(k2), []).append([rng.choice(["release", "deliver_all", "deliver_first"]), a, b])
                if rng.random() < 0.5:
                    ctl.setdefault(str(min(nsteps - 1, k2 + rng.randrange(1, 6))), []).append(["release", a, b])
    return {"cfg": cfg, "nsteps": nsteps, "hosts": hosts, "ctl": ctl}


def finisher_scenarios():
    """Deterministic family: a host whose software has returned (leaving background tasks) is crashed /
    bounced several steps later, alone and next to a running host; destructors and the restarted factory
    read the host clocks between two steps."""
    out = []
    for tick_us, linger, at, how in [(2000, 0, 3, "bounce"), (1000, 5, 12, "bounce"), (1000, 0, 6, "crash"),
                                     (3000, 1, 4, "bounce_re"), (1000, 20, 10, "bounce")]:
        cfg = {"seed": 7 + at, "tick_us": tick_us, "min_ms": 0, "max_ms": 2, "curve": 5.0, "fail": 0.0, "repair": 1.0,
               "random_order": at % 2 == 0, "tcp_cap": 64, "udp_cap": 64, "ipv6": False, "epoch_s": 1700000000,
               "fs": {"sync_p": 0.0, "err_p": 0.0, "short_p": 0.0, "lat_ms": None, "block": None}}
        hosts = [{"kind": "finisher", "salt": 1, "linger_ms": linger}, {"kind": "spawner", "salt": 5, "tasks": 3}]
        ctl = {}
        if how == "bounce":
            ctl[str(at)] = [["bounce", 0]]
            ctl[str(at + 3)] = [["bounce", 0], ["bounce", 1]]
        elif how == "crash":
            ctl[str(at)] = [["crash", 0]]
            ctl[str(at + 4)] = [["bounce", 0]]
        else:
            ctl[str(at)] = [["bounce_re", "^n"]]
        out.append({"cfg": cfg, "nsteps": at + 12, "hosts": hosts, "ctl": ctl, "flavour": "finisher",
                    "wall_sleep_us": 3000, "wall_lead_cap_us": 60000})
    return out


def gen_netfix(rng):
    """turmoil-net fixture scenario (no turmoil::Sim): two servers + client under a jitter/drop rule."""
    return {"cfg": {"tick_us": 1000, "random_order": False, "ipv6": False,
                    "fs": {"sync_p": 0, "err_p": 0, "short_p": 0, "block": None}},
            "nsteps": 0, "hosts": [], "ctl": {},
            "netfix": {"rounds": rng.randrange(2, 7), "salt": rng.randrange(1, 1 << 30),
                       "drop_pct": rng.choice([0, 0, 3, 10])}}


def histogram(cases):
    h = {"cases": len(cases), "hosts": {}, "kinds": {}, "ctl": {}, "random_order": 0, "ipv6": 0, "fs_faults": 0}
    h["netfix"] = sum(1 for c in cases if "netfix" in c)
    for c in cases:
        n = str(len(c["hosts"]))
        h["hosts"][n] = h["hosts"].get(n, 0) + 1
        for x in c["hosts"]:
            h["kinds"][x["kind"]] = h["kinds"].get(x["kind"], 0) + 1
        for acts in c["ctl"].values():
            for a in acts:
                h["ctl"][a[0]] = h["ctl"].get(a[0], 0) + 1
        h["random_order"] += 1 if c["cfg"]["random_order"] else 0
        h["ipv6"] += 1 if c["cfg"]["ipv6"] else 0
        f = c["cfg"]["fs"]
        h["fs_faults"] += 1 if (f["sync_p"] or f["err_p"] or f["short_p"] or f["block"]) else 0
    return h
