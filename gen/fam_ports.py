"""Family `ports`: scripts for harness bin `ports` (real Sim with a tiny ephemeral
range; real name table) and their rendering as TV.Ports.Model / TV.Ports.Dns
events.  Serves C15."""
import ipaddress
import json
import re

EXHAUSTED = "ports exhausted"
LOOP = 99      # address code of a loopback peer
NOHOST = 98    # address code of an address no host owns
FIXED = [80, 81, 9000]


# ---------------------------------------------------------------------------
# interpretation of a ports case against the observed results

def results_by_cmd(obs):
    return {(r[0], r[1], r[2]): r[3] for r in obs.get("res", [])}


def walk(case, obs):
    """Replay the script with the implementation's results and yield, in
    execution order, tuples (step, host, idx, cmd, result, events, effect) where
    `events` are model events (strings, without the host tag) and `effect`
    describes what happened to the harness objects of that host:
      ("new", sid, obj) | ("del", sid, obj) | ("half", sid, obj) | None
    obj = {"t": "udp"|"lst"|"stream"|"conn", "port":.., "key": (l, rip, rport), "out": bool}
    Also yields ("crash", step, h) / ("probe", step) markers."""
    n = case["cfg"]["nhosts"]
    res = results_by_cmd(obs)
    objs = [dict() for _ in range(n)]
    out = []
    # RSTs of abandoned connects on their way: target host -> [(src, sid, rport, ready_step, at_end)]
    rstq = [[] for _ in range(n)]

    def abandon(k, h, sid, o, crashed):
        """a pending connect future is dropped: ConnectGuard sends a RST to the peer (latency 0)"""
        rip = o.get("rip")
        if rip is None or rip == NOHOST:
            return
        if rip == LOOP or rip == h:
            if not crashed:                     # send_loopback task: fires at the end of the next turn
                rstq[h].append((h, sid, o["rport"], k + 1, True, LOOP if rip == LOOP else h))
            return
        rstq[rip].append((h, sid, o["rport"], k, False, h))

    def flush(k, t, at_end):
        keep = []
        for (src, sid, rport, ready, end, code) in rstq[t]:
            if end == at_end and k >= ready:
                out.append(("rst", k, t, src, sid, rport, code))
            else:
                keep.append((src, sid, rport, ready, end, code))
        rstq[t] = keep

    for k, st in enumerate(case["steps"]):
        for act in st.get("ctl", []):
            if act[0] == "crash":
                out.append(("crash", k, act[1], dict(objs[act[1]])))
                for sid, o in objs[act[1]].items():
                    if o["t"] == "conn":
                        abandon(k, act[1], sid, o, True)
                rstq[act[1]] = [x for x in rstq[act[1]] if not x[4]]    # its loopback tasks die with it
                objs[act[1]] = {}
            else:
                out.append(("bounce", k, act[1]))
        for h in range(n):
            flush(k, h, False)
            for i, cmd in enumerate(st.get("hosts", {}).get(str(h), [])):
                r = res.get((k, h, i))
                if r is None:
                    out.append(("cmd", k, h, i, cmd, None, [], None))
                    continue
                name = cmd[0]
                evs, eff = [], None
                if name in ("udp_bind", "tcp_bind"):
                    sid, kind, port = cmd[1], cmd[2], cmd[3]
                    if kind == "self":
                        evs = ["BindBadAddr"]
                    else:
                        evs = ["%s %d" % ("UdpBind" if name == "udp_bind" else "TcpBind", port)]
                    if "ok" in r:
                        o = {"t": "udp" if name == "udp_bind" else "lst", "port": r["ok"]}
                        objs[h][sid] = o
                        eff = ("new", sid, o)
                elif name == "connect":
                    sid, dst, port = cmd[1], cmd[2], cmd[3]
                    rip = LOOP if dst == "lo" else NOHOST if dst == "nohost" else dst
                    evs = ["Connect %d %d %d" % (sid, rip, port)]
                    o = {"t": "conn", "port": None, "key": None, "out": True, "rip": rip, "rport": port}
                    if "ok" in r:
                        o = {"t": "stream", "port": r["ok"][0], "key": (r["ok"][0], r["ok"][1], r["ok"][2]),
                             "out": True, "halves": 2}
                        evs.append("ConnectOk %d" % sid)
                        objs[h][sid] = o
                        eff = ("new", sid, o)
                    elif "pending" in r:
                        objs[h][sid] = o
                        eff = ("new", sid, o)
                    elif "err" in r:
                        evs.append("ConnectErr %d" % sid)
                        eff = ("failed", sid, o)
                elif name == "poll":
                    sid = cmd[1]
                    o = objs[h].get(sid)
                    if o and o["t"] == "conn":
                        if "ok" in r:
                            evs = ["ConnectOk %d" % sid]
                            o2 = {"t": "stream", "port": r["ok"][0], "key": (r["ok"][0], r["ok"][1], r["ok"][2]),
                                  "out": True, "halves": 2, "since": o.get("since")}
                            objs[h][sid] = o2
                            eff = ("resolved", sid, o2, o)
                        elif "err" in r and r["err"] != "NoSuchObject":
                            evs = ["ConnectErr %d" % sid]
                            del objs[h][sid]
                            eff = ("failed", sid, o)
                elif name == "accept":
                    sid = cmd[2]
                    if "ok" in r:
                        o = {"t": "stream", "port": r["ok"][0], "key": (r["ok"][0], r["ok"][1], r["ok"][2]),
                             "out": False, "halves": 2}
                        evs = ["Accepted %d %d %d" % o["key"]]
                        objs[h][sid] = o
                        eff = ("new", sid, o)
                elif name == "drop":
                    sid = cmd[1]
                    o = objs[h].get(sid)
                    if o is not None and "ok" in r:
                        if o["t"] == "udp":
                            evs = ["UdpDrop %d" % o["port"]]
                        elif o["t"] == "lst":
                            evs = ["TcpDrop %d" % o["port"]]
                        elif o["t"] == "conn":
                            evs = ["ConnectCancel %d" % sid]
                            abandon(k, h, sid, o, False)
                        else:
                            evs = ["CloseHalf %d %d %d" % o["key"]] * o["halves"]
                        del objs[h][sid]
                        eff = ("del", sid, o)
                elif name == "drop_half":
                    sid = cmd[1]
                    o = objs[h].get(sid)
                    if o is not None and o["t"] == "stream" and "ok" in r and o["halves"] == 2:
                        evs = ["CloseHalf %d %d %d" % o["key"]]
                        o["halves"] = 1
                        eff = ("half", sid, o)
                if "panic" in r and EXHAUSTED not in r["panic"]:
                    # 4-tuple reuse / self-connect assertions are outside C15: the
                    # history is considered up to (excluding) that command
                    out.append(("truncated", k, h, i, cmd, r))
                    return out
                out.append(("cmd", k, h, i, cmd, r, evs, eff))
            flush(k, h, True)
        out.append(("probe", k))
    return out



def expected_res(cmd, r):
    """Encoding (code, port) the model must produce for the FIRST event of a command."""
    if r is None:
        return None
    if "ok" in r:
        if cmd[0] in ("udp_bind", "tcp_bind"):
            return (0, r["ok"])
        if cmd[0] == "connect":
            return (0, r["ok"][0])
        return None
    if "panic" in r:
        return (2, 0) if EXHAUSTED in r["panic"] else ("panic", r["panic"])
    if "err" in r:
        return {"AddrInUse": (1, 0), "AddrNotAvailable": (3, 0)}.get(r["err"])
    return None


def to_model(case, obs):
    cfg = case["cfg"]
    if cfg["kind"] == "dns":
        return dns_to_model(case, obs)
    evs, probes, problems = [], [], []
    for item in walk(case, obs):
        if item[0] == "crash":
            evs.append("At %d Crash" % item[2])
        elif item[0] in ("bounce", "truncated"):
            pass
        elif item[0] == "rst":
            evs.append("DeliverRst %d %d" % (item[3], item[4]))
        elif item[0] == "probe":
            probes.append((len(evs), "tables", item[1]))
            evs.append("Probe")
        else:
            _, k, h, i, cmd, r, mev, eff = item
            if r is None:
                problems.append("step %d host %d cmd %d %s: no result recorded" % (k, h, i, cmd))
                continue
            if "panic" in r and EXHAUSTED not in r["panic"]:
                problems.append("step %d host %d %s panicked: %s" % (k, h, cmd, r["panic"]))
            if "pending" in r and cmd[0] in ("udp_bind", "tcp_bind"):
                problems.append("step %d host %d %s: bind pending" % (k, h, cmd))
            exp = expected_res(cmd, r)
            for j, e in enumerate(mev):
                if j == 0 and cmd[0] in ("udp_bind", "tcp_bind", "connect"):
                    probes.append((len(evs), "res", (k, h, i, cmd, exp, r)))
                evs.append("At %d (%s)" % (h, e))
    term = "wrun_enc %d %d %d [%s]" % (cfg["nhosts"], cfg["lo"], cfg["hi"], "; ".join(evs))
    return term, probes, problems


def compare(case, obs, model, probes):
    if isinstance(model, tuple) and model and model[0] == "error":
        return "model evaluation failed: %s" % str(model[1])[-300:]
    if case["cfg"]["kind"] == "dns":
        return dns_compare(case, obs, model, probes)
    for idx, kind, key in probes:
        if idx >= len(model):
            return "model produced too few outputs"
        tag, res, tabs = model[idx]
        if kind == "res":
            k, h, i, cmd, exp, r = key
            if "pending" in r:
                # the assigned port of a pending connect shows in the tables
                if res[0] != 0:
                    return "step %d host %d %s: implementation pending, model result %s" % (k, h, cmd, res)
                continue
            if exp is None:
                if cmd[0] == "connect" and "err" in r:
                    # refused at once (no host): the port was still assigned
                    if res[0] != 0:
                        return "step %d host %d %s: implementation %s, model result %s" % (k, h, cmd, r, res)
                    continue
                return "step %d host %d %s: unexpected implementation result %s" % (k, h, cmd, r)
            if tuple(exp) != tuple(res):
                return "step %d host %d %s: implementation %s, model %s" % (k, h, cmd, r, res)
        else:
            it = obs["tables"][key]
            for h, (mt, im) in enumerate(zip(tabs, it)):
                mudp, mtcp, mstreams, mcur = mt
                mview = {"udp": sorted(mudp), "tcp": sorted(mtcp),
                         "streams": sorted([list(x) for x in mstreams]), "next": mcur}
                iview = {"udp": im["udp"], "tcp": im["tcp"], "streams": [list(x) for x in im["streams"]],
                         "next": im["next"]}
                if mview != iview:
                    return "after step %d host %d tables: implementation %s, model %s" % (key, h, iview, mview)
    return None


# ---------------------------------------------------------------------------
# DNS

def addr_int(s):
    return int(ipaddress.ip_address(s))


def unchunk(c):
    a, b, cc, d = c
    return ((a * 2 ** 32 + b) * 2 ** 32 + cc) * 2 ** 32 + d


def coq_addr(s):
    x = addr_int(s)
    m = 2 ** 32
    return "mk_addr %d %d %d %d" % (x // m ** 3, (x // m ** 2) % m, (x // m) % m, x % m)


def dns_universe(case):
    ids = set()
    for op in case["ops"]:
        if op[0] in ("name", "host", "lookup_many_times"):
            ids.add(op[1])
    return sorted(ids)


def dns_to_model(case, obs):
    v6 = case["cfg"].get("v6", False)
    ops = case["ops"]
    if ops and ops[0][0] == "bulk":
        probes = ops[0][3]
        term = "map (nth_fresh_addr %s) [%s]" % ("V6" if v6 else "V4", "; ".join(str(p) for p in probes))
        return term, [("bulk",)], []
    uni = dns_universe(case)
    evs = []
    for op in ops:
        if op[0] in ("name", "host", "lookup_many_times"):
            # n lookups of one name = one lookup (C15.dns_known_lookup_no_advance: a known
            # name is returned without touching the counter)
            evs.append("DLookup (Name %d)" % op[1])
        elif op[0] in ("lit", "litstr"):
            evs.append("DLookup (Literal (%s))" % coq_addr(op[1]))
        elif op[0] == "rev":
            evs.append("DReverse (%s)" % coq_addr(op[1]))
        elif op[0] == "re":
            rx = re.compile(op[1])
            evs.append("DMany [%s]" % "; ".join(str(i) for i in uni if rx.search("n%d" % i)))
    term = "drun_enc %s [%s]" % ("true" if v6 else "false", "; ".join(evs))
    return term, [("dns",)], []


def dns_compare(case, obs, model, probes):
    out = obs["out"]
    if probes[0][0] == "bulk":
        got = [addr_int(a) for a in out[0]]
        if got != [unchunk(m) for m in model]:
            return "bulk registration: implementation addresses %s, model %s" % (out[0], list(model))
        return None
    if len(model) != len(out):
        return "model produced %d outputs, implementation %d" % (len(model), len(out))
    for j, (op, o, m) in enumerate(zip(case["ops"], out, model)):
        if isinstance(o, dict) and "panic" in o:
            return "op %d %s panicked: %s" % (j, op, o["panic"])
        if op[0] == "rev":
            name = o["name"]
            iv = 0 if name is None else (int(name[1:]) + 1 if re.fullmatch(r"n\d+", name) else -1)
            if [[iv]] != [list(x) for x in m]:
                return "op %d %s: implementation %s, model %s" % (j, op, name, list(m))
        else:
            iv = [addr_int(a) for a in o]
            mv = [unchunk(x) for x in m]
            if iv != mv:
                return "op %d %s: implementation %s, model %s" % (j, op, o, [str(ipaddress.ip_address(x)) if x < 2 ** 32 else str(ipaddress.IPv6Address(x)) for x in mv])
    return None


# ---------------------------------------------------------------------------
# generators

class Pred:
    """Generator-side guess of the host tables (only used to make scripts mostly
    valid and to aim at interesting ports; never compared with anything)."""

    def __init__(self, lo, hi):
        self.lo, self.hi, self.cur = lo, hi, lo
        self.udp, self.tcp, self.streams = set(), set(), set()

    def assign(self):
        for _ in range(self.hi - self.lo + 1):
            p = self.cur
            self.cur = self.lo if self.cur == self.hi else self.cur + 1
            if p in self.udp or p in self.tcp or p in self.streams:
                continue
            return p
        return None


def gen_ports_script(rng, nsteps=None):
    n = rng.choice([1, 2, 2, 3])
    size = rng.choice([2, 3, 3, 4, 5, 6])
    lo = rng.choice([50000, 49152, 65535 - size + 1, 1024])
    hi = lo + size - 1
    cfg = {"kind": "ports", "lo": lo, "hi": hi, "nhosts": n, "v6": rng.random() < 0.3, "seed": rng.randrange(1 << 20)}
    nsteps = nsteps or rng.randrange(8, 30)
    steps = [{"ctl": [], "hosts": {}}]
    pred = [Pred(lo, hi) for _ in range(n)]
    running = [True] * n
    down_until = [0] * n
    objs = [dict() for _ in range(n)]     # sid -> dict(t=..., port=..., target=..)
    next_sid = [1]
    block_connect_until = 0

    def sid():
        next_sid[0] += 1
        return next_sid[0]

    def pick_port(h, proto):
        r = rng.random()
        if r < 0.55:
            return 0
        if r < 0.85:
            return rng.randrange(lo, hi + 1)
        return rng.choice(FIXED)

    for k in range(1, nsteps + 1):
        ctl, hosts = [], {}
        extra_drops = {}

        def drop_accepted_on(hosts_list):
            for t in hosts_list:
                for s, o in list(objs[t].items()):
                    if o["t"] == "acc":
                        extra_drops.setdefault(t, []).append(["drop", s])
                        del objs[t][s]

        for h in range(n):
            if not running[h] and k >= down_until[h]:
                ctl.append(["bounce", h])
                running[h] = True
        if rng.random() < 0.06:
            h = rng.randrange(n)
            if running[h]:
                ctl.append(["crash", h])
                running[h] = False
                down_until[h] = k + rng.choice([1, 1, 2, 3])
                objs[h] = {}
                pred[h].udp, pred[h].tcp, pred[h].streams = set(), set(), set()
                drop_accepted_on(range(n))
                block_connect_until = k + 3
        for h in range(n):
            if not running[h]:
                continue
            cmds = []
            for _ in range(rng.choice([0, 1, 1, 2, 3, 4])):
                r = rng.random()
                mine = objs[h]
                if r < 0.22:
                    p = pick_port(h, "udp")
                    s = sid()
                    kind = rng.choice(["any", "any", "lo", "self"]) if rng.random() < 0.3 else "any"
                    cmds.append(["udp_bind", s, kind, p])
                    if kind != "self":
                        q = pred[h].assign() if p == 0 else (p if p not in pred[h].udp else None)
                        if q is not None:
                            pred[h].udp.add(q)
                            mine[s] = {"t": "udp", "port": q}
                elif r < 0.42:
                    p = pick_port(h, "tcp")
                    s = sid()
                    kind = rng.choice(["any", "lo", "self"]) if rng.random() < 0.25 else "any"
                    cmds.append(["tcp_bind", s, kind, p])
                    if kind != "self":
                        q = pred[h].assign() if p == 0 else (p if p not in pred[h].tcp else None)
                        if q is not None:
                            pred[h].tcp.add(q)
                            mine[s] = {"t": "lst", "port": q}
                elif r < 0.62 and k >= block_connect_until:
                    tr = rng.random()
                    if tr < 0.08:
                        dst, th = "nohost", None
                    elif tr < 0.2:
                        dst, th = "lo", h
                    else:
                        th = rng.randrange(n)
                        dst = th
                    lports = sorted(o["port"] for o in objs[th].values() if o["t"] == "lst") if th is not None else []
                    # A listener port inside the ephemeral range can later be the SOURCE port of a
                    # connect in the other direction: the two 4-tuples coincide and a stray RST /
                    # accept hits the wrong entry (no TIME_WAIT in turmoil; outside C15).  Random
                    # scripts connect to ports outside the range only; streams accepted from
                    # in-range listeners are covered by gen_accept_wrap_script.
                    lports = [p for p in lports if not lo <= p <= hi]
                    port = rng.choice(lports) if lports and rng.random() < 0.8 else rng.choice(FIXED)
                    s = sid()
                    cmds.append(["connect", s, dst, port])
                    q = pred[h].assign()
                    if q is not None:
                        pred[h].streams.add(q)
                        mine[s] = {"t": "conn", "port": q, "target": th}
                elif r < 0.74:
                    conns = [s for s, o in mine.items() if o["t"] == "conn"]
                    if conns:
                        cmds.append(["poll", rng.choice(conns)])
                elif r < 0.86:
                    lsts = [s for s, o in mine.items() if o["t"] == "lst"]
                    if lsts:
                        s = sid()
                        cmds.append(["accept", rng.choice(lsts), s])
                        mine[s] = {"t": "acc", "port": None}
                else:
                    if mine:
                        s = rng.choice(sorted(mine))
                        o = mine[s]
                        if o["t"] in ("conn", "acc") and rng.random() < 0.3:
                            # a lone write-half drop sends a FIN whose RST answer (peer already
                            # gone) would remove the entry through the network: not a table event
                            cmds.append(["drop_half", s, "r"])
                        else:
                            if o["t"] in ("conn", "acc") and rng.random() < 0.3:
                                cmds.append(["drop_half", s, "w"])
                            cmds.append(["drop", s])
                            del mine[s]
                            if o["t"] == "udp":
                                pred[h].udp.discard(o["port"])
                            elif o["t"] == "lst":
                                pred[h].tcp.discard(o["port"])
                            elif o["t"] == "conn":
                                pred[h].streams.discard(o["port"])
                                block_connect_until = k + 3
                                if o.get("target") is not None:
                                    drop_accepted_on([o["target"]])
                                else:
                                    drop_accepted_on([h])
                            elif o["t"] == "acc":
                                block_connect_until = k + 3
            if cmds:
                hosts[str(h)] = cmds
        for t, ds in extra_drops.items():
            if running[t]:
                hosts.setdefault(str(t), []).extend(ds)
        steps.append({"ctl": ctl, "hosts": hosts})
    for _ in range(3):
        steps.append({"ctl": [], "hosts": {}})
    return {"cfg": cfg, "steps": steps, "flavour": "ports-random"}


def gen_accept_wrap_script(rng):
    """Several streams accepted from ONE listener whose port lies inside the
    ephemeral range (they all share the listener's port as local port); the
    listener and some - not all - of the accepted streams are dropped; then
    enough ephemeral requests to wrap the cursor over that port; finally the
    rest is dropped and the port must become assignable again."""
    size = rng.choice([3, 4, 4, 5, 6])
    lo = rng.choice([50000, 49152, 65535 - size + 1, 1024])
    hi = lo + size - 1
    n = rng.choice([2, 2, 3])
    srv = rng.randrange(n)
    clients = [h for h in range(n) if h != srv]
    cfg = {"kind": "ports", "lo": lo, "hi": hi, "nhosts": n, "v6": rng.random() < 0.3, "seed": rng.randrange(1 << 20)}
    sid = [1]

    def new():
        sid[0] += 1
        return sid[0]

    steps = [{"ctl": [], "hosts": {}}]
    pre = []
    used = 0
    for _ in range(rng.choice([0, 0, 1, 2])):          # shift the cursor before the listener binds
        if used + 2 < size:
            pre.append([rng.choice(["udp_bind", "tcp_bind"]), new(), "any", 0])
            used += 1
    lsid = new()
    if rng.random() < 0.6:
        lport = lo + used
        pre.append(["tcp_bind", lsid, rng.choice(["any", "any", "lo"]) if False else "any", 0])
    else:
        lport = rng.randrange(lo + used, hi + 1)
        pre.append(["tcp_bind", lsid, "any", lport])
    steps.append({"ctl": [], "hosts": {str(srv): pre}})
    k = rng.choice([2, 2, 3])
    k = min(k, size)
    conns = []
    hosts = {}
    for i in range(k):
        c = clients[i % len(clients)] if rng.random() < 0.85 or size - used < 3 else srv
        if c == srv and lo <= lport <= hi and size < 4:
            c = clients[0]
        s_ = new()
        conns.append((c, s_))
        hosts.setdefault(str(c), []).append(["connect", s_, srv, lport])
    steps.append({"ctl": [], "hosts": hosts})
    steps.append({"ctl": [], "hosts": {}})
    accs = [new() for _ in range(k)]
    steps.append({"ctl": [], "hosts": {str(srv): [["accept", lsid, a] for a in accs]}})
    hosts = {}
    for c, s_ in conns:
        hosts.setdefault(str(c), []).append(["poll", s_])
    steps.append({"ctl": [], "hosts": hosts})
    # drop the listener and j of the k accepted streams, in some order, maybe over two steps
    j = rng.randrange(1, k)
    order = accs[:]
    rng.shuffle(order)
    gone, kept = order[:j], order[j:]
    cmds = [["drop", lsid]]
    for a in gone:
        if rng.random() < 0.3:
            cmds.append(["drop_half", a, "r"])
        cmds.append(["drop", a])
    rng.shuffle(cmds)
    fixed = []
    for cmd in cmds:                       # a drop_half must precede the drop of the same object
        fixed.append(cmd)
    halves = [c for c in fixed if c[0] == "drop_half"]
    fixed = halves + [c for c in fixed if c[0] != "drop_half"]
    if rng.random() < 0.5:
        steps.append({"ctl": [], "hosts": {str(srv): fixed}})
    else:
        cut = rng.randrange(1, len(fixed) + 1)
        steps.append({"ctl": [], "hosts": {str(srv): fixed[:cut]}})
        steps.append({"ctl": [], "hosts": {str(srv): fixed[cut:]}})
    # wrap the cursor: more ephemeral requests than the range has ports
    reqs = []
    mine = []
    for _ in range(size + rng.choice([0, 1, 2])):
        r = rng.random()
        s_ = new()
        if r < 0.45:
            reqs.append(["udp_bind", s_, rng.choice(["any", "lo"]), 0])
        elif r < 0.8:
            reqs.append(["tcp_bind", s_, "any", 0])
        else:
            reqs.append(["connect", s_, "nohost", 9000])
            continue
        mine.append(s_)
        if rng.random() < 0.25 and mine:
            reqs.append(["drop", mine.pop(rng.randrange(len(mine)))])
    half = len(reqs) // 2 if rng.random() < 0.5 else len(reqs)
    steps.append({"ctl": [], "hosts": {str(srv): reqs[:half]}})
    if reqs[half:]:
        steps.append({"ctl": [], "hosts": {str(srv): reqs[half:]}})
    # release everything that is left on the server, then the port is free again
    steps.append({"ctl": [], "hosts": {str(srv): [["drop", a] for a in kept] + [["drop", m] for m in mine]}})
    steps.append({"ctl": [], "hosts": {}})
    steps.append({"ctl": [], "hosts": {str(srv): [["udp_bind", new(), "any", 0] for _ in range(size)]}})
    steps.append({"ctl": [], "hosts": {}})
    return {"cfg": cfg, "steps": steps, "flavour": "ports-accept-wrap"}


def exhaustive_small_ports():
    """All sequences of length <= 4 over a small alphabet on one host with a
    2-port range (wrap-around, exhaustion and per-protocol conflicts)."""
    lo, hi = 50000, 50001
    alphabet = [("udp_bind", 0), ("tcp_bind", 0), ("udp_bind", lo), ("tcp_bind", lo), ("connect", 0), ("drop", 0), ("drop", 1)]
    seqs = [[]]
    frontier = [[]]
    for _ in range(4):
        frontier = [s + [a] for s in frontier for a in alphabet]
        seqs.extend(frontier)
    out = []
    for seq in seqs:
        if not seq:
            continue
        cmds_steps = [{"ctl": [], "hosts": {}}]
        created = []
        s = 1
        for (name, arg) in seq:
            if name == "drop":
                if arg < len(created):
                    cmd = ["drop", created[arg]]
                else:
                    cmd = None
            elif name == "connect":
                s += 1
                created.append(s)
                cmd = ["connect", s, "lo", 80]
            else:
                s += 1
                created.append(s)
                cmd = [name, s, "any", arg]
            if cmd:
                cmds_steps.append({"ctl": [], "hosts": {"0": [cmd]}})
                if name == "drop":
                    cmds_steps.extend({"ctl": [], "hosts": {}} for _ in range(2))
        cmds_steps.append({"ctl": [], "hosts": {}})
        out.append({"cfg": {"kind": "ports", "lo": lo, "hi": hi, "nhosts": 1, "v6": False, "seed": 1},
                    "steps": cmds_steps, "flavour": "ports-exhaustive"})
    return out


REGEXES = ["^n1", "^n[0-9]$", "7$", ".*", "^n(3|5|77)$", "zzz", "^n[1-3][0-9]$", "n.*0$", "^n2[0-9]*$"]


def gen_dns_script(rng, max_names=600):
    v6 = rng.random() < 0.5
    nn = rng.choice([3, 10, 40, 150, 300, max_names])
    names = list(range(nn))
    rng.shuffle(names)
    ops = []
    hosted = set()
    registered = 0
    base = "fe80::" if v6 else "192.168."

    def subnet_addr(x):
        if v6:
            return str(ipaddress.IPv6Address((0xfe80 << 112) + x))
        return str(ipaddress.IPv4Address((192 << 24) + (168 << 16) + x))

    for i in names:
        r = rng.random()
        if r < 0.08 and i not in hosted:
            ops.append(["host", i])
            hosted.add(i)
        else:
            ops.append(["name", i])
        registered += 1
        r = rng.random()
        if r < 0.25:
            ops.append(["name", rng.choice(names)])          # may be a first lookup or a repeat
        elif r < 0.35:
            ops.append(["rev", subnet_addr(rng.randrange(0, nn + 3))])
        elif r < 0.42:
            ops.append(["re", rng.choice(REGEXES)])
        elif r < 0.47:
            lit = rng.choice([subnet_addr(rng.randrange(1, nn + 2)), "10.1.2.3", "127.0.0.1", "::1", "255.255.255.255"])
            ops.append([rng.choice(["lit", "litstr"]), lit])
    for _ in range(rng.randrange(3, 12)):
        r = rng.random()
        if r < 0.4:
            ops.append(["name", rng.choice(names)])
        elif r < 0.7:
            ops.append(["rev", subnet_addr(rng.randrange(0, nn + 3))])
        else:
            ops.append(["re", rng.choice(REGEXES)])
    return {"cfg": {"kind": "dns", "v6": v6}, "ops": ops, "flavour": "dns-random"}


def dns_repeat_cases():
    """Deterministic: a few names, then tens of thousands of lookups of KNOWN names (a
    lookup of a known name must not consume an address), then names introduced late,
    reverse lookups and regex lookups.  65 536 burnt addresses would wrap the IPv4 counter
    onto the addresses handed out first."""
    out = []
    for first, burn, late in ((10, [(3, 65530)], 16), (40, [(0, 30000), (39, 35600)], 12), (3, [(1, 65534), (2, 65536)], 8)):
        for v6 in (False, True):
            ops = [["name", i] for i in range(first)]
            for (i, n) in burn:
                ops.append(["lookup_many_times", i, n])
            for i in range(first, first + late):
                ops.append(["name", i])
            for x in range(0, first + late + 2):
                a = str(ipaddress.IPv6Address((0xfe80 << 112) + x)) if v6 else str(ipaddress.IPv4Address((192 << 24) + (168 << 16) + x))
                ops.append(["rev", a])
            ops += [["re", "^n"], ["name", 0], ["name", first], ["lookup_many_times", first + late - 1, 5]]
            out.append({"cfg": {"kind": "dns", "v6": v6}, "ops": ops, "flavour": "dns-repeat"})
    return out


def dns_bulk_case(v6, count, probes):
    return {"cfg": {"kind": "dns", "v6": v6}, "ops": [["bulk", 0, count, probes]], "flavour": "dns-bulk"}


def case_signature(case):
    return json.dumps([case["cfg"].get("kind"), case["cfg"].get("lo"), case["cfg"].get("hi"),
                       case.get("steps"), case.get("ops")], sort_keys=True)


def histogram(cases):
    h = {"cases": len(cases), "kinds": {}, "range_sizes": {}, "hosts": {}, "cmds": {}, "crashes": 0,
         "dns_ops": {}, "dns_names_max": 0, "v6": 0}
    for c in cases:
        cfg = c["cfg"]
        h["kinds"][c.get("flavour", cfg["kind"])] = h["kinds"].get(c.get("flavour", cfg["kind"]), 0) + 1
        h["v6"] += 1 if cfg.get("v6") else 0
        if cfg["kind"] == "dns":
            for op in c["ops"]:
                h["dns_ops"][op[0]] = h["dns_ops"].get(op[0], 0) + 1
            h["dns_names_max"] = max(h["dns_names_max"], len(dns_universe(c)))
            continue
        sz = str(cfg["hi"] - cfg["lo"] + 1)
        h["range_sizes"][sz] = h["range_sizes"].get(sz, 0) + 1
        h["hosts"][str(cfg["nhosts"])] = h["hosts"].get(str(cfg["nhosts"]), 0) + 1
        for st in c["steps"]:
            h["crashes"] += sum(1 for a in st.get("ctl", []) if a[0] == "crash")
            for cmds in st.get("hosts", {}).values():
                for cmd in cmds:
                    key = cmd[0] + (":0" if cmd[0].endswith("bind") and cmd[3] == 0 else "")
                    h["cmds"][key] = h["cmds"].get(key, 0) + 1
    return h
