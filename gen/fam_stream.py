"""Family `stream` (C02): scripts over ONE established turmoil::net TCP connection
(harness bin `stream`, interpreter harness/src/tcpfam.rs) and their rendering as
TV.Stream.Model events.

Stream ids: 1 = the connecting end (model side A), 2 = the accepted end (side B).
Regimes (cfg["mode"]):
  remote : two hosts; after the handshake the link is held and the controller
           matures chosen wire positions through Sim::links (`deliver`), or the
           link is healthy with zero latency (`flow` steps: everything sent
           matures at once);
  same   : one host connecting to its own address;
  loop   : one host connecting to 127.0.0.1 / ::1 (send_loopback path for both).
"""
import itertools
import json
import resource

# The model is evaluated by coqc (vm_compute) on lists of up to a few 10^5 bytes (large writes);
# list functions recurse as deep as the lists are long, so the child processes need a big stack.
try:
    _soft, _hard = resource.getrlimit(resource.RLIMIT_STACK)
    _want = 4 << 30
    if _hard != resource.RLIM_INFINITY:
        _want = min(_want, _hard)
    if _soft != resource.RLIM_INFINITY and _soft < _want:
        resource.setrlimit(resource.RLIMIT_STACK, (_want, _hard))
except (ValueError, OSError):
    pass

CLIENT_SID, SERVER_SID = 1, 2
PORT = 9000
ERR = {1: "WouldBlock", 2: "BrokenPipe", 3: "NotConnected", 4: "ConnectionReset"}
KIND = {1: "data", 2: "fin", 3: "rst"}


def coq_list(xs):
    return "[" + "; ".join(str(x) for x in xs) + "]"


def coq_bytes(bs):
    """an explicit byte list, a pattern {"pat": [s, len]}, or ("rest", spec, k): the pattern minus its first k bytes"""
    if isinstance(bs, tuple):
        _, spec, k = bs
        return "(skipn (N.to_nat %d%%N) %s)" % (k, coq_bytes(spec))
    if isinstance(bs, dict):
        return "(pat %d%%N %d%%N)" % (bs["pat"][0], bs["pat"][1])
    return "[" + "; ".join("%d%%N" % b for b in bs) + "]"


def expand(bs):
    """the bytes a data spec stands for"""
    if isinstance(bs, tuple):
        return expand(bs[1])[bs[2]:]
    if isinstance(bs, dict):
        s0, ln = bs["pat"]
        return [(s0 + i) % 251 for i in range(ln)]
    return list(bs)


def coq_nat(n):
    return str(n) if n < 1000 else "(N.to_nat %d%%N)" % n


def resolve_offers(case, obs):
    """(step, host, idx) -> data spec actually offered by a *_rest command (follows the counts the
    implementation returned)"""
    res = {(r[0], r[1], r[2]): r[3] for r in obs["res"]}
    offers, out = {}, {}
    for k, st in enumerate(case["steps"]):
        for h in sorted(int(x) for x in st.get("hosts", {})):
            for i, cmd in enumerate(st["hosts"][str(h)]):
                if cmd[0] == "offer":
                    offers[cmd[1]] = [cmd[2], 0]
                elif cmd[0] in ("try_write_rest", "write_rest") and cmd[1] in offers:
                    spec, off = offers[cmd[1]]
                    out[(k, h, i)] = ("rest", spec, off)
                    r = res.get((k, h, i))
                    if isinstance(r, list) and r[0] == "ok":
                        offers[cmd[1]][1] += r[1]
    return out


# ---- prologue ---------------------------------------------------------------

def prologue(cfg):
    """Steps that establish the connection; returns (steps, client host, server host)."""
    mode = cfg["mode"]
    if mode == "remote":
        c, s = cfg["client"], 1 - cfg["client"]
        dst = {"name": s} if cfg.get("by_name") else {"h": s}
        steps = [
            {"ctl": [], "hosts": {str(s): [["bind", 1, "unspec", PORT]]}},
            {"ctl": [], "hosts": {str(c): [["connect", CLIENT_SID, dst, PORT]], str(s): [["accept", 1, SERVER_SID]]}},
            {"ctl": [], "hosts": {str(c): [["poll", CLIENT_SID]], str(s): [["accept", 1, SERVER_SID]]}},
        ]
        return steps, c, s
    bind = "loop" if (mode == "loop" and cfg.get("bind_loop")) else "unspec"
    dst = "loop" if mode == "loop" else ({"name": 0} if cfg.get("by_name") else {"h": 0})
    steps = [
        {"ctl": [], "hosts": {"0": [["bind", 1, bind, PORT]]}},
        {"ctl": [], "hosts": {"0": [["connect", CLIENT_SID, dst, PORT]]}},
        {"ctl": [], "hosts": {}},
        {"ctl": [], "hosts": {"0": [["accept", 1, SERVER_SID], ["poll", CLIENT_SID]]}},
    ]
    return steps, 0, 0


def n_prologue(cfg):
    return 3 if cfg["mode"] == "remote" else 4


def build_case(cfg, body, flavour):
    pro, _, _ = prologue(cfg)
    return {"cfg": cfg, "steps": pro + body, "flavour": flavour}


# ---- model rendering ------------------------------------------------------------

class Halves:
    """Static tracking of which halves a script has dropped / split (mirrors the
    harness' StreamObj, not the implementation)."""

    def __init__(self):
        self.r = {CLIENT_SID: True, SERVER_SID: True}
        self.w = {CLIENT_SID: True, SERVER_SID: True}
        self.split = {CLIENT_SID: False, SERVER_SID: False}
        self.gone = {CLIENT_SID: False, SERVER_SID: False}     # removed from the harness table by "drop"


def side_of(sid):
    return "A" if sid == CLIENT_SID else "B"


def cmd_events(cmd, hv):
    """-> list of (coq event, expectation kind) for one host command.
    expectation kind: 'res' compare the encoded result, 'skip' nothing to compare,
    ('count', sides) compare a count against the sockets that exist."""
    name = cmd[0]
    if name in ("count", "count_on"):
        return [("View", ("count", cmd))]
    sid = cmd[1]
    x = side_of(sid)
    if name == "try_write":
        if not hv.w[sid]:
            return [("TryWrite %s %s" % (x, coq_bytes(cmd[2])), "res")]
        ev = "Write" if hv.split[sid] else "TryWrite"
        return [("%s %s %s" % (ev, x, coq_bytes(cmd[2])), "res")]
    if name == "write":
        return [("Write %s %s" % (x, coq_bytes(cmd[2])), "res")]
    if name == "write_bg":
        ok = hv.w[sid] and not hv.gone[sid]
        if ok:
            hv.split[sid] = True
        return [(None, "none" if ok else "invalid")]
    if name == "read":
        return [("Read %s %s" % (x, coq_nat(cmd[2])), "res")]
    if name == "peek":
        return [("Peek %s %s" % (x, coq_nat(cmd[2])), "res")]
    if name == "offer":
        return [(None, "none")]
    if name in ("try_write_rest", "write_rest"):
        data = cmd[2] if len(cmd) > 2 else None          # filled in by to_model
        if data is None:
            return [(None, "invalid")]
        ev = "Write" if (name == "write_rest" or hv.split[sid]) else "TryWrite"
        return [("%s %s %s" % (ev, x, coq_bytes(data)), "res")]
    if name == "shutdown":
        return [("Shutdown %s" % x, "res")]
    if name == "split":
        ok = hv.r[sid] and hv.w[sid] and not hv.split[sid]
        if ok:
            hv.split[sid] = True
        return [(None, "none" if ok else "invalid")]
    if name == "reunite":
        ok = hv.r[sid] and hv.w[sid] and hv.split[sid]
        if ok:
            hv.split[sid] = False
        return [(None, "none" if ok else "invalid")]
    if name == "drop":
        evs = []
        if hv.gone[sid]:
            return [(None, "invalid")]
        hv.gone[sid] = True
        if not (hv.r[sid] or hv.w[sid]):
            return [(None, "none")]
        if hv.r[sid]:
            evs.append(("DropR %s" % x, "skip"))
        if hv.w[sid]:
            evs.append(("DropW %s" % x, "skip"))
        hv.r[sid] = hv.w[sid] = False
        evs[-1] = (evs[-1][0], "none")
        return evs
    if name == "drop_r":
        hv.split[sid] = True
        had = hv.r[sid]
        hv.r[sid] = False
        return [("DropR %s" % x, "res")] if had else [(None, "invalid")]
    if name == "drop_w":
        hv.split[sid] = True
        had = hv.w[sid]
        hv.w[sid] = False
        return [("DropW %s" % x, "res")] if had else [(None, "invalid")]
    raise ValueError("unknown command %r" % (cmd,))


def to_model(case, obs):
    """-> (coq term, probes, problems); probes = (model output index | None, expectation, obs key)."""
    if case.get("flavour") == "hold-repair-release":
        return None, [], []                 # oracle-only flavour
    cfg = case["cfg"]
    mode = cfg["mode"]
    npro = n_prologue(cfg)
    problems = []
    res = {(r[0], r[1], r[2]): r[3] for r in obs["res"]}
    _, chost, shost = prologue(cfg)
    # the prologue must have established the connection
    ok_c = any(k[0] < npro and k[1] == chost and isinstance(v, list) and v[0] == "ok" and len(v) == 3
               for k, v in res.items())
    ok_s = any(k[0] < npro and k[1] == shost and isinstance(v, list) and v[0] == "ok" and len(v) == 4
               for k, v in res.items())
    if not (ok_c and ok_s):
        problems.append("prologue did not establish the connection: %s" % sorted(res.items())[:6])
    evs, probes = [], []
    hv = Halves()
    healthy = mode == "remote"          # until the first hold
    offered = resolve_offers(case, obs)
    wbg = {}                            # sid -> data of a write_all task that has not completed yet
    wdone = {b[2]: b[0] for b in obs.get("bg", [])}
    for k in range(npro, len(case["steps"])):
        st = case["steps"][k]
        if mode == "remote":
            ks = []
            for act in st["ctl"]:
                nm = act[0]
                if nm == "deliver":
                    ks.append(act[3])
                elif nm == "hold":
                    healthy = False
                    evs.append("Repair")
                elif nm == "release":
                    healthy = True
                    evs.append("Repair")
                    evs.append("MatureAll")
                elif nm == "partition":
                    evs.append("Partition")
                elif nm == "partition_oneway":
                    evs.append("PartitionOne %s" % ("A" if act[1] == chost else "B"))
                else:
                    problems.append("unsupported ctl action %s" % nm)
            if ks:
                evs.append("Mature %s" % coq_list(ks))
            order = [0, 1]
        else:
            order = [0]
        for h in order:
            if mode == "remote":
                evs.append("Drain %s" % ("A" if h == chost else "B"))
                if healthy:
                    evs.append("MatureAll")
            for i, cmd in enumerate(st.get("hosts", {}).get(str(h), [])):
                if cmd[0] in ("try_write_rest", "write_rest"):
                    cmd = [cmd[0], cmd[1], offered.get((k, h, i))]
                if cmd[0] == "write_bg" and hv.w[cmd[1]] and not hv.gone[cmd[1]]:
                    if mode != "remote":
                        problems.append("write_bg is only supported on remote pairs")
                    wbg[cmd[1]] = cmd[2]
                for ev, exp in cmd_events(cmd, hv):
                    if ev is None:
                        probes.append((None, exp, (k, h, i)))
                        continue
                    probes.append((len(evs), exp, (k, h, i)))
                    evs.append(ev)
                    if mode == "remote" and healthy:
                        evs.append("MatureAll")
            # tasks parked in write_all run after the interpreter yields (first poll) and whenever the
            # flow-control waker fires (a credit came back, or the connection was reset)
            for sid in sorted(wbg):
                if (chost if sid == CLIENT_SID else shost) != h:
                    continue
                kc = wdone.get(sid)
                if kc is not None and kc < k:
                    del wbg[sid]
                    continue
                probes.append((len(evs), "wbg", (k, sid)))
                evs.append("Write %s %s" % (side_of(sid), coq_bytes(wbg[sid])))
                if healthy:
                    evs.append("MatureAll")
                if kc == k:
                    del wbg[sid]
        if mode != "remote":
            evs.append("LoopStep")
        probes.append((len(evs), "post", k))
        evs.append("View")
    term = "run_enc %d %s [%s]" % (cfg["cap"], "false" if mode == "remote" else "true", "; ".join(evs))
    return term, probes, problems


def expect_from_model(m):
    tag, nums, lists = m
    if tag == 0:
        return "pending"
    if tag == 1:
        return ["ok", nums[0]]
    if tag == 2:
        return ["ok", list(nums)]
    if tag == 3:
        return ["ok"]
    if tag == 4:
        return ["err", ERR[nums[0]]]
    if tag == 5:
        return "none"
    if tag == 6:
        return "invalid"
    if tag == 8:
        return ("long", nums[0], nums[1])
    return ("view", nums, lists)


def digest(bs):
    a = 0
    for i, b in enumerate(bs):
        a = (a + (i + 1) * (b + 1)) % 1000003
    return a


def compare(case, obs, model, probes):
    if obs.get("panic"):
        return "implementation panicked: %s" % obs["panic"]
    if isinstance(model, tuple) and model and model[0] == "error":
        return "model evaluation failed: %s" % str(model[1])[-300:]
    cfg = case["cfg"]
    mode = cfg["mode"]
    _, chost, shost = prologue(cfg)
    res = {(r[0], r[1], r[2]): r[3] for r in obs["res"]}
    for idx, exp, key in probes:
        if exp == "wbg":
            k, sid = key
            done = [b for b in obs.get("bg", []) if b[2] == sid and b[0] == k]
            want = expect_from_model(model[idx])
            if not done:
                if want != "pending":
                    return "step %d: the task blocked in write_all on stream %d does not complete, model %s" % (k, sid, want)
            elif done[0][3] != want:
                return "step %d: write_all on stream %d completed with %s, model %s" % (k, sid, done[0][3], want)
            continue
        if exp == "post":
            tag, nums, lists = model[idx]
            links, counts = obs["post"][key]
            if mode == "remote":
                want = [["A" if p[0] == 0 else "B", KIND[p[1]], p[2], p[3]] for p in lists]
                got = []
                for a, b, msgs in links:
                    got.extend([["A" if m[0] == chost else "B", m[1], m[2], m[3]] for m in msgs])
                if want != got:
                    return "step %d: link holds %s, model wire %s" % (key, got, want)
                cnt = [counts[chost][1], counts[shost][1]]
                if cnt != [nums[0], nums[1]]:
                    return "step %d: stream table sizes (client, server) %s, model %s" % (key, cnt, nums)
            else:
                if counts[0][1] != nums[0] + nums[1]:
                    return "step %d: stream table size %d, model %d" % (key, counts[0][1], nums[0] + nums[1])
            continue
        got = res.get(key)
        if got is None:
            return "no result recorded for command %s" % (key,)
        if idx is None:
            if got != exp:
                return "command %s: implementation %s, expected %s" % (key, got, exp)
            continue
        if exp == "skip":
            continue
        if idx >= len(model):
            return "model produced too few outputs"
        if isinstance(exp, tuple) and exp[0] == "count":
            tag, nums, _ = model[idx]
            cmd = exp[1]
            if mode == "remote":
                host = key[1] if cmd[0] == "count" else cmd[1]
                want = nums[0] if host == chost else nums[1]
            else:
                want = nums[0] + nums[1]
            if got != ["ok", want]:
                return "command %s (%s): implementation %s, model %s" % (key, cmd[0], got, want)
            continue
        want = expect_from_model(model[idx]) if exp == "res" else exp
        if exp == "none":
            want = "none"
        if isinstance(want, tuple) and want[0] == "long":
            if not (isinstance(got, list) and got[0] == "ok" and len(got) == 2 and isinstance(got[1], list)
                    and len(got[1]) == want[1] and digest(got[1]) == want[2]):
                desc = ("%d bytes, digest %d" % (len(got[1]), digest(got[1]))) if isinstance(got, list) and len(got) == 2 and isinstance(got[1], list) else got
                return "command %s: implementation read %s, model %d bytes, digest %d" % (key, desc, want[1], want[2])
            continue
        if got != want:
            return "command %s: implementation %s, model %s" % (key, got, want)
    return None


# ---- generators ---------------------------------------------------------------------

class Bytes:
    def __init__(self):
        self.n = 0

    def take(self, k):
        out = [(self.n + i) % 251 for i in range(k)]
        self.n += k
        return out


def base_cfg(rng, mode=None, cap=None):
    mode = mode or rng.choice(["remote", "remote", "remote", "same", "loop"])
    return {
        "nhosts": 2 if mode == "remote" else 1,
        "cap": cap or rng.choice([1, 2, 2, 3, 4]),
        "v6": rng.random() < 0.3,
        "tick_ms": rng.choice([1, 1, 2, 5]),
        "mode": mode,
        "client": rng.choice([0, 1]) if mode == "remote" else 0,
        "by_name": rng.random() < 0.3,
        "bind_loop": rng.random() < 0.5,
        "seed": rng.randrange(1 << 30),
    }


def hosts_of(cfg):
    _, c, s = prologue(cfg)
    return c, s


def rand_op(rng, sid, by, weights=None):
    r = rng.random()
    if r < 0.30:
        return ["try_write", sid, by.take(rng.choice([1, 1, 2, 3, 5]))]
    if r < 0.36:
        return ["write", sid, by.take(rng.choice([1, 2, 4]))]
    if r < 0.38:
        return ["try_write", sid, []]
    if r < 0.70:
        return ["read", sid, rng.choice([0, 1, 1, 2, 3, 64])]
    if r < 0.82:
        return ["peek", sid, rng.choice([0, 1, 2, 64])]
    if r < 0.87:
        return ["shutdown", sid]
    if r < 0.90:
        return ["split", sid]
    if r < 0.92:
        return ["reunite", sid]
    if r < 0.94:
        return ["drop_w", sid]
    if r < 0.96:
        return ["drop_r", sid]
    if r < 0.97:
        return ["drop", sid]
    return ["count"]


def gen_random(rng, mode=None):
    """Anything goes: both directions, drops, partitions, arbitrary delivery order."""
    cfg = base_cfg(rng, mode)
    c, s = hosts_of(cfg)
    by = Bytes()
    body = []
    est = 0
    held = False
    nsteps = rng.randrange(6, 16)
    for k in range(nsteps):
        ctl = []
        if cfg["mode"] == "remote":
            if not held and (k == 0 and rng.random() < 0.85 or rng.random() < 0.3):
                ctl.append(["hold", c, s])
                held = True
            elif held and rng.random() < 0.08:
                ctl.append(["release", c, s])
                held = False
            if held and rng.random() < 0.08:
                ctl.append(rng.choice([["partition", c, s], ["partition_oneway", c, s], ["partition_oneway", s, c]]))
                if rng.random() < 0.7:
                    ctl.append(["hold", c, s])
            if held:
                for _ in range(rng.choice([0, 1, 1, 2, 3])):
                    ctl.append(["deliver", c, s, rng.randrange(0, max(1, min(est, 6)) + 1)])
        hosts = {}
        for h, sid in ((c, CLIENT_SID), (s, SERVER_SID)):
            cmds = hosts.setdefault(str(h), [])
            for _ in range(rng.choice([0, 1, 2, 3, 4])):
                op = rand_op(rng, sid, by)
                cmds.append(op)
                if op[0] in ("try_write", "write", "shutdown", "drop", "drop_w", "drop_r"):
                    est += 1
        body.append({"ctl": ctl, "hosts": hosts})
    if cfg["mode"] == "remote" and rng.random() < 0.5:
        # epilogue: release (heals holds and explicit partitions alike), then quiet steps in which both sides read:
        # nothing may stay on the released link
        pre = []
        if held and rng.random() < 0.6:
            # what was parked under the hold stays parked under an explicit partition of the same link; release frees it
            pre = [rng.choice([["partition", c, s], ["partition_oneway", c, s], ["partition_oneway", s, c]])]
        body.append({"ctl": pre + [["release", c, s]], "hosts": {}})
        for _ in range(6):
            body.append({"ctl": [], "hosts": {str(c): [["read", CLIENT_SID, 4]], str(s): [["read", SERVER_SID, 4]]}})
    return build_case(cfg, body, "random-" + cfg["mode"])


def gen_hold_repair_release(rng):
    """Oracle-only flavour (no model rendering: `repair` of a held link is outside the Stream model's link alphabet):
    hold, a write parked under the hold, repair / repair_oneway of the held link (new segments flow again, the parked
    one stays parked), more writes and the shutdown, release, then quiet steps in which the reader reads.  After the
    release the link is healthy, so everything written and then end-of-file must arrive and nothing may stay on the
    link (seed C02-A8)."""
    cfg = base_cfg(rng, "remote", cap=4)
    c, s = hosts_of(cfg)
    by = Bytes()
    wh, wsid, rh, rsid = rng.choice([(c, CLIENT_SID, s, SERVER_SID), (s, SERVER_SID, c, CLIENT_SID)])
    rep = rng.choice([["repair", c, s], ["repair", s, c], ["repair_oneway", wh, rh], ["repair_oneway", rh, wh]])
    body = [{"ctl": [["hold", c, s]], "hosts": {str(wh): [["try_write", wsid, by.take(rng.choice([1, 3]))]]}}]
    if rng.random() < 0.5:
        body.append({"ctl": [], "hosts": {str(wh): [["try_write", wsid, by.take(2)]]}})
    body.append({"ctl": [rep], "hosts": {str(wh): [["try_write", wsid, by.take(2)]]}})
    body.append({"ctl": [], "hosts": {str(wh): [["shutdown", wsid]], str(rh): [["read", rsid, 64]]}})
    body.append({"ctl": [["release", c, s]], "hosts": {}})
    for _ in range(9):
        body.append({"ctl": [], "hosts": {str(rh): [["read", rsid, 64], ["read", rsid, 64]]}})
    return build_case(cfg, body, "hold-repair-release")


def gen_complete(rng, mode=None, abortless=True):
    """Graceful scripts: one or both directions transfer data with random
    chunking, capacity pressure and delivery order; nothing is lost; the writer
    shuts down or drops its write half; then everything is delivered and the
    reader reads until EOF.  The completeness half of C02 applies to these."""
    cfg = base_cfg(rng, mode)
    c, s = hosts_of(cfg)
    remote = cfg["mode"] == "remote"
    by = Bytes()
    body = []
    dirs = rng.choice([[(c, CLIENT_SID, s, SERVER_SID)], [(s, SERVER_SID, c, CLIENT_SID)],
                       [(c, CLIENT_SID, s, SERVER_SID), (s, SERVER_SID, c, CLIENT_SID)]])
    held = remote and rng.random() < 0.8
    first_ctl = [["hold", c, s]] if held else []
    nseg = {d[1]: rng.randrange(1, 8) for d in dirs}
    closed = {d[1]: False for d in dirs}
    split_done = set()
    k = 0
    while any(not v for v in closed.values()) and k < 40:
        ctl = first_ctl if k == 0 else []
        if held:
            ctl = list(ctl)
            for _ in range(rng.choice([0, 1, 1, 2])):
                ctl.append(["deliver", c, s, rng.randrange(0, 6)])
        hosts = {}
        for (wh, wsid, rh, rsid) in dirs:
            wc = hosts.setdefault(str(wh), [])
            rc = hosts.setdefault(str(rh), [])
            if rng.random() < 0.08 and wsid not in split_done:
                wc.append(["split", wsid])
                split_done.add(wsid)
            for _ in range(rng.choice([0, 1, 2, 3])):
                if nseg[wsid] > 0:
                    wc.append([rng.choice(["try_write", "try_write", "write"]), wsid, by.take(rng.choice([1, 2, 3, 6]))])
                    nseg[wsid] -= 1
                elif not closed[wsid]:
                    wc.append([rng.choice(["shutdown", "shutdown", "drop_w"]), wsid])
                    closed[wsid] = True
            for _ in range(rng.choice([0, 0, 1, 2])):
                rc.append(rng.choice([["read", rsid, rng.choice([1, 2, 3, 64])], ["peek", rsid, rng.choice([1, 2, 64])],
                                      ["read", rsid, 0]]))
        body.append({"ctl": ctl, "hosts": hosts})
        k += 1
    # tail: deliver everything, read to EOF
    rn = rng.choice([1, 2, 3, 64])
    for t in range(rng.randrange(14, 20)):
        ctl = [["deliver", c, s, 0]] if held else []
        if held and rng.random() < 0.5:
            ctl.append(["deliver", c, s, rng.randrange(0, 4)])
        hosts = {}
        for (wh, wsid, rh, rsid) in dirs:
            hosts.setdefault(str(rh), []).extend([["read", rsid, rn]] * rng.choice([1, 2, 3]))
        body.append({"ctl": ctl, "hosts": hosts})
    for t in range(12):     # quiet steps with reads only: everything is delivered by now
        hosts = {}
        for (wh, wsid, rh, rsid) in dirs:
            hosts.setdefault(str(rh), []).extend([["read", rsid, rn]] * 3)
        body.append({"ctl": [["deliver", c, s, 0]] if held else [], "hosts": hosts})
    return build_case(cfg, body, "complete-" + cfg["mode"])


def gen_reqresp(rng, mode=None):
    """Framed request / response: the requester writes a request and shuts down (or keeps its
    write half), the responder reads exactly the request bytes (often without reading the EOF
    that follows), answers, and drops the stream; the requester reads the answer to EOF.
    Peeks before reads, capacity pressure and random delivery order as elsewhere."""
    cfg = base_cfg(rng, mode)
    c, s = hosts_of(cfg)
    remote = cfg["mode"] == "remote"
    by = Bytes()
    held = remote and rng.random() < 0.85
    body = []
    req_host, req_sid, rsp_host, rsp_sid = (c, CLIENT_SID, s, SERVER_SID) if rng.random() < 0.6 else (s, SERVER_SID, c, CLIENT_SID)
    nreq = rng.randrange(1, min(cfg["cap"], 3) + 1)
    req = [by.take(rng.choice([1, 2, 3])) for _ in range(nreq)]
    total = sum(len(x) for x in req)
    st = {"ctl": [["hold", c, s]] if held else [], "hosts": {}}
    st["hosts"][str(req_host)] = [["try_write", req_sid, x] for x in req]
    if rng.random() < 0.8:
        st["hosts"][str(req_host)].append(["shutdown", req_sid])
    body.append(st)
    # deliver the request (and its FIN) in some order
    for _ in range(nreq + 2):
        body.append({"ctl": [["deliver", c, s, rng.choice([0, 0, 1])]] if held else [], "hosts": {}})
    # the responder reads exactly the request: reads sized so that EOF is usually not consumed
    rd = []
    left = total
    while left > 0:
        n = rng.choice([1, 2, left, left])
        n = min(n, left)
        if rng.random() < 0.3:
            rd.append(["peek", rsp_sid, rng.choice([1, 64])])
        rd.append(["read", rsp_sid, n])
        left -= n
    if rng.random() < 0.25:
        rd.append(["read", rsp_sid, 8])          # sometimes the EOF is read as well
    body.append({"ctl": [], "hosts": {str(rsp_host): rd}})
    nrsp = rng.randrange(1, min(cfg["cap"], 3) + 1)
    ans = [["try_write", rsp_sid, by.take(rng.choice([1, 2, 4]))] for _ in range(nrsp)]
    closing = rng.choice([["drop", rsp_sid], ["drop", rsp_sid], ["shutdown", rsp_sid], ["drop_r", rsp_sid]])
    body.append({"ctl": [], "hosts": {str(rsp_host): ans + [closing]}})
    rn = rng.choice([1, 3, 64])
    for t in range(nrsp + 6):
        ctl = [["deliver", c, s, rng.choice([0, 0, 1])]] if held else []
        body.append({"ctl": ctl, "hosts": {str(req_host): [["read", req_sid, rn]] * rng.choice([1, 2])}})
    for t in range(8):
        body.append({"ctl": [["deliver", c, s, 0]] if held else [], "hosts": {str(req_host): [["read", req_sid, rn]] * 2}})
    return build_case(cfg, body, "reqresp-" + cfg["mode"])


def gen_halfclose(rng, mode=None):
    """Owned split and half-close: one side splits, writes, shuts its write half down and then
    drops that half (or only shuts down / only drops); the peer keeps writing afterwards and
    finally shuts down; the first side's read half keeps reading to EOF."""
    cfg = base_cfg(rng, mode)
    c, s = hosts_of(cfg)
    remote = cfg["mode"] == "remote"
    by = Bytes()
    held = remote and rng.random() < 0.7
    x_host, x_sid, y_host, y_sid = (c, CLIENT_SID, s, SERVER_SID) if rng.random() < 0.5 else (s, SERVER_SID, c, CLIENT_SID)
    body = []
    xs = []
    if rng.random() < 0.8:
        xs.append(["split", x_sid])
    for _ in range(rng.choice([0, 1, 2])):
        xs.append(["try_write", x_sid, by.take(rng.choice([1, 2, 3]))])
    closing = rng.choice([["shutdown", "drop_w"], ["shutdown", "drop_w"], ["shutdown"], ["drop_w"]])
    xs.append([closing[0], x_sid])
    body.append({"ctl": [["hold", c, s]] if held else [], "hosts": {str(x_host): xs}})
    t_second = rng.choice([1, 2, 3])
    rn = rng.choice([1, 3, 64])
    nw = rng.randrange(2, 6)
    for t in range(1, nw + 3):
        hosts = {}
        if t == t_second and len(closing) > 1:
            hosts.setdefault(str(x_host), []).append([closing[1], x_sid])
        if t <= nw:
            hosts.setdefault(str(y_host), []).append(["try_write", y_sid, by.take(rng.choice([1, 2, 4]))])
            if rng.random() < 0.4:
                hosts[str(y_host)].append(["read", y_sid, rn])
        elif t == nw + 1:
            hosts.setdefault(str(y_host), []).append(rng.choice([["shutdown", y_sid], ["drop_w", y_sid]]))
        if rng.random() < 0.6:
            hosts.setdefault(str(x_host), []).append(rng.choice([["read", x_sid, rn], ["peek", x_sid, 64]]))
        ctl = [["deliver", c, s, rng.choice([0, 0, 1])] for _ in range(rng.choice([0, 1, 2]))] if held else []
        body.append({"ctl": ctl, "hosts": hosts})
    for t in range(nw + 8):
        ctl = [["deliver", c, s, 0]] if held else []
        body.append({"ctl": ctl, "hosts": {str(x_host): [["read", x_sid, rn]] * 2, str(y_host): [["read", y_sid, 64]]}})
    for t in range(8):
        body.append({"ctl": [["deliver", c, s, 0]] if held else [],
                     "hosts": {str(x_host): [["read", x_sid, rn]] * 2, str(y_host): [["read", y_sid, 64]]}})
    return build_case(cfg, body, "halfclose-" + cfg["mode"])


def gen_eof_then_drop(rng, mode=None):
    """Request, the requester half-closes; the responder reads to EOF, writes its response and finishes
    its own direction by DROPPING (not shutdown): the whole stream, or the OwnedReadHalf first and the
    OwnedWriteHalf later (with or without a write in between).  The requester keeps reading: the
    response and then EOF must arrive."""
    cfg = base_cfg(rng, mode)
    c, s = hosts_of(cfg)
    remote = cfg["mode"] == "remote"
    by = Bytes()
    held = remote and rng.random() < 0.6
    x_host, x_sid, y_host, y_sid = (c, CLIENT_SID, s, SERVER_SID) if rng.random() < 0.6 else (s, SERVER_SID, c, CLIENT_SID)
    cap = cfg["cap"]
    rn = rng.choice([1, 3, 64])
    xs = []
    if rng.random() < 0.4:
        xs.append(["split", x_sid])
    for _ in range(rng.randrange(1, cap + 1)):
        xs.append(["try_write", x_sid, by.take(rng.choice([1, 2, 5]))])
    xs.append(["shutdown", x_sid])
    how = rng.choice(["drop", "drop", "r-then-w", "r-then-w", "r-write-w", "w-then-r"])
    ys = [["split", y_sid]] if how != "drop" or rng.random() < 0.3 else []
    body = [{"ctl": [["hold", c, s]] if held else [], "hosts": {str(x_host): xs, str(y_host): ys}}]

    def ctl():
        return [["deliver", c, s, 0]] if held else []
    # the responder reads the request up to and including EOF
    for t in range(cap + 4):
        body.append({"ctl": ctl(), "hosts": {str(y_host): [["read", y_sid, 64], ["read", y_sid, 64]]}})
    # response, then the responder is done: it drops
    resp = [["try_write", y_sid, by.take(rng.choice([1, 3, 6]))] for _ in range(rng.randrange(1, cap + 1))]
    if how == "drop":
        body.append({"ctl": ctl(), "hosts": {str(y_host): resp}})
        body.append({"ctl": ctl(), "hosts": {str(y_host): [["drop", y_sid]]}} if rng.random() < 0.5 else
                    {"ctl": ctl(), "hosts": {}})
        if body[-1]["hosts"] == {}:
            body[-2]["hosts"][str(y_host)].append(["drop", y_sid])
    elif how == "r-then-w":
        body.append({"ctl": ctl(), "hosts": {str(y_host): resp + [["drop_r", y_sid]]}})
        body.append({"ctl": ctl(), "hosts": {str(y_host): [["drop_w", y_sid]]}})
    elif how == "r-write-w":
        body.append({"ctl": ctl(), "hosts": {str(y_host): [["drop_r", y_sid]] + resp[:1]}})
        body.append({"ctl": ctl(), "hosts": {str(y_host): resp[1:] + [["drop_w", y_sid]]}})
    else:
        body.append({"ctl": ctl(), "hosts": {str(y_host): resp + [["drop_w", y_sid]]}})
        body.append({"ctl": ctl(), "hosts": {str(y_host): [["drop_r", y_sid]]}})
    # the requester reads the response to EOF
    for t in range(2 * cap + 10):
        body.append({"ctl": ctl(), "hosts": {str(x_host): [["read", x_sid, rn]] * 2}})
    return build_case(cfg, body, "eofdrop-%s-%s" % (how, cfg["mode"]))


def gen_blocked_writer(rng):
    """A task awaits write_all with the peer's window full (tcp_capacity unread segments); then the
    peer reads (credits come back), or the connection is reset: the peer drops its stream / its read
    half with the data unread, or the writer's own read half is dropped with unread inbound data.
    The blocked write must complete (ok or error) within a few steps."""
    cfg = base_cfg(rng, "remote")
    c, s = hosts_of(cfg)
    by = Bytes()
    held = rng.random() < 0.7
    w_host, w_sid, r_host, r_sid = (c, CLIENT_SID, s, SERVER_SID) if rng.random() < 0.5 else (s, SERVER_SID, c, CLIENT_SID)
    cap = cfg["cap"]
    body = []
    wc = [["try_write", w_sid, by.take(rng.choice([1, 2]))] for _ in range(cap)]
    how = rng.choice(["peer_drop", "peer_drop", "peer_drop_r", "peer_reads", "own_reset", "peer_drop_undelivered"])
    rc0 = []
    if how == "own_reset":
        rc0 = [["try_write", r_sid, by.take(2)]]
    body.append({"ctl": [["hold", c, s]] if held else [], "hosts": {str(w_host): wc, str(r_host): rc0}})
    if how != "peer_drop_undelivered":
        for _ in range(cap + 1):
            body.append({"ctl": [["deliver", c, s, 0]] if held else [], "hosts": {}})
    body.append({"ctl": [], "hosts": {str(w_host): [["write_bg", w_sid, by.take(rng.choice([1, 3]))]]}})
    body.append({"ctl": [], "hosts": {}})
    if how in ("peer_drop", "peer_drop_undelivered"):
        act = {str(r_host): [["drop", r_sid]]}
    elif how == "peer_drop_r":
        act = {str(r_host): [["drop_r", r_sid]]}
    elif how == "peer_reads":
        act = {str(r_host): [["read", r_sid, 64], ["read", r_sid, 64]]}
    else:
        act = {str(w_host): [["drop_r", w_sid]]}
    body.append({"ctl": [], "hosts": act})
    for t in range(8):
        hosts = {}
        if how == "peer_reads" and t < 3:
            hosts[str(r_host)] = [["read", r_sid, 64]]
        body.append({"ctl": [["deliver", c, s, 0]] if held else [], "hosts": hosts})
    body.append({"ctl": [], "hosts": {str(w_host): [["count"]], str(r_host): [["count"]]}})
    return build_case(cfg, body, "blocked-writer")


def gen_large(rng, mode=None):
    """Single writes larger than 64 KiB (up to a few hundred KiB) under a small tcp_capacity or a
    window that earlier small writes have mostly filled: through write_all (a task), through a
    try_write / poll_write loop that advances by the returned count, and as one plain try_write;
    the reader drains with 64 KiB .. 100 KB buffers to EOF."""
    cfg = base_cfg(rng, mode or rng.choice(["remote", "remote", "remote", "loop", "same"]))
    cfg["cap"] = rng.choice([1, 2, 2, 3, 4])
    c, s = hosts_of(cfg)
    remote = cfg["mode"] == "remote"
    held = remote and rng.random() < 0.6
    w_host, w_sid, r_host, r_sid = (c, CLIENT_SID, s, SERVER_SID) if rng.random() < 0.5 else (s, SERVER_SID, c, CLIENT_SID)
    size = rng.choice([65537, 70000, 131073, 140000, 200000])
    spec = {"pat": [rng.randrange(251), size]}
    how = rng.choice(["write_all", "rest", "rest", "plain"]) if remote else rng.choice(["rest", "rest", "plain"])
    cap = cfg["cap"]
    nsmall = rng.choice([0, 0, max(0, cap - 1), cap])
    by = Bytes()
    wc = [["try_write", w_sid, by.take(rng.choice([1, 2]))] for _ in range(nsmall)]
    if how == "write_all":
        wc.append(["write_bg", w_sid, spec])
    elif how == "plain":
        wc.append(["try_write", w_sid, spec])
    else:
        wc.append(["offer", w_sid, spec])
        wc.append([rng.choice(["try_write_rest", "write_rest"]), w_sid])
    body = [{"ctl": [["hold", c, s]] if held else [], "hosts": {str(w_host): wc}}]
    rn = rng.choice([65536, 100000, 100000])
    for t in range(rng.randrange(10, 14)):
        hosts = {str(r_host): [["read", r_sid, rn]] * rng.choice([1, 2])}
        if how == "rest":
            hosts[str(w_host)] = [[rng.choice(["try_write_rest", "write_rest"]), w_sid]] * rng.choice([1, 2])
        body.append({"ctl": [["deliver", c, s, 0]] if held else [], "hosts": hosts})
    body.append({"ctl": [["deliver", c, s, 0]] if held else [], "hosts": {str(w_host): [["shutdown", w_sid]]}})
    for t in range(8):
        body.append({"ctl": [["deliver", c, s, 0]] if held else [], "hosts": {str(r_host): [["read", r_sid, rn]] * 2}})
    for t in range(6):
        body.append({"ctl": [["deliver", c, s, 0]] if held else [], "hosts": {str(r_host): [["read", r_sid, rn]]}})
    return build_case(cfg, body, "large-" + cfg["mode"])


def gen_parked(rng, mode=None):
    """The writer fills the receiver's channel (tcp_capacity unread data segments) and closes;
    everything is delivered while the reader is idle, so the FIN is parked in the reorder
    buffer; then the reader drains with a pattern of peeks and reads (peek-then-read only,
    reads only, mixed, various buffer sizes) until well past EOF."""
    cfg = base_cfg(rng, mode)
    c, s = hosts_of(cfg)
    remote = cfg["mode"] == "remote"
    by = Bytes()
    held = remote and rng.random() < 0.85
    w_host, w_sid, r_host, r_sid = (c, CLIENT_SID, s, SERVER_SID) if rng.random() < 0.5 else (s, SERVER_SID, c, CLIENT_SID)
    cap = cfg["cap"]
    nseg = rng.choice([cap, cap, cap, max(1, cap - 1), cap + 1])
    wc = [[rng.choice(["try_write", "try_write", "write"]), w_sid, by.take(rng.choice([1, 2, 3]))] for _ in range(nseg)]
    wc.append(rng.choice([["shutdown", w_sid], ["shutdown", w_sid], ["drop_w", w_sid]]))
    body = [{"ctl": [["hold", c, s]] if held else [], "hosts": {str(w_host): wc}}]
    if rng.random() < 0.2:      # the reader takes a little before the rest arrives
        body.append({"ctl": [["deliver", c, s, 0]] if held else [], "hosts": {}})
        body.append({"ctl": [], "hosts": {str(r_host): [rng.choice([["peek", r_sid, 1], ["read", r_sid, 1]])]}})
    order = list(range(nseg + 1))
    rng.shuffle(order)
    remaining = list(range(nseg + 1))
    for p in order:
        idx = remaining.index(p)
        remaining.remove(p)
        body.append({"ctl": [["deliver", c, s, idx]] if held else [], "hosts": {}})
    body.append({"ctl": [], "hosts": {}})
    pat = rng.choice(["peekread", "peekread", "peekread1", "reads", "mixed", "mixed"])
    big = rng.choice([64, 64, 3])
    for t in range(2 * nseg + 8):
        if pat == "peekread":
            ops = [["peek", r_sid, rng.choice([1, 64])], ["read", r_sid, big]]
        elif pat == "peekread1":
            ops = [["peek", r_sid, 1], ["read", r_sid, 1], ["read", r_sid, 64]]
        elif pat == "reads":
            ops = [["read", r_sid, rng.choice([1, big])]]
        else:
            ops = [rng.choice([["peek", r_sid, 1], ["peek", r_sid, 64], ["read", r_sid, 1], ["read", r_sid, 64],
                               ["read", r_sid, 0]]) for _ in range(rng.choice([1, 2, 3]))]
        extra = {}
        if t == 1 and nseg > cap:           # the writer retries what was refused
            extra[str(w_host)] = [["try_write", w_sid, by.take(1)]]
        hosts = {str(r_host): ops}
        hosts.update(extra)
        body.append({"ctl": [["deliver", c, s, 0]] if held else [], "hosts": hosts})
    return build_case(cfg, body, "parked-" + cfg["mode"])


def perm_case(cap, nseg, perm, reads_between, client=0, rn=64, v6=False):
    """Writer sends nseg-1 data segments and a FIN in one step (capacity
    permitting); the held link delivers them in the order `perm`; the reader
    polls `reads_between` times after each delivery and then to EOF."""
    cfg = {"nhosts": 2, "cap": cap, "v6": v6, "tick_ms": 1, "mode": "remote", "client": client,
           "by_name": False, "bind_loop": False, "seed": 1}
    c, s = hosts_of(cfg)
    by = Bytes()
    wc = [["try_write", CLIENT_SID, by.take(1 + (i % 3))] for i in range(nseg - 1)] + [["shutdown", CLIENT_SID]]
    body = [{"ctl": [["hold", c, s]], "hosts": {str(c): wc}}]
    remaining = list(range(nseg))
    for p in perm:
        idx = remaining.index(p)
        remaining.remove(p)
        body.append({"ctl": [["deliver", c, s, idx]], "hosts": {str(s): [["read", SERVER_SID, rn]] * reads_between}})
    for _ in range(nseg + 2):
        body.append({"ctl": [], "hosts": {str(s): [["read", SERVER_SID, rn]] * 2}})
    return build_case(cfg, body, "perm")


def exhaustive_perms(max_seg, caps=(1, 2, 3, 4)):
    out = []
    for nseg in range(2, max_seg + 1):
        for cap in caps:
            if cap < nseg - 1 and cap != 1:
                continue        # the writer would block: covered by cap 1 and by the random family
            n_eff = min(nseg, cap + 1) if cap < nseg - 1 else nseg
            for perm in itertools.permutations(range(n_eff)):
                for rb in (0, 1):
                    out.append(perm_case(cap, n_eff, perm, rb, client=(len(out) % 2), rn=(64 if len(out) % 3 else 1)))
    # de-duplicate identical scripts
    seen, res = set(), []
    for c in out:
        k = json.dumps([c["cfg"], c["steps"]], sort_keys=True)
        if k not in seen:
            seen.add(k)
            res.append(c)
    return res


def case_signature(case):
    return json.dumps([case["cfg"]["mode"], case["cfg"]["cap"], case["steps"]], sort_keys=True)


def histogram(cases):
    h = {"cases": len(cases), "flavour": {}, "mode": {}, "cap": {}, "v6": 0, "cmds": {}, "ctl": {}, "steps": 0,
         "read_sizes": {}}
    for c in cases:
        for key, v in (("flavour", c.get("flavour", "corpus")), ("mode", c["cfg"]["mode"]), ("cap", str(c["cfg"]["cap"]))):
            h[key][v] = h[key].get(v, 0) + 1
        h["v6"] += 1 if c["cfg"].get("v6") else 0
        h["steps"] += len(c["steps"])
        for st in c["steps"]:
            for a in st["ctl"]:
                h["ctl"][a[0]] = h["ctl"].get(a[0], 0) + 1
            for cmds in st.get("hosts", {}).values():
                for cmd in cmds:
                    h["cmds"][cmd[0]] = h["cmds"].get(cmd[0], 0) + 1
                    if cmd[0] in ("read", "peek"):
                        k = str(cmd[2]) if cmd[2] < 2 else ("k" if cmd[2] < 64 else "big")
                        h["read_sizes"][k] = h["read_sizes"].get(k, 0) + 1
    return h
