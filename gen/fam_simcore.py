"""Family `simcore`: scripts for the real Sim (harness bin `simcore`) made of
timer-only software, and their rendering as TV.SimCore.Model events with
TV.SimCore.TokioClock scripts.  Serves C05, C11 and the scheduling part of C04."""
import json
import re

MS = 1000000
TICKER = 999

HEADER = ("From TV.Lib Require Import Base.\nFrom TV.SimCore Require Import Model TokioClock.\n"
          "Open Scope N_scope.\n")


# ---- helpers -----------------------------------------------------------------

def cms(x):
    return ((x + MS - 1) // MS) * MS


def mk_tag(task, op, aux):
    return (task * 1000 + op) * 4 + aux


def sel_hosts(s, names_n):
    """Indices selected by a selector among the first names_n registered names."""
    if "h" in s:
        return [s["h"]]
    if "ip" in s:
        return [s["ip"]]
    rx = re.compile(s["re"])
    return [i for i in range(names_n) if rx.search("n%d" % i)]


def coq_list(xs):
    return "[" + "; ".join(xs) + "]"


def coq_nat_list(xs):
    return "[" + "; ".join("%d%%nat" % x for x in xs) + "]"


def coq_op(op):
    k = op[0]
    if k == "sleep":
        return "Sleep %d" % op[1]
    if k == "obs":
        return "Obs"
    if k == "timeout":
        return "Timeout %d %d" % (op[1], op[2])
    if k == "interval":
        return "Interval %d %d%%nat" % (op[1], op[2])
    raise ValueError(op)


END = {"ok": "Ok_", "err": "Err_", "err_io": "Err_", "err_cancelled": "Err_", "err_joinpanic": "Err_",
       "panic": "Panic_", "never": "Pend"}
ERR_KINDS = ["err", "err_io", "err_cancelled", "err_joinpanic"]


def is_err(end):
    return end.startswith("err")


def epoch_of(cfg):
    """The configured epoch in ns since UNIX_EPOCH."""
    return cfg["epoch_ns"] if "epoch_ns" in cfg else cfg.get("epoch_ms", 1000000) * MS


EPOCHS = [0, 1, 999, 1000, 999999, 1000001, 123456789, 5 * MS, 1700000000123 * MS,
          1700000000 * 1000 * MS + 123456789, 1700000000 * 1000 * MS + 999999999,
          4000000000 * 1000 * MS + 1, 946684800 * 1000 * MS + 500]


def rand_epoch(rng):
    r = rng.random()
    if r < 0.6:
        return rng.choice(EPOCHS)
    if r < 0.8:
        return rng.randrange(0, 4 * 10 ** 18)
    return rng.randrange(0, 10 ** 6) * MS + rng.randrange(1, MS)


def coq_script(p):
    tasks = []
    for t in p.get("tasks", []):
        # a task that ends "ok" or "never" is the same for the core: it does not panic
        tasks.append("{| t_ops := %s; t_panics := %s |}" % (
            coq_list([coq_op(o) for o in t["ops"]]), "true" if t.get("end") == "panic" else "false"))
    return "{| s_main := %s; s_end := %s; s_tasks := %s; s_ticker := %s |}" % (
        coq_list([coq_op(o) for o in p["main"]]), END[p.get("end", "ok")], coq_list(tasks),
        "true" if p.get("ticker") else "false")


def to_model(case, obs):
    """-> (coq term, probes, problems).  probes[k] = kind of the k-th model event."""
    cfg = case["cfg"]
    tick = cfg["tick_ns"]
    evs, probes, problems = [], [], []
    nreg = 0
    iobs = obs.get("evs", [])
    for k, ev in enumerate(case["script"]):
        if k >= len(iobs):
            break          # the implementation stopped (panic) before this event
        o = iobs[k]
        name = ev[0]
        if name == "client":
            evs.append("AddClient (sw_of_script %d %s)" % (tick, coq_script(ev[1])))
            nreg += 1
        elif name == "host":
            scs = [coq_script(p) for p in ev[1]]
            evs.append("AddHost (host_sw %d %s %s)" % (tick, coq_list(scs), scs[-1]))
            nreg += 1
        elif name == "step":
            orders = o.get("orders", [])
            if len(orders) != 1 or any(x < 0 for x in orders[0]):
                problems.append("event %d: expected one host order record, got %s" % (k, orders))
            evs.append("Step %s" % coq_nat_list(orders[0] if orders else []))
        elif name == "run":
            orders = o.get("orders", [])
            evs.append("Run %s" % coq_list([coq_nat_list(x) for x in orders]))
        elif name in ("crash", "bounce"):
            hs = sel_hosts(ev[1], nreg)
            evs.append("%s %s" % ("Crash" if name == "crash" else "Bounce", coq_nat_list(hs)))
        elif name in ("probe", "wall_sleep"):
            evs.append("Probe")          # wall_sleep: real time only, nothing happens in the model
        else:
            raise ValueError(name)
        probes.append(name)
    term = "exec_enc (init %d (wtick_of %d) %d %d) %s" % (
        tick, tick, cfg["duration_ns"], epoch_of(cfg), coq_list(evs))
    return term, probes, problems


STEP_CODE = {"ok_false": 0, "ok_true": 1, "err:software": 2, "err:duration": 3}
RUN_CODE = {"ok": 1, "err:software": 2, "err:duration": 3}


def impl_log_by_event(obs):
    by = {}
    for e in obs.get("log", []):
        host, inc, task, op, aux, evi, el, se, ep, inst = e
        by.setdefault(evi, []).append((host, inc, mk_tag(task, op, aux), el, se, ep, inst))
    return by


def compare(case, obs, model, probes):
    """First disagreement between implementation observations and model outputs, or None."""
    if obs.get("panic"):
        return "harness panicked outside a scripted call: %s" % obs["panic"]
    if isinstance(model, tuple) and model and model[0] == "error":
        return "model evaluation failed: %s" % str(model[1])[-400:]
    iobs = obs["evs"]
    if len(model) != len(probes):
        return "model produced %d outputs for %d events" % (len(model), len(probes))
    logs = impl_log_by_event(obs)
    ticker_seen = {}
    for k, name in enumerate(probes):
        code, head, rows = model[k]
        o = iobs[k]
        ilog = sorted(logs.get(k, []))
        for e in ilog:
            if e[2] == mk_tag(TICKER, 0, 0):
                ticker_seen[(e[0], e[1])] = ticker_seen.get((e[0], e[1]), 0) + 1
        if name in ("step", "run"):
            r = o["r"]
            panicked = r.startswith("panic")
            table = STEP_CODE if name == "step" else RUN_CODE
            icode = 4 if panicked else table.get(r, -1)
            if icode != head[0]:
                return "event %d (%s): implementation returned %s, model code %d" % (k, name, r, head[0])
            off = 1
            if name == "run":
                if len(o["orders"]) != head[1]:
                    return "event %d (run): implementation made %d steps, model %d" % (k, len(o["orders"]), head[1])
                off = 2
            if not panicked:
                if o["elapsed"] != head[off]:
                    return "event %d (%s): Sim::elapsed %d, model %d" % (k, name, o["elapsed"], head[off])
                if o["since_epoch"] != head[off + 1]:
                    return "event %d (%s): Sim::since_epoch %d, model %d" % (k, name, o["since_epoch"], head[off + 1])
            mlog = sorted(tuple(x) for x in rows)
            if panicked:
                missing = [x for x in mlog if x not in ilog]
                if missing:
                    return "event %d (%s, panicked): model clock reads %s not made by the implementation" % (k, name, missing[:3])
            elif mlog != ilog:
                a = [x for x in mlog if x not in ilog]
                b = [x for x in ilog if x not in mlog]
                return ("event %d (%s): clock reads differ; only model %s; only implementation %s "
                        "(host, incarnation, tag, elapsed, sim_elapsed, since_epoch, instant)" % (k, name, a[:3], b[:3]))
        elif name in ("crash", "bounce"):
            ok = 1 if o["r"] == "ok" else 0
            if ok != head[0]:
                return "event %d (%s): implementation %s, model ok=%d" % (k, name, o["r"], head[0])
            if ilog:
                return "event %d (%s): host code read clocks during the call: %s" % (k, name, ilog[:2])
        elif name == "probe":
            if o["elapsed"] != head[0] or o["since_epoch"] != head[1]:
                return "event %d (probe): Sim::elapsed/since_epoch %d/%d, model %d/%d" % (
                    k, o["elapsed"], o["since_epoch"], head[0], head[1])
            for h, row in enumerate(rows):
                running, starts, polls = row[0], row[1], row[2]
                if bool(running) != o["running"][h]:
                    return "event %d (probe): is_host_running(n%d) = %s, model %s" % (k, h, o["running"][h], bool(running))
                if starts != o["starts"][h]:
                    return "event %d (probe): software of n%d was started %d times, model %d" % (k, h, o["starts"][h], starts)
                prog = host_prog(case, h, starts - 1)
                if prog is not None and prog.get("ticker"):
                    seen = ticker_seen.get((h, starts - 1), 0)
                    if seen != polls:
                        return "event %d (probe): ticker of n%d incarnation %d ran in %d steps, model polls %d" % (
                            k, h, starts - 1, seen, polls)
    return None


def host_prog(case, h, inc):
    n = 0
    for ev in case["script"]:
        if ev[0] in ("client", "host"):
            if n == h:
                if ev[0] == "client":
                    return ev[1]
                return ev[1][min(inc, len(ev[1]) - 1)]
            n += 1
    return None


# ---- independent reading of a case + implementation observations ---------------

def script_timing(prog, tick):
    """Tokio-side timing of a prog, independent of the Coq model: returns
    (main_end_clk, [(task_end_clk, panics)], exact) where `exact` tells that every
    duration involved is a whole number of ms."""
    def end(ops):
        c, exact = 0, True
        for op in ops:
            if op[0] == "sleep":
                exact = exact and op[1] % MS == 0
                c = cms(c + op[1])
            elif op[0] == "timeout":
                exact = exact and op[1] % MS == 0 and op[2] % MS == 0
                c = min(cms(c + op[1]), cms(c + op[2]))
            elif op[0] == "interval":
                exact = exact and op[1] % MS == 0
                if op[2] > 0:
                    c = cms(c + (op[2] - 1) * op[1])
        return c, exact
    m, ex = end(prog["main"])
    ts = []
    for t in prog.get("tasks", []):
        e, x = end(t["ops"])
        ex = ex and x
        ts.append((e, t.get("end") == "panic"))
    return m, ts, ex


def incarnations(case, obs):
    """What the controller knows about every software incarnation, from the
    script and the implementation's observations only.
    -> (incs, evinfo) with incs = [dict(host, inc, client, prog, start_ev, start_time,
    killed_ev)], evinfo[k] = dict(name, before, after, o) for the executed events."""
    incs, cur, evinfo = [], {}, []
    elapsed = 0
    nreg = 0
    iobs = obs.get("evs", [])
    for k, ev in enumerate(case["script"]):
        if k >= len(iobs):
            break
        o = iobs[k]
        name = ev[0]
        before = elapsed
        if name in ("client", "host"):
            d = {"host": nreg, "inc": 0, "client": name == "client", "start_ev": k, "start_time": elapsed,
                 "killed_ev": None, "prog": ev[1] if name == "client" else ev[1][0], "progs": None if name == "client" else ev[1]}
            incs.append(d)
            cur[nreg] = d
            nreg += 1
        elif name in ("crash", "bounce"):
            for h in sel_hosts(ev[1], nreg):
                d = cur.get(h)
                if d is None or d["client"]:
                    break          # Rt::crash / Rt::bounce panic for a client
                if d["killed_ev"] is None:
                    d["killed_ev"] = k
                if name == "bounce":
                    progs = d["progs"]
                    n = {"host": h, "inc": d["inc"] + 1, "client": False, "start_ev": k, "start_time": elapsed,
                         "killed_ev": None, "prog": progs[min(d["inc"] + 1, len(progs) - 1)], "progs": progs}
                    incs.append(n)
                    cur[h] = n
        if "elapsed" in o:
            elapsed = o["elapsed"]
        evinfo.append({"name": name, "before": before, "after": elapsed, "o": o})
    return incs, evinfo


def end_markers(obs):
    """(host, inc) -> (event index, sim_elapsed) of the instant the main future completed."""
    out = {}
    for e in obs.get("log", []):
        if e[2] == 998:
            out[(e[0], e[1])] = (e[5], e[7])
    return out


def main_drops(obs):
    """(host, inc) -> event index at which the main future's guard was dropped."""
    return {(d[0], d[1]): d[3] for d in obs.get("drops", []) if d[2] == 0}


def histogram(cases):
    h = {"cases": len(cases), "ticks_ns": {}, "events": {}, "ends": {}, "ops": {}, "flavours": {},
         "random_order": 0, "selectors": {"h": 0, "ip": 0, "re": 0}}
    for c in cases:
        t = str(c["cfg"]["tick_ns"])
        h["ticks_ns"][t] = h["ticks_ns"].get(t, 0) + 1
        h["flavours"][c.get("flavour", "?")] = h["flavours"].get(c.get("flavour", "?"), 0) + 1
        h["random_order"] += 1 if c["cfg"].get("random_order") else 0
        for ev in c["script"]:
            h["events"][ev[0]] = h["events"].get(ev[0], 0) + 1
            if ev[0] in ("crash", "bounce"):
                for k in ev[1]:
                    h["selectors"][k] += 1
            progs = [ev[1]] if ev[0] == "client" else (ev[1] if ev[0] == "host" else [])
            for p in progs:
                h["ends"][p.get("end", "ok")] = h["ends"].get(p.get("end", "ok"), 0) + 1
                for op in p["main"] + [o for t in p.get("tasks", []) for o in t["ops"]]:
                    h["ops"][op[0]] = h["ops"].get(op[0], 0) + 1
    return h


def case_signature(case):
    return json.dumps([case["cfg"]["tick_ns"], case["cfg"]["duration_ns"], case["script"]], sort_keys=True)


# ---- generators ------------------------------------------------------------------

WHOLE_TICKS = [1 * MS, 2 * MS, 3 * MS, 5 * MS, 7 * MS, 10 * MS]
ODD_TICKS = [700000, 1500000, 2500000, 300000, 4200000]


def base_cfg(rng, tick=None, odd=0.0, duration_ticks=None):
    if tick is None:
        tick = rng.choice(ODD_TICKS) if rng.random() < odd else rng.choice(WHOLE_TICKS)
    if duration_ticks is None:
        duration_ticks = rng.choice([1, 2, 3, 5, 8, 13, 30])
    dur = duration_ticks * tick + rng.choice([0, 0, 1, tick // 2, tick - 1, -1])
    return {"tick_ns": tick, "duration_ns": max(dur, 0), "epoch_ns": rand_epoch(rng),
            "random_order": rng.random() < 0.4, "seed": rng.randrange(1 << 30)}


def gen_ops(rng, tick, n, obs_p=0.5, fancy=True, whole=True):
    """A list of ops; sleeps are multiples of the tick, of 1 ms, or arbitrary."""
    ops = []
    for _ in range(n):
        r = rng.random()
        if r < 0.55:
            k = rng.random()
            if k < 0.35:
                d = rng.choice([0, 1, 1, 2, 3]) * tick
            elif k < 0.8 or whole:
                d = rng.choice([0, 1, 1, 2, 3, 4, 6, 9, 15]) * MS
            else:
                d = rng.choice([1, 1000, 500000, 1500000, 999999, 2000001, 3300000])
            ops.append(["sleep", d])
        elif r < 0.55 + 0.1 and fancy:
            a = rng.choice([1, 2, 3, 5]) * MS if whole or rng.random() < 0.6 else rng.choice([2600000, 2500000, 700000])
            b = rng.choice([1, 2, 3, 4]) * MS if whole or rng.random() < 0.6 else rng.choice([2500000, 1400000, 100])
            ops.append(["timeout", a, b])
        elif r < 0.55 + 0.17 and fancy:
            p = rng.choice([1, 2, 3]) * MS if whole or rng.random() < 0.6 else rng.choice([1500000, 700000, 2500000])
            ops.append(["interval", p, rng.randrange(0, 5)])
        if rng.random() < obs_p:
            ops.append(["obs"])
    return ops


def gen_prog(rng, tick, end=None, whole=True, ticker=None, tasks=None, nops=None, panic_tasks=0.0):
    end = end or rng.choice(["ok", "ok", "ok", "err", "never", "panic"])
    if end == "err":
        end = rng.choice(ERR_KINDS)
    nops = rng.randrange(0, 6) if nops is None else nops
    p = {"main": gen_ops(rng, tick, nops, whole=whole), "end": end,
         "ticker": rng.random() < 0.6 if ticker is None else ticker, "tasks": []}
    nt = rng.choice([0, 0, 1, 2]) if tasks is None else tasks
    for _ in range(nt):
        te = "panic" if rng.random() < panic_tasks else rng.choice(["ok", "never"])
        kind = rng.choice(TASK_KINDS) if (te == "panic" or rng.random() < 0.15) else "local"
        if kind == "local":
            p["tasks"].append({"ops": gen_ops(rng, tick, rng.randrange(1, 5), whole=whole), "end": te})
        else:
            # a tokio::spawn task: sleeps only
            ops = [o for o in gen_ops(rng, tick, rng.randrange(1, 5), obs_p=0.0, fancy=False, whole=whole) if o[0] == "sleep"]
            p["tasks"].append({"ops": ops, "end": te, "kind": kind})
    return p


TASK_KINDS = ["local", "spawn", "spawn", "spawn_awaited", "nested"]


def n_guarded_tasks(prog):
    """Tasks of a prog that own a drop guard (the tokio::spawn flavours do not)."""
    return sum(1 for t in prog.get("tasks", []) if t.get("kind", "local") == "local")
