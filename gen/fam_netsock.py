"""Family `netsock` (property C17): scripts for harness bin `netsock` and their
rendering as TV.NetPure.SockRun events."""
import ipaddress
import itertools
import json

HEADER = ("From TV.Lib Require Import Base.\nFrom TV.NetPure Require Import Ip Sock SockRun.\n"
          "Open Scope N_scope.\n")

RAW_SRC4, RAW_SRC6 = "10.77.0.1", "fd77::1"
UNKNOWN4 = "10.9.9.9"
FLAGS = {"syn": 1, "synack": 3, "ack": 2, "data": 2, "rst": 8}
CREATORS = ("bind_udp", "listen", "connect", "accept")


def ip_coq(s):
    a = ipaddress.ip_address(s)
    return "(V%d %d)" % (a.version, int(a))


def sa_coq(sa):
    return "(%s, %d)" % (ip_coq(sa[0]), sa[1])


def enc_ip(s):
    a = ipaddress.ip_address(s)
    return [a.version, int(a)]


def norm_ip(s):
    return str(ipaddress.ip_address(s))


def fam(s):
    return ipaddress.ip_address(s).version


def is_loopback(s):
    return ipaddress.ip_address(s).is_loopback


def is_unspec(s):
    return ipaddress.ip_address(s).is_unspecified


def hosts_coq(hosts):
    return "[%s]" % "; ".join("[%s]" % "; ".join(ip_coq(a) for a in addrs) for addrs in hosts)


def pkt_coq(d):
    """d = [src, dst, proto, sport, dport, flags, tag]"""
    return "(mkpkt %d %s %s %d %d %d %d)" % (d[6], ip_coq(d[0]), ip_coq(d[1]), d[2], d[3], d[4], d[5])


def enc_desc(d):
    return [d[2]] + enc_ip(d[0]) + [d[3]] + enc_ip(d[1]) + [d[4], d[5], d[6]]


# ---- to_model ---------------------------------------------------------------------------

def to_model(case, obs):
    if case["mode"] == "alloc":
        c = case["cfg"]
        term = "alloc_run %d %d %d [%s]" % (c["lo"], c["hi"], c["lo"],
                                            "; ".join("[%s]" % "; ".join(str(p) for p in used) for used in case["script"]))
        return term, [], []
    evs, probes, problems = [], [], []
    if case["cfg"].get("oracle_only"):
        return "nrun_enc [] []", [], []
    steps = obs.get("steps", [])
    for i, cmd in enumerate(case["script"]):
        o = steps[i] if i < len(steps) else {}
        n = cmd[0]
        e = None
        if n == "bind_udp":
            e = "NBindUdp %d %s %d" % (cmd[1], ip_coq(cmd[2]), cmd[3])
        elif n == "listen":
            e = "NListen %d %s %d" % (cmd[1], ip_coq(cmd[2]), cmd[3])
        elif n == "connect":
            e = "NConnect %d %s" % (cmd[1], sa_coq(o["dst"])) if o.get("dst") else "NAccept 1000000"
        elif n == "poll":
            e = "NPoll %d" % cmd[1]
        elif n == "accept":
            e = "NAccept %d" % cmd[1]
        elif n == "close":
            e = "NClose %d" % cmd[1]
        elif n == "udp_connect":
            e = "NUdpConnect %d %s" % (cmd[1], sa_coq(o["dst"])) if o.get("dst") else None
        elif n == "send_to":
            e = "NSendTo %d %s %d" % (cmd[1], sa_coq(o["dst"]), cmd[3]) if o.get("dst") else None
        elif n == "send":
            e = "NSend %d %d" % (cmd[1], cmd[2])
        elif n == "raw_udp":
            if o.get("r") == "ok":
                e = "NRaw %s" % pkt_coq([o["src"][0], o["dst"][0], 0, o["src"][1], o["dst"][1], 0, cmd[3]])
        elif n == "raw_tcp":
            if o.get("r") == "ok":
                tag = cmd[4] if cmd[1] == "data" else 0
                fl = FLAGS[cmd[1]]
                if cmd[1] in ("ack", "data") and o.get("known"):
                    fl += 16          # ghost flag F_OK: the harness took seq/ack from the socket listing, so they are the expected ones
                e = "NRaw %s" % pkt_coq([o["src"][0], o["dst"][0], 1, o["src"][1], o["dst"][1], fl, tag])
        elif n == "set_cursor":
            e = "NSetCursor %d %d" % (cmd[1], cmd[2])
        elif n == "egress":
            e = "NEgress"
        elif n == "pump":
            e = "NPump"
        elif n == "recv_all":
            e = "NRecvAll"
        if e is not None:
            probes.append((len(evs), n, i))
            evs.append(e)
    term = "nrun_enc %s [%s]" % (hosts_coq(case["cfg"]["hosts"]), "; ".join(evs))
    return term, probes, problems


ERR_CODE = {"AddrInUse": 1, "AddrNotAvailable": 2, "pending": 3, "ConnectionRefused": 4, "none": 5,
            "n/a": 9, "unresolved": 9, "EAFNOSUPPORT": 11, "PermissionDenied": 12, "NotConnected": 13, "ok": 0}


def compare(case, obs, model, probes):
    if obs.get("panic"):
        return "implementation panicked: %s" % obs["panic"]
    if isinstance(model, tuple) and model and model[0] == "error":
        return "model evaluation failed: %s" % str(model[1])[-400:]
    if case["mode"] == "alloc":
        if list(model) != obs["res"]:
            return "PortAllocator(%d..=%d): implementation %s, model %s" % (case["cfg"]["lo"], case["cfg"]["hi"], obs["res"], list(model))
        return None
    for idx, kind, i in probes:
        if idx >= len(model):
            return "model produced too few outputs"
        code, a, l = model[idx]
        l = [list(x) for x in l]
        o = obs["steps"][i]
        cmd = case["script"][i]
        where = "cmd %d %s" % (i, json.dumps(cmd))
        if kind in ("bind_udp", "listen"):
            want = ERR_CODE.get(o["r"], -1)
            if want != code:
                return "%s: implementation %s, model code %d" % (where, o["r"], code)
            if o["r"] == "ok":
                if o["local"][1] != a:
                    return "%s: implementation bound port %d, model %d" % (where, o["local"][1], a)
                if norm_ip(o["local"][0]) != norm_ip(cmd[2]):
                    return "%s: local_addr %s differs from the requested address" % (where, o["local"])
        elif kind == "connect":
            want = ERR_CODE.get(o["r"], -1)
            if want != code:
                return "%s: implementation %s, model code %d" % (where, o["r"], code)
            if o["r"] == "pending" and (o.get("local") or [None, None])[1] != a:
                return "%s: implementation used local endpoint %s, model port %d" % (where, o.get("local"), a)
        elif kind in ("poll", "udp_connect", "send_to", "send"):
            want = ERR_CODE.get(o["r"], -1)
            if want != code:
                return "%s: implementation %s, model code %d" % (where, o["r"], code)
        elif kind == "close":
            if code == 7:
                return None      # clean close of an established stream: outside the model, compare up to here
            if ERR_CODE.get(o["r"], -1) != code:
                return "%s: implementation %s, model code %d" % (where, o["r"], code)
        elif kind == "accept":
            if o["r"] == "ok":
                want = [enc_ip(o["peer"][0]) + [o["peer"][1]]]
                if code != 0 or l != want:
                    return "%s: implementation accepted peer %s, model %s" % (where, o["peer"], (code, l))
            elif code == 0:
                return "%s: implementation accepted nothing, model %s" % (where, l)
        elif kind in ("egress", "pump"):
            got = [enc_desc(d) for d in o["out"]]
            if got != l:
                return "%s: packets on the wire %s, model %s" % (where, o["out"], l)
        elif kind == "recv_all":
            got = []
            for g in o["got"]:
                flat = [g[0], g[1]]
                if g[1] == 0:
                    for it in g[2]:
                        flat += enc_ip(it[0]) + [it[1], it[2]]
                elif g[1] == 1:
                    flat += g[2]
                elif g[1] == 9:
                    return "%s: handle %d: unexpected error %s" % (where, g[0], g[2])
                got.append(flat)
            if got != l:
                return "%s: received %s, model %s" % (where, got, l)
    return None


# ---- generators ----------------------------------------------------------------------------

PORTS = [5000, 5000, 5001, 6000, 0, 0]


def rand_hosts(rng, n=None):
    n = n or rng.choice([1, 2, 2, 3])
    hosts = []
    for h in range(n):
        addrs = ["10.0.%d.1" % h]
        if rng.random() < 0.5:
            addrs.append("10.0.%d.2" % h)
        if rng.random() < 0.35:
            addrs.append("fd00::%d:1" % (h + 1))
        hosts.append(addrs)
    return hosts


def bind_addr(rng, hosts, h):
    r = rng.random()
    own4 = [a for a in hosts[h] if "." in a]
    own6 = [a for a in hosts[h] if ":" in a]
    if r < 0.28:
        return "0.0.0.0"
    if r < 0.62 and own4:
        return rng.choice(own4)
    if r < 0.72:
        return rng.choice(["127.0.0.1", "127.0.0.1", "127.0.0.9"])
    if r < 0.8:
        return "::"
    if r < 0.86:
        return rng.choice(own6) if own6 else "::1"
    if r < 0.9:
        return "::1"
    others = [a for i, x in enumerate(hosts) if i != h for a in x]
    return rng.choice(others + [UNKNOWN4]) if others else UNKNOWN4


class Gen:
    def __init__(self, rng, hosts):
        self.rng, self.hosts = rng, hosts
        self.script = []
        self.handles = []        # {kind, host, ip, port}
        self.tag = 100
        self.rawport = 20000

    def next_tag(self):
        self.tag += 1
        return self.tag

    def add(self, cmd):
        self.script.append(cmd)
        if cmd[0] in CREATORS:
            self.handles.append({"kind": cmd[0], "host": cmd[1] if cmd[0] != "accept" else self.handles[cmd[1]]["host"],
                                 "ip": cmd[2] if cmd[0] in ("bind_udp", "listen") else None,
                                 "port": cmd[3] if cmd[0] in ("bind_udp", "listen") else None, "open": True})
        return len(self.handles) - 1

    def of(self, kinds):
        c = [i for i, h in enumerate(self.handles) if h["kind"] in kinds and h["open"]]
        return self.rng.choice(c) if c else None

    def target_ip(self, hd):
        """an address at which handle hd's host can be reached (or loopback / a wrong one)"""
        h = self.handles[hd]
        rng = self.rng
        ip = h["ip"]
        own = self.hosts[h["host"]]
        r = rng.random()
        if ip and not is_unspec(ip) and r < 0.6:
            return ip
        cands = [a for a in own if ip is None or fam(a) == fam(ip)]
        if r < 0.9 and cands:
            return rng.choice(cands)
        return rng.choice(["127.0.0.1", UNKNOWN4] + own)

    def raw_src(self, dst_ip=None):
        self.rawport += 1
        r = self.rng.random()
        v6 = dst_ip is not None and ":" in dst_ip
        if r < 0.7:
            return [RAW_SRC6 if v6 else RAW_SRC4, self.rawport]
        allips = [a for x in self.hosts for a in x if (":" in a) == v6]
        return [self.rng.choice(allips), self.rawport] if allips else [RAW_SRC6 if v6 else RAW_SRC4, self.rawport]


def gen_net(rng, nhosts=None, ncmds=None):
    hosts = rand_hosts(rng, nhosts)
    g = Gen(rng, hosts)
    n = len(hosts)
    for _ in range(ncmds or rng.randrange(12, 45)):
        r = rng.random()
        h = rng.randrange(n)
        if rng.random() < 0.04:
            # near the end of the ephemeral range, so that port 0 wraps around
            g.add(["set_cursor", h, rng.choice([65535, 65534, 65533, 49152, 49153, 60000])])
        if r < 0.2:
            g.add(["bind_udp", h, bind_addr(rng, hosts, h), rng.choice(PORTS)])
        elif r < 0.32:
            g.add(["listen", h, bind_addr(rng, hosts, h), rng.choice(PORTS)])
        elif r < 0.42:
            l = g.of(("listen",))
            if l is None:
                continue
            ip = g.target_ip(l)
            if g.handles[l]["host"] == h and rng.random() < 0.4:
                ip = "127.0.0.1"
            dst = {"of": l, "ip": ip}
            g.add(["connect", h, dst])
            if rng.random() < 0.85:
                g.add(["pump"])
                g.add(["poll", len(g.handles) - 1])
                if rng.random() < 0.7:
                    g.add(["accept", l])
        elif r < 0.47:
            l = g.of(("listen",))
            if l is not None:
                g.add(["accept", l])
        elif r < 0.56:
            hd = g.of(("bind_udp", "listen", "connect", "accept"))
            if hd is None:
                continue
            k = g.handles[hd]["kind"]
            if k in ("connect", "accept"):
                # an established stream must hold unread data when it is dropped (abortive close)
                g.add(["raw_tcp", "data", {"peer_of": hd}, {"of": hd}, g.next_tag()])
                g.add(["egress"])
            g.add(["close", hd])
            g.handles[hd]["open"] = False
            if rng.random() < 0.5:
                g.add(["pump"])
        elif r < 0.6:
            u = g.of(("bind_udp",))
            t = g.of(("bind_udp",))
            if u is not None:
                dst = {"of": t, "ip": g.target_ip(t)} if rng.random() < 0.7 else g.raw_src()
                g.add(["udp_connect", u, dst])
        elif r < 0.72:
            u = g.of(("bind_udp",))
            t = g.of(("bind_udp",))
            if u is None:
                continue
            if rng.random() < 0.2:
                g.add(["send", u, g.next_tag()])
            else:
                g.add(["send_to", u, {"of": t, "ip": g.target_ip(t)}, g.next_tag()])
            if rng.random() < 0.6:
                g.add(["pump"])
        elif r < 0.82:
            t = g.of(("bind_udp",))
            if t is None:
                continue
            ip = g.target_ip(t)
            src = g.raw_src(ip)
            if rng.random() < 0.25:
                src = {"peer_of": t}        # exercise the connected-peer filter (unresolved when not connected)
            g.add(["raw_udp", src, {"of": t, "ip": ip}, g.next_tag()])
        elif r < 0.95:
            q = rng.random()
            if q < 0.45:
                l = g.of(("listen",))
                if l is None:
                    continue
                ip = g.target_ip(l)
                src = g.raw_src(ip)
                g.add(["raw_tcp", "syn", src, {"of": l, "ip": ip}, 0])
                g.add(["egress"])
                if rng.random() < 0.7:
                    g.add(["raw_tcp", rng.choice(["ack", "ack", "ack", "data", "rst"]), src, {"of": l, "ip": ip}, g.next_tag()])
                    g.add(["egress"])
                    if rng.random() < 0.6:
                        g.add(["accept", l])
                        if rng.random() < 0.6:
                            g.add(["raw_tcp", "data", src, {"of": l, "ip": ip}, g.next_tag()])
                            g.add(["egress"])
            elif q < 0.8:
                s = g.of(("connect", "accept"))
                if s is None:
                    continue
                kind = rng.choice(["data", "data", "data", "ack", "syn", "synack", "rst"])
                src = {"peer_of": s} if rng.random() < 0.8 else g.raw_src()
                g.add(["raw_tcp", kind, src, {"of": s}, g.next_tag()])
                g.add(["egress"])
            else:
                t = g.of(("bind_udp", "listen"))
                if t is None:
                    continue
                ip = g.target_ip(t)
                g.add(["raw_tcp", rng.choice(["ack", "data", "rst", "synack", "syn"]), g.raw_src(ip), {"of": t, "ip": ip}, g.next_tag()])
                g.add(["egress"])
        else:
            g.add(["recv_all"])
    # final sweep: a datagram to every (address, port of a udp handle) from an outside source
    seen = set()
    for i, hd in enumerate(g.handles):
        if hd["kind"] != "bind_udp":
            continue
        for a in hosts[hd["host"]]:
            if hd["ip"] and fam(a) != fam(hd["ip"]):
                continue
            if (i, a) in seen or len(seen) > 12:
                continue
            seen.add((i, a))
            g.add(["raw_udp", g.raw_src(a), {"of": i, "ip": a}, g.next_tag()])
    g.add(["pump"])
    g.add(["recv_all"])
    return {"mode": "net", "cfg": {"hosts": hosts}, "script": g.script, "flavour": "net"}


def gen_bind_matrix():
    """two binds (+ close of the first and a third bind) over every pair of address kinds,
    same/different port, same/different protocol, on a host with two addresses"""
    hosts = [["10.0.0.1", "10.0.0.2", "fd00::1:1"], ["10.0.1.1"]]
    addrs = ["0.0.0.0", "127.0.0.1", "10.0.0.1", "10.0.0.2", "10.0.1.1", "::", "::1", "fd00::1:1"]
    out = []
    for a1, a2 in itertools.product(addrs, repeat=2):
        for p2 in (5000, 5001):
            for k1, k2 in (("bind_udp", "bind_udp"), ("listen", "listen"), ("bind_udp", "listen")):
                script = [[k1, 0, a1, 5000], [k2, 0, a2, p2], ["close", 0], [k2, 0, a2, p2], [k1, 0, a1, 5000]]
                out.append({"mode": "net", "cfg": {"hosts": hosts}, "script": script, "flavour": "bind-matrix"})
    return out


def gen_demux_matrix():
    """exact and wildcard UDP sockets and listeners on one port, every combination present/absent,
    probed at every local address"""
    hosts = [["10.0.0.1", "10.0.0.2"], ["10.0.1.1"]]
    out = []
    for proto in ("udp", "tcp"):
        for mask in range(1, 8):
            script = []
            binds = [a for i, a in enumerate(["0.0.0.0", "10.0.0.1", "10.0.0.2"]) if mask >> i & 1]
            # a wildcard and a concrete bind conflict: order both ways so that either may win
            for order in (binds, list(reversed(binds))):
                script = [["bind_udp" if proto == "udp" else "listen", 0, a, 5000] for a in order]
                nh = len(order)
                tag = 100
                for j, dst in enumerate(["10.0.0.1", "10.0.0.2", "10.0.1.1", "127.0.0.1"]):
                    tag += 1
                    if proto == "udp":
                        script.append(["raw_udp", [RAW_SRC4, 30000 + j], [dst, 5000], tag])
                    else:
                        script += [["raw_tcp", "syn", [RAW_SRC4, 30000 + j], [dst, 5000], 0], ["egress"],
                                   ["raw_tcp", "ack", [RAW_SRC4, 30000 + j], [dst, 5000], 0], ["egress"]]
                if proto == "tcp":
                    for i in range(nh):
                        script += [["accept", i], ["accept", i]]
                script.append(["recv_all"])
                out.append({"mode": "net", "cfg": {"hosts": hosts}, "script": script, "flavour": "demux-matrix"})
    return out


def gen_dualstack(rng):
    """listeners on one port in both address families, half-open and completed handshakes on
    each, then one listener is closed: the other family's connections must survive"""
    hosts = [["10.0.0.1", "fd00::1:1"], ["10.0.1.1", "fd00::2:1"]]
    port = rng.choice([5000, 6000])
    a4 = rng.choice(["0.0.0.0", "0.0.0.0", "10.0.0.1"])
    a6 = rng.choice(["::", "::", "fd00::1:1"])
    order = [["listen", 0, a4, port], ["listen", 0, a6, port]]
    if rng.random() < 0.5:
        order.reverse()
    script = list(order)
    peers = []
    sp = 31000
    for _ in range(rng.randrange(2, 6)):
        sp += 1
        v6 = rng.random() < 0.5
        src = [RAW_SRC6 if v6 else RAW_SRC4, sp]
        dst = ["fd00::1:1" if v6 else "10.0.0.1", port]
        script += [["raw_tcp", "syn", src, dst, 0], ["egress"]]
        peers.append((src, dst, v6))
        if rng.random() < 0.4:
            script += [["raw_tcp", "ack", src, dst, 0], ["egress"]]
    victim = rng.randrange(2)
    script += [["close", victim], ["egress"]]
    for src, dst, v6 in peers:
        script += [["raw_tcp", "ack", src, dst, 0], ["egress"]]
    for _ in range(len(peers)):
        script += [["accept", 1 - victim]]
    if rng.random() < 0.5:
        script += [[order[victim][0], 0, order[victim][2], port]]
    script += [["recv_all"]]
    return {"mode": "net", "cfg": {"hosts": hosts}, "script": script, "flavour": "dualstack"}


def gen_passive_close(rng, variant=None):
    """two hosts; a connection is closed from one end, the other end (the passive closer) follows,
    the hosts fall silent, then the freed (address, port) pairs are bound again: every closed
    socket must have released its binding.  No packet is dropped and none is forged, so the FIN
    exchange completes inside the pump.  variant 2: the child is reset while still half-open,
    the host stays idle, the listener is closed and its address bound again."""
    hosts = [["10.0.0.1", "10.0.0.2"], ["10.0.1.1"]]
    variant = rng.randrange(4) if variant is None else variant      # 3: both ends close before anything is pumped
    port = rng.choice([5000, 6000, 6001])
    la = rng.choice(["0.0.0.0", "10.0.0.1", "10.0.0.2"])
    sip = la if la != "0.0.0.0" else rng.choice(["10.0.0.1", "10.0.0.2"])
    cur = rng.choice([49152, 49153, 50000, 65534, 65535])
    script = [["listen", 0, la, port]]                                    # handle 0
    if variant == 2:
        src = [RAW_SRC4, 30000 + rng.randrange(100)]
        script += [["raw_tcp", "syn", src, [sip, port], 0], ["egress"], ["raw_tcp", "rst", src, [sip, port], 0],
                   ["egress"], ["pump"], ["close", 0], ["pump"],
                   ["listen", 0, la, port], ["close", 1], ["listen", 0, sip, port], ["bind_udp", 0, sip, port]]
        return {"mode": "net", "cfg": {"hosts": hosts}, "script": script, "flavour": "passive-close"}
    script += [["set_cursor", 1, cur], ["connect", 1, [sip, port]], ["pump"], ["poll", 1], ["accept", 0]]   # handles 1 (client), 2 (server side)
    first, second = (1, 2) if variant in (0, 3) else (2, 1)
    if variant == 3:
        # simultaneous close: the two FINs cross (FIN_WAIT1 -> CLOSING -> closed on both sides); seed C17-B8
        if rng.random() < 0.5:
            first, second = second, first
        script += [["close", first], ["close", second], ["pump"], ["recv_all"], ["pump"]]
    else:
        script += [["close", first], ["pump"], ["recv_all"], ["close", second], ["pump"]]
    for _ in range(rng.randrange(0, 3)):
        script.append(["pump"])                                           # silence
    # the client's (address, ephemeral port) is free again, for an explicit bind and for port 0
    script += [["listen", 1, "10.0.1.1", cur], ["close", 3], ["set_cursor", 1, cur], ["listen", 1, rng.choice(["10.0.1.1", "0.0.0.0"]), 0]]
    # the listener's key is free again once the listener is gone too
    script += [["close", 0], ["pump"], ["listen", 0, la, port], ["close", 5], ["listen", 0, sip, port], ["close", 6],
               ["listen", 0, "0.0.0.0", port], ["recv_all"]]
    return {"mode": "net", "cfg": {"hosts": hosts}, "script": script, "flavour": "passive-close"}


def gen_addr_order(rng):
    """multi-address hosts whose address lists are descending, mixed-family or shuffled: every own
    address must be bindable, and datagrams / connects to each own address fold back into the host"""
    pools = [["10.0.0.3", "10.0.0.2", "10.0.0.1"], ["fd00::1:2", "10.0.0.9", "fd00::1:1", "10.0.0.4"],
             ["192.168.5.1", "10.0.0.7", "172.16.0.1", "10.0.0.5"], ["fd00::1:9", "fd00::1:3", "10.0.0.8"]]
    a0 = list(rng.choice(pools))
    if rng.random() < 0.5:
        rng.shuffle(a0)
    else:
        a0.sort(key=lambda x: (":" not in x, [int(b, 16) if ":" in x else int(b) for b in x.replace("::", ":0:").replace(":", ".").split(".")]), reverse=True)
    hosts = [a0, ["10.0.1.2", "10.0.1.1"]]
    script = []
    port = rng.choice([5000, 6000])
    nh = 0
    for i, a in enumerate(a0):
        script.append(["bind_udp", 0, a, port])
        script.append(["listen", 0, a, port])
        nh += 2
    for a in hosts[1]:
        script.append(["bind_udp", 1, a, port])
        nh += 1
    tag = 100
    for i, a in enumerate(a0):                       # from the first socket of the matching family to every own address
        src = next(2 * j for j, b in enumerate(a0) if (":" in b) == (":" in a))
        tag += 1
        script.append(["send_to", src, [a, port], tag])
    script += [["send_to", 2 * len(a0), ["10.0.1.2", port], 199], ["pump"], ["recv_all"]]
    for a in a0:
        script += [["connect", 0, [a, port]], ["pump"], ["poll", nh], ["accept", 1 + 2 * a0.index(a)]]
        nh += 2
    script += [["connect", 1, [a0[-1], port]], ["pump"], ["poll", nh], ["recv_all"]]
    return {"mode": "net", "cfg": {"hosts": hosts}, "script": script, "flavour": "addr-order"}


def gen_port_spaces(rng):
    """ephemeral port spaces are per (family, type): occupy a small window after the cursor with UDP/v4
    sockets, then TCP :0 and v6 :0 binds must still be handed exactly those port numbers"""
    hosts = [["10.0.0.1", "fd00::1:1"], ["10.0.1.1"]]
    cur = rng.choice([49152, 50000, 65533, 65535])
    w = rng.randrange(2, 6)
    eph = lambda k: 49152 + (cur - 49152 + k) % 16384
    script = [["set_cursor", 0, cur]]
    occ = rng.choice([("bind_udp", ["0.0.0.0", "10.0.0.1", "127.0.0.1"]), ("listen", ["0.0.0.0", "10.0.0.1"]), ("bind_udp", ["::", "fd00::1:1"])])
    for k in range(w):
        script.append([occ[0], 0, rng.choice(occ[1]), eph(k) if rng.random() < 0.5 else 0])
    script.append(["set_cursor", 0, cur])
    others = [("listen", "0.0.0.0"), ("listen", "10.0.0.1"), ("bind_udp", "::"), ("listen", "::"), ("bind_udp", "0.0.0.0"), ("listen", "fd00::1:1")]
    for kind, a in rng.sample(others, 4):
        script += [["set_cursor", 0, cur], [kind, 0, a, 0], [kind, 0, a, 0]]
    return {"mode": "net", "cfg": {"hosts": hosts}, "script": script, "flavour": "port-spaces"}


def gen_exhaust(rng):
    """every ephemeral port taken by UDP/IPv4 sockets: TCP and IPv6 binds to port 0 must still succeed
    (oracle only: 16384 binds are too many for the model evaluation)"""
    script = [["bind_udp", 0, "0.0.0.0", 0] for _ in range(16384)]
    script += [["bind_udp", 0, "0.0.0.0", 0], ["listen", 0, "0.0.0.0", 0], ["bind_udp", 0, "::", 0], ["listen", 0, "::", 0], ["listen", 0, "10.0.0.1", 0]]
    return {"mode": "net", "cfg": {"hosts": [["10.0.0.1"]], "oracle_only": True}, "script": script, "flavour": "exhaust"}


def gen_failed_connect(rng):
    """connects through the shim (TcpStream::connect) that fail after their first poll -- refused on
    loopback, refused by another host, refused on the host's own address -- or are abandoned while
    pending (unowned destination); then explicit binds on exactly the (address, ephemeral port)
    each attempt was given, wildcard binds on those ports, and port 0 with the cursor moved back:
    a failed or dropped connect must leave no socket behind."""
    hosts = [["10.0.0.1", "10.0.0.2"], ["10.0.1.1"]]
    h = rng.randrange(2)
    cur = rng.choice([49152, 49200, 60000, 65533, 65534, 65535])
    eph = lambda k: 49152 + (cur - 49152 + k) % 16384
    own = hosts[h][0]
    other = hosts[1 - h][0]
    kinds = [("127.0.0.1", "127.0.0.1"), (other, own), (own, own), ("127.0.0.9", "127.0.0.1"), ("10.9.9.9", own)]
    rng.shuffle(kinds)
    kinds = kinds[:rng.randrange(2, 6)]
    script = [["set_cursor", h, cur]]
    nh = 0
    used = []
    for k, (dst, lip) in enumerate(kinds):
        script += [["connect", h, [dst, rng.choice([7000, 7001])]], ["pump"], ["poll", nh]]
        if dst == "10.9.9.9":
            script += [["close", nh]]                 # still pending: dropping the future closes the fd
        used.append((lip, eph(k)))
        nh += 1
    for lip, port in used:
        r = rng.random()
        if r < 0.5:
            script += [["listen", h, lip, port], ["close", nh]]
            nh += 1
        script += [["listen", h, "0.0.0.0", port], ["close", nh]]
        nh += 1
    script += [["set_cursor", h, cur]]
    for _ in range(len(used)):
        script += [["listen", h, rng.choice(["0.0.0.0", own, "127.0.0.1"]), 0]]
    script += [["recv_all"]]
    return {"mode": "net", "cfg": {"hosts": hosts}, "script": script, "flavour": "failed-connect"}


DST4 = ["0.0.0.0", "127.0.0.2", "127.255.255.254", "127.0.0.255", "10.9.9.9", "10.0.1.255", "255.255.255.255"]
DST6 = ["::", "::1", "fd00::99", "::ffff:10.0.0.1", "::ffff:127.0.0.1", "::ffff:0.0.0.0", "::2"]


def gen_dst_classes(rng):
    """destination classes: unspecified, other 127/8 addresses, unclaimed unicast, broadcast-looking,
    v4-mapped v6, own and foreign addresses -- for UDP send_to and TCP connect, from wildcard- and
    concretely-bound sockets, with wildcard and concrete sockets on the same ports on every host.
    Fabric::host_for_ip and Kernel::is_local decide delivery; nobody owns the unspecified address."""
    hosts = [["10.0.0.1", "fd00::1:1"], ["10.0.1.1", "fd00::2:1"], ["10.0.2.1"]]
    P = rng.choice([5000, 6000, 9000])
    script, senders = [], []          # senders: (handle, family)
    nh = 0
    for h, addrs in enumerate(hosts):
        for ip, port in [("0.0.0.0", P), ("::", P), (addrs[0], P + 1)] + ([(addrs[1], P + 1)] if len(addrs) > 1 else []):
            script.append(["bind_udp", h, ip, port])
            senders.append((nh, 6 if ":" in ip else 4, h))
            nh += 1
    listeners = []
    lspec = [(0, "0.0.0.0", P), (0, "::", P), (1, "10.0.1.1", P), (1, "0.0.0.0", P + 1), (2, "0.0.0.0", P)]
    if rng.random() < 0.4:
        lspec = []                      # nobody listens: every SYN that reaches a host is refused
    elif rng.random() < 0.5:
        lspec = [x for x in lspec if x[1] not in ("0.0.0.0", "::")]
    for h, ip, port in lspec:
        script.append(["listen", h, ip, port])
        listeners.append(nh)
        nh += 1
    tag = 100
    own = {4: lambda h: hosts[h][0], 6: lambda h: hosts[h][1] if len(hosts[h]) > 1 else "fd00::1:1"}
    other = {4: lambda h: hosts[(h + 1) % 3][0], 6: lambda h: hosts[(h + 1) % 2][1]}
    # every wildcard sender always probes the unspecified address on its own port; the rest is sampled
    chosen = [x for x in senders if x[0] % 4 in (0, 1) or len(hosts[x[2]]) == 1] + rng.sample(senders, 3)
    for hd, f, h in chosen:
        dsts = (DST4 if f == 4 else DST6) + [own[f](h), other[f](h)]
        if rng.random() < 0.3:
            dsts = dsts + [("::" if f == 4 else "0.0.0.0")]          # family mismatch
        for d in dsts:
            for port in (P, P + 1):
                tag += 1
                script.append(["send_to", hd, [d, port], tag])
        if rng.random() < 0.5:
            script += [["pump"], ["recv_all"]]
    script += [["pump"], ["recv_all"]]
    conns = []
    for h in range(3):
        for d in ["0.0.0.0", "127.0.0.2", "10.9.9.9", "10.0.1.255", "::", "::ffff:10.0.0.1", "fd00::99", hosts[(h + 1) % 3][0]]:
            port = rng.choice([P, P + 1])
            script += [["connect", h, [d, port]], ["pump"], ["poll", nh]]
            conns.append(nh)
            nh += 1
    for l in listeners:
        script += [["accept", l], ["accept", l]]
        nh += 2
    script += [["pump"], ["recv_all"]]
    return {"mode": "net", "cfg": {"hosts": hosts}, "script": script, "flavour": "dst-classes"}


def gen_alloc(rng):
    lo = rng.choice([1, 10, 1000, 49152, 65530])
    size = rng.randrange(1, 7)
    hi = min(65535, lo + size - 1)
    ports = list(range(lo, hi + 1))
    steps = []
    for _ in range(rng.randrange(2, 12)):
        k = rng.choice([0, 1, len(ports) // 2, len(ports) - 1, len(ports)])
        steps.append(sorted(rng.sample(ports, max(0, min(len(ports), k)))))
    return {"mode": "alloc", "cfg": {"lo": lo, "hi": hi}, "script": steps, "flavour": "alloc"}


def gen_alloc_exhaustive():
    """ranges of size 1..3, every sequence of two in-use sets, then one unconstrained allocation"""
    out = []
    for size in (1, 2, 3):
        lo = 10
        ports = list(range(lo, lo + size))
        subsets = [[p for i, p in enumerate(ports) if m >> i & 1] for m in range(1 << size)]
        for a in subsets:
            for b in subsets:
                out.append({"mode": "alloc", "cfg": {"lo": lo, "hi": lo + size - 1}, "script": [a, b, [], a], "flavour": "alloc-exhaustive"})
    return out


def gen_wrap(rng):
    """binds to port 0 around the end of the ephemeral range with ports squatted at several addresses"""
    hosts = [["10.0.0.1", "10.0.0.2"], ["10.0.1.1"]]
    script = []
    for p in rng.sample([65533, 65534, 65535, 49152, 49153], rng.randrange(0, 4)):
        script.append([rng.choice(["bind_udp", "listen"]), 0, rng.choice(["10.0.0.1", "10.0.0.2", "127.0.0.1", "0.0.0.0"]), p])
    script.append(["set_cursor", 0, rng.choice([65533, 65534, 65535])])
    for _ in range(rng.randrange(3, 9)):
        r = rng.random()
        if r < 0.6:
            script.append([rng.choice(["bind_udp", "listen"]), 0, rng.choice(["10.0.0.1", "127.0.0.1", "0.0.0.0", "10.0.0.2"]), 0])
        elif r < 0.8:
            script.append(["connect", 0, ["10.0.1.1", 9]])
        else:
            nh = sum(1 for c in script if c[0] in CREATORS)
            if nh:
                script.append(["close", rng.randrange(nh)])
    return {"mode": "net", "cfg": {"hosts": hosts}, "script": script, "flavour": "wrap"}


def case_signature(case):
    return json.dumps([case["mode"], case["cfg"], case["script"]], sort_keys=True)


def histogram(cases):
    h = {"cases": len(cases), "flavours": {}, "commands": {}, "hosts": {}, "bind_addr_kinds": {}, "raw_tcp_kinds": {}}
    for c in cases:
        f = c.get("flavour", c["mode"])
        h["flavours"][f] = h["flavours"].get(f, 0) + 1
        if c["mode"] != "net":
            continue
        nh = str(len(c["cfg"]["hosts"]))
        h["hosts"][nh] = h["hosts"].get(nh, 0) + 1
        for cmd in c["script"]:
            h["commands"][cmd[0]] = h["commands"].get(cmd[0], 0) + 1
            if cmd[0] in ("bind_udp", "listen"):
                a = ipaddress.ip_address(cmd[2])
                k = ("wildcard" if a.is_unspecified else "loopback" if a.is_loopback else "concrete") + str(a.version) + (":0" if cmd[3] == 0 else "")
                h["bind_addr_kinds"][k] = h["bind_addr_kinds"].get(k, 0) + 1
            if cmd[0] == "raw_tcp":
                h["raw_tcp_kinds"][cmd[1]] = h["raw_tcp_kinds"].get(cmd[1], 0) + 1
    return h
