"""Common machinery of the /verif checks (python3 stdlib only).

A property module (gen/props/Cxx.py) exposes `SPEC` (a PropSpec) and the
driver in `check` runs the fixed pipeline of DESIGN.md section 1:
translate -> prove -> build harness -> correspond -> oracle -> classify ->
evidence.
"""
import ast
import hashlib
import json
import os
import random
import re
import shutil
import subprocess
import sys
import time
from concurrent.futures import ThreadPoolExecutor
from pathlib import Path

VERIF = Path(__file__).resolve().parent.parent
REPO = Path(os.environ.get("VERIF_REPO", "/repo"))
COQ = VERIF / "coq"
CACHE = VERIF / ".cache"
WORK = CACHE / "work"
TARGET = CACHE / "target"
NPROC = int(os.environ.get("VERIF_JOBS", "16"))

FORBIDDEN = re.compile(
    r"\b(Admitted|admit|Axiom|Axioms|Parameter|Parameters|Conjecture|Conjectures|"
    r"Admit Obligations|Unset Guard Checking|Unset Positivity Checking|Unset Universe Checking|"
    r"bypass_check|type-in-type|impredicative-set|Hypothesis|Hypotheses|Variable|Variables)\b"
)
# Variable/Hypothesis are allowed inside a Section only; checked separately.
SECTION_ONLY = {"Hypothesis", "Hypotheses", "Variable", "Variables"}

# Axioms of the standard library that a proof may depend on (named in DESIGN
# section 8 when actually used).  Anything else reported by Print Assumptions
# breaks the obligation.
AXIOM_ALLOW = {
    "functional_extensionality_dep",
    "FunctionalExtensionality.functional_extensionality_dep",
    "Eqdep.Eq_rect_eq.eq_rect_eq",
    "eq_rect_eq",
    "proof_irrelevance",
    "classic",
    "JMeq_eq",
    "propositional_extensionality",
}


def sh(cmd, timeout=600, cwd=None, env=None, inp=None):
    """Run a shell command; return (rc, stdout+stderr)."""
    e = dict(os.environ)
    e.setdefault("CARGO_NET_OFFLINE", "true")
    if env:
        e.update(env)
    try:
        p = subprocess.run(
            cmd, shell=isinstance(cmd, str), cwd=cwd, env=e, input=inp,
            stdout=subprocess.PIPE, stderr=subprocess.STDOUT, timeout=timeout, text=True,
        )
        return p.returncode, p.stdout
    except subprocess.TimeoutExpired as ex:
        out = ex.stdout or ""
        if isinstance(out, bytes):
            out = out.decode(errors="replace")
        return 124, out + "\n[timeout after %ss]" % timeout


# ---------------------------------------------------------------------------
# translator: constants and fingerprints, regenerated from /repo on every run


def _fn_body(src, name):
    """Text of `fn name` (first occurrence) by brace matching; None if absent."""
    m = re.search(r"\bfn\s+" + re.escape(name) + r"\b", src)
    if not m:
        return None
    i = src.find("{", m.end())
    if i < 0:
        return None
    depth, j = 0, i
    while j < len(src):
        c = src[j]
        if c == "{":
            depth += 1
        elif c == "}":
            depth -= 1
            if depth == 0:
                return src[m.start(): j + 1]
        j += 1
    return None


def _tokens(text):
    text = re.sub(r"//[^\n]*", "", text)
    text = re.sub(r"/\*.*?\*/", "", text, flags=re.S)
    # hook lines do not change the fingerprint
    text = re.sub(r'#\[cfg\(feature = "verif-hooks"\)\]\s*[^;{]*(;|\{[^}]*\})', "", text)
    return re.findall(r"[A-Za-z_][A-Za-z_0-9]*|\d+|\S", text)


def fingerprints(anchors):
    """anchors: list of (relative file, fn name) -> {"file::fn": sha1 of token stream}."""
    out = {}
    for rel, fn in anchors:
        p = REPO / rel
        key = "%s::%s" % (rel, fn)
        if not p.exists():
            out[key] = "missing-file"
            continue
        body = _fn_body(p.read_text(), fn)
        out[key] = (
            hashlib.sha1(" ".join(_tokens(body)).encode()).hexdigest()[:16] if body else "missing-fn"
        )
    return out


def fingerprint_delta(subsys, fps):
    base_p = VERIF / "gen" / "fp_baseline.json"
    base = json.loads(base_p.read_text()) if base_p.exists() else {}
    changed = [k for k, v in fps.items() if base.get(subsys, {}).get(k) not in (None, v)]
    new = [k for k in fps if k not in base.get(subsys, {})]
    return changed, new


def write_if_changed(path, text):
    path = Path(path)
    if path.exists() and path.read_text() == text:
        return False
    path.parent.mkdir(parents=True, exist_ok=True)
    tmp = path.with_suffix(path.suffix + ".tmp%d" % os.getpid())
    tmp.write_text(text)
    os.replace(tmp, path)
    return True


def enum_variants(rel, enum_name):
    """Variant names of a Rust enum, in source order (None if the enum is not found)."""
    p = REPO / rel
    if not p.exists():
        return None
    m = re.search(r"\benum\s+%s\b[^{]*\{(.*?)\n\}" % re.escape(enum_name), p.read_text(), flags=re.S)
    if not m:
        return None
    body = re.sub(r"//[^\n]*", "", m.group(1))
    body = re.sub(r"#\[[^\]]*\]", "", body)
    out = []
    depth = 0
    for tok in re.finditer(r"[A-Za-z_][A-Za-z_0-9]*|[{}(),]", body):
        t = tok.group(0)
        if t in "{(":
            depth += 1
        elif t in "})":
            depth -= 1
        elif depth == 0 and t != "," and (not out or out[-1][1]):
            out.append([t, False])
        if t == "," and depth == 0 and out:
            out[-1][1] = True
    return [x[0] for x in out]


def translate_consts(subsys, consts):
    """consts: list of (coq_name, relative file, regex with one group, kind) where
    kind is 'N' (integer literal, underscores allowed) ; writes coq/<subsys>/Gen.v.
    Returns (dict name->value, list of errors)."""
    vals, errs = {}, []
    lines = [
        "(* GENERATED by gen/vlib.py translate_consts from %s's working tree -- do not edit. *)" % REPO,
        "From Coq Require Import NArith List.",
        "Import ListNotations.",
        "Open Scope N_scope.",
    ]
    for name, rel, rx, kind in consts:
        if kind == "enum":
            vs = enum_variants(rel, rx)
            if vs is None:
                errs.append("enum %s not found in %s" % (rx, rel))
                continue
            vals[name] = vs
            lines.append("Definition %s : list (list N) := [%s]." % (name, "; ".join(
                "[" + "; ".join(str(ord(c)) for c in v) + "]" for v in vs)))
            continue
        p = REPO / rel
        m = re.search(rx, p.read_text(), flags=re.S) if p.exists() else None
        if not m:
            errs.append("constant %s: pattern not found in %s" % (name, rel))
            continue
        raw = m.group(1).replace("_", "")
        try:
            v = int(float(raw)) if kind == "Nf" else int(raw, 0)
        except ValueError:
            errs.append("constant %s: cannot parse %r" % (name, raw))
            continue
        vals[name] = v
        lines.append("Definition %s : N := %d." % (name, v))
    write_if_changed(COQ / subsys / "Gen.v", "\n".join(lines) + "\n")
    return vals, errs


# ---------------------------------------------------------------------------
# Coq


def coq_project_args(subsys):
    args = []
    for ln in (COQ / subsys / "_CoqProject").read_text().splitlines():
        if ln.startswith("-Q") or ln.startswith("-R"):
            args.append(ln.strip())
    return " ".join(args)


class dir_lock:
    """Exclusive lock per Coq directory: two checks of one subsystem may run at the same time
    (each one builds with make and re-compiles its property file in place)."""

    def __init__(self, subsys):
        import fcntl
        self.fcntl = fcntl
        (VERIF / ".cache").mkdir(exist_ok=True)
        self.path = VERIF / ".cache" / ("coq-%s.lock" % subsys)

    def __enter__(self):
        self.f = open(self.path, "w")
        self.fcntl.flock(self.f, self.fcntl.LOCK_EX)
        return self

    def __exit__(self, *a):
        self.fcntl.flock(self.f, self.fcntl.LOCK_UN)
        self.f.close()
        return False


def coq_make(subsys, targets=None, timeout=1500):
    """Full .vo build of coq/<subsys> (or of the given .vo targets)."""
    with dir_lock(subsys):
        return _coq_make(subsys, targets, timeout)


def _coq_make(subsys, targets=None, timeout=1500):
    d = COQ / subsys
    mk = d / "Makefile"
    if not mk.exists() or mk.stat().st_mtime < (d / "_CoqProject").stat().st_mtime:
        rc, out = sh("coq_makefile -f _CoqProject -o Makefile", cwd=d, timeout=60)
        if rc != 0:
            return False, out
    tg = " ".join(targets) if targets else ""
    rc, out = sh("make -j%d %s" % (NPROC, tg), cwd=d, timeout=timeout)
    out = "\n".join(l for l in out.splitlines() if "not a subdirectory" not in l and l.strip() != "")
    return rc == 0, out


def coq_deps_dirs(subsys):
    """Other coq/<dir>s referenced by -Q ../X in this subsystem's _CoqProject."""
    ds = []
    for ln in (COQ / subsys / "_CoqProject").read_text().splitlines():
        m = re.match(r"-[QR]\s+\.\./(\S+)\s", ln)
        if m:
            ds.append(m.group(1))
    return ds


def coq_build(subsys, targets=None, timeout=1500):
    logs = []
    for dep in coq_deps_dirs(subsys):
        ok, out = coq_make(dep, None, timeout)
        logs.append(out)
        if not ok:
            return False, "\n".join(logs)
    ok, out = coq_make(subsys, targets, timeout)
    logs.append(out)
    return ok, "\n".join(logs)


def coq_props(subsys, props_file, theorems, timeout=600):
    """Re-compile the property file unconditionally and check, for every
    theorem, that Print Assumptions reports nothing outside AXIOM_ALLOW.
    Returns (results: {theorem: 'closed' | [axioms] | 'missing'}, raw output, ok)."""
    d = COQ / subsys
    with dir_lock(subsys):
        rc, out = sh("coqc %s %s" % (coq_project_args(subsys), props_file), cwd=d, timeout=timeout)
    res = {}
    if rc != 0:
        return {t: "missing" for t in theorems}, out, False
    src = (d / props_file).read_text()
    order = re.findall(r"^Print Assumptions\s+([A-Za-z_0-9']+)\s*\.", src, flags=re.M)
    # split output into assumption blocks, in order
    blocks, cur = [], None
    for ln in out.splitlines():
        if ln.startswith("Closed under the global context"):
            blocks.append([])
            cur = None
        elif ln.startswith("Axioms:"):
            cur = []
            blocks.append(cur)
        elif cur is not None and re.match(r"^[A-Za-z_][\w.']*\s*:", ln):
            cur.append(ln.split(":")[0].strip())
        elif cur is not None and not ln.startswith(" "):
            cur = None
    ok = len(blocks) == len(order)
    for i, t in enumerate(order):
        if i < len(blocks):
            res[t] = "closed" if not blocks[i] else blocks[i]
    for t in theorems:
        if t not in res:
            res[t] = "missing"
            ok = False
        elif res[t] != "closed":
            bad = [a for a in res[t] if a not in AXIOM_ALLOW and a.split(".")[-1] not in AXIOM_ALLOW]
            if bad:
                ok = False
        # the theorem must be stated in the property file itself
        if not re.search(r"^(Theorem|Example|Lemma|Corollary)\s+%s\b" % re.escape(t), src, flags=re.M):
            res[t] = "missing"
            ok = False
    return res, out, ok


def coq_chk(subsys, props_file, timeout=1500):
    """Independent re-check of the compiled property file and everything it depends on
    (thorough tier). Returns (ok, summary dict, raw tail)."""
    d = COQ / subsys
    logical = None
    for ln in (d / "_CoqProject").read_text().splitlines():
        m = re.match(r"-[QR]\s+\.\s+(\S+)", ln)
        if m:
            logical = m.group(1)
    mod = "%s.%s" % (logical, props_file[:-2])
    rc, out = sh("coqchk -silent -o %s %s" % (coq_project_args(subsys), mod), cwd=d, timeout=timeout)
    summ = {}
    for key in ("Axioms", "Constants/Inductives relying on type-in-type",
                "Constants/Inductives relying on unsafe (co)fixpoints", "Inductives whose positivity is assumed"):
        m = re.search(r"\* %s:\s*(.*?)\n\s*\n" % re.escape(key), out, flags=re.S)
        summ[key] = " ".join(m.group(1).split()) if m else "?"
    axioms = summ.get("Axioms", "?")
    ok = rc == 0 and all(v == "<none>" for k, v in summ.items() if k != "Axioms")
    if axioms not in ("<none>",):
        names = re.findall(r"([A-Za-z_][\w.']*)\s*$|([A-Za-z_][\w.']*)\s", axioms)
        flat = [a or b for a, b in names]
        bad = [a for a in flat if a.split(".")[-1] not in AXIOM_ALLOW and a not in AXIOM_ALLOW]
        ok = ok and not bad
    return ok, summ, out[-1500:]


def grep_forbidden(dirs):
    """Scan .v files for forbidden vernacular. Returns list of 'file:line: text'."""
    hits = []
    for d in dirs:
        for p in sorted((COQ / d).glob("*.v")):
            if p.name.startswith("Zgoal_") or p.name.startswith("cases_"):
                continue
            depth = 0
            txt = re.sub(r"\(\*.*?\*\)", lambda m: "\n" * m.group(0).count("\n"), p.read_text(), flags=re.S)
            for n, ln in enumerate(txt.splitlines(), 1):
                if re.match(r"\s*Section\b", ln):
                    depth += 1
                if re.match(r"\s*End\b", ln) and depth > 0:
                    depth -= 1
                for m in FORBIDDEN.finditer(ln):
                    w = m.group(1)
                    if w in SECTION_ONLY and depth > 0:
                        continue
                    hits.append("%s:%d: %s" % (p.relative_to(VERIF), n, ln.strip()[:100]))
    return hits


def _coq_to_py(text):
    t = re.sub(r"%[A-Za-z_]+", "", text)
    t = t.replace(";", ",")
    t = re.sub(r"\btrue\b", "True", t)
    t = re.sub(r"\bfalse\b", "False", t)
    t = re.sub(r"\bNone\b", "None", t)
    t = re.sub(r"\bSome\s+", "", t)
    return ast.literal_eval(t.strip())


def coq_eval(subsys, header, terms, tag="cases", timeout=900, per_file=400):
    """Evaluate Coq terms with vm_compute, sharded over NPROC coqc processes.
    `header` is the Require/Import text; terms are Coq expressions whose values
    consist of N/Z/bool/list/tuple/option only.  Returns list of python values
    (or ('error', text) entries)."""
    d = COQ / subsys
    WORK.mkdir(parents=True, exist_ok=True)
    wd = WORK / ("%s_%s_%d" % (subsys, tag, os.getpid()))
    if wd.exists():
        shutil.rmtree(wd)
    wd.mkdir(parents=True)
    nsh = max(1, min(NPROC, (len(terms) + 49) // 50))
    size = max(1, min(per_file, (len(terms) + nsh - 1) // nsh))
    shards = [list(range(i, min(i + size, len(terms)))) for i in range(0, len(terms), size)]
    qargs = []
    for ln in (d / "_CoqProject").read_text().splitlines():
        m = re.match(r"(-[QR])\s+(\S+)\s+(\S+)", ln)
        if m:
            qargs.append("%s %s %s" % (m.group(1), (d / m.group(2)).resolve(), m.group(3)))
    qargs = " ".join(qargs)

    def run_shard(k):
        idxs = shards[k]
        f = wd / ("cases_%d.v" % k)
        body = [header, "Set Printing Width 100000000.", "Set Printing Depth 100000000."]
        for i in idxs:
            body.append("Eval vm_compute in (%d%%N, %s)." % (i, terms[i]))
        f.write_text("\n".join(body) + "\n")
        rc, out = sh("coqc -noglob %s %s" % (qargs, f.name), cwd=wd, timeout=timeout)
        return rc, out

    results = [("error", "not evaluated")] * len(terms)
    with ThreadPoolExecutor(max_workers=NPROC) as ex:
        for k, (rc, out) in enumerate(ex.map(run_shard, range(len(shards)))):
            if rc != 0:
                for i in shards[k]:
                    results[i] = ("error", out[-2000:])
                continue
            chunks = re.split(r"^\s*= ", out, flags=re.M)[1:]
            for ch in chunks:
                val = re.split(r"\n\s*: ", ch)[0]
                try:
                    i, v = _coq_to_py(val)
                    results[i] = v
                except Exception as e:  # noqa
                    pass
    shutil.rmtree(wd, ignore_errors=True)
    return results


# ---------------------------------------------------------------------------
# harness


def harness_build(bins, timeout=1500):
    h = VERIF / "harness"
    lock_src = REPO / "Cargo.lock"
    lock = h / "Cargo.lock"
    if not lock.exists():
        shutil.copy(lock_src, lock)
    TARGET.mkdir(parents=True, exist_ok=True)
    cmd = "cargo build --offline " + " ".join("--bin " + b for b in bins)
    env = {"CARGO_TARGET_DIR": str(TARGET)}
    rc, out = sh(cmd, cwd=h, timeout=timeout, env=env)
    if rc != 0 and "lock file" in out:
        shutil.copy(lock_src, lock)
        rc, out = sh(cmd, cwd=h, timeout=timeout, env=env)
    return rc == 0, out


def harness_run(binname, cases, timeout=900, shards=None):
    """Run cases (list of dicts with 'id') through a family binary, in parallel."""
    exe = TARGET / "debug" / binname
    n = shards or max(1, min(NPROC, len(cases)))
    parts = [cases[i::n] for i in range(n)]

    def run_part(part):
        if not part:
            return 0, ""
        inp = "\n".join(json.dumps(c) for c in part) + "\n"
        return sh([str(exe)], inp=inp, timeout=timeout)

    res = {}
    errs = []
    with ThreadPoolExecutor(max_workers=n) as ex:
        for part, (rc, out) in zip(parts, ex.map(run_part, parts)):
            for ln in out.splitlines():
                if ln.startswith("{"):
                    try:
                        o = json.loads(ln)
                        res[o["id"]] = o
                    except ValueError:
                        errs.append(ln[:200])
            if rc != 0:
                errs.append("harness %s exited %s: %s" % (binname, rc, out[-500:]))
    return res, errs


# ---------------------------------------------------------------------------
# evidence, findings, violations


class Ctx:
    def __init__(self, pid, tier, seed):
        self.pid, self.tier, self.seed = pid, tier, seed
        self.t0 = time.time()
        self.rng = random.Random((seed * 1000003) ^ int(hashlib.sha1(pid.encode()).hexdigest()[:8], 16))
        self.obligations = {}      # theorem -> status
        self.cov = {}
        self.assumptions = []
        self.violations = []       # (replay dict, no_input flag)
        self.known_hits = []
        self.log = []

    def note(self, msg):
        self.log.append(msg)
        print("[%s %6.1fs] %s" % (self.pid, time.time() - self.t0, msg), flush=True)


def load_known():
    p = VERIF / "known_findings.txt"
    out = []
    if p.exists():
        for ln in p.read_text().splitlines():
            ln = ln.strip()
            if ln.startswith("finding:"):
                kv = dict(re.findall(r"(\w+)=(\S+)", ln))
                kv["text"] = ln
                out.append(kv)
    return out


def write_replay(ctx, name, obj):
    d = VERIF / "replays"
    d.mkdir(exist_ok=True)
    p = d / ("%s-%s-%d.json" % (ctx.pid, name, ctx.seed))
    p.write_text(json.dumps(obj, indent=1, sort_keys=True) + "\n")
    return p


def write_evidence(ctx, level="proof"):
    cov = dict(ctx.cov)
    obl = ctx.obligations
    cov["obligations"] = len(obl)
    cov["discharged"] = sum(1 for v in obl.values() if v == "closed" or isinstance(v, list) and v != [] and all(
        a in AXIOM_ALLOW or a.split(".")[-1] in AXIOM_ALLOW for a in v))
    cov["obligation_status"] = {k: (v if isinstance(v, str) else "axioms:" + ",".join(v)) for k, v in obl.items()}
    cov.setdefault("checker_cmd", "coqc (Coq 8.16.1) full .vo build via coq_makefile + make; property file re-compiled with Print Assumptions")
    cov.setdefault("trusted_base", [])
    cov.setdefault("evaluations", 0)
    cov.setdefault("distinct_nontrivial", 0)
    cov.setdefault("samples", [])
    ev = {
        "property_id": ctx.pid,
        "tier": ctx.tier,
        "seed": ctx.seed,
        "level": level,
        "coverage": cov,
        "assumptions": ctx.assumptions,
        "wall_s": round(time.time() - ctx.t0, 2),
        "violations": len(ctx.violations),
        "known_findings_hit": ctx.known_hits,
    }
    d = VERIF / "evidence"
    d.mkdir(exist_ok=True)
    (d / ("%s.json" % ctx.pid)).write_text(json.dumps(ev, indent=1, sort_keys=True) + "\n")


TRUSTED_BASE_COMMON = [
    "Coq 8.16.1 kernel and its VM (vm_compute); no native_compute",
    "no axioms declared; Print Assumptions of every property theorem must be 'Closed under the global context' or only stdlib axioms on the allowlist",
    "hand-written Gallina model tied to /repo by the correspondence check (Rust harness linking /repo's crates by path vs vm_compute of the model on the same scripts)",
    "gen/vlib.py (build driver, translator of constants/fingerprints), the per-family generators, python oracles, Rust harness, verif-hooks in /repo",
]


def finish(ctx):
    """Print KNOWN-FINDING / VIOLATION lines, write evidence, return exit code."""
    for k in ctx.known_hits:
        print("KNOWN-FINDING: property=%s %s" % (ctx.pid, k))
    rc = 0
    for name, obj, no_input in ctx.violations:
        p = write_replay(ctx, name, obj)
        print("VIOLATION property=%s replay=%s%s" % (ctx.pid, p, " no-failing-input-found" if no_input else ""))
        rc = 1
    write_evidence(ctx)
    return rc


def shrink(case_steps, still_fails, max_rounds=200):
    """Greedy delta debugging over a list; `still_fails(list)` -> bool."""
    cur = list(case_steps)
    n = 2
    rounds = 0
    while len(cur) >= 2 and rounds < max_rounds:
        chunk = max(1, len(cur) // n)
        reduced = False
        for i in range(0, len(cur), chunk):
            cand = cur[:i] + cur[i + chunk:]
            rounds += 1
            if cand and still_fails(cand):
                cur = cand
                n = max(n - 1, 2)
                reduced = True
                break
        if not reduced:
            if chunk == 1:
                break
            n = min(len(cur), n * 2)
    return cur
