"""Family `fs`: operation histories for the real turmoil-fs crate (harness bin
`fs`), an independent python POSIX file tree (the oracle of C10, and with
`Durable` below the oracle of C07), the history classes, and the rendering of a
case as a TV.Fs model term.  Serves C10 and C07."""
import json

# ---------------------------------------------------------------------------
# paths

UNIVERSE = ["/", "/a", "/b", "/d", "/d/a", "/d/b", "/d/e", "/d/e/a", "/g", "/g/a"]
NAMES = {"a": 1, "b": 2, "c": 3, "d": 4, "e": 5, "g": 6}


def comps(path):
    return [c for c in path.split("/") if c]


def parent(path):
    c = comps(path)
    return None if not c else "/" + "/".join(c[:-1])


def is_prefix(a, b):
    """a is a proper ancestor of b"""
    ca, cb = comps(a), comps(b)
    return len(ca) < len(cb) and cb[:len(ca)] == ca


# ---------------------------------------------------------------------------
# the POSIX tree (names -> Dir | inode; inode -> bytes; handle -> inode)

ENOENT, EEXIST, ENOTEMPTY, EISDIR, ENOTDIR, EBADF, EINVAL = (
    "ENOENT", "EEXIST", "ENOTEMPTY", "EISDIR", "ENOTDIR", "EBADF", "EINVAL")


class Err(Exception):
    def __init__(self, code):
        self.code = code


class Posix:
    """Plain in-memory POSIX file tree for one host."""

    def __init__(self):
        self.root = {}            # name -> dict (dir) | int (inode number)
        self.data = {}            # inode -> bytearray
        self.next_ino = 1
        self.handles = {}         # slot -> dict(ino, r, w, a, pos)

    # -- lookup
    def _dir(self, cs):
        d = self.root
        for c in cs:
            n = d.get(c)
            if n is None:
                raise Err(ENOENT)
            if not isinstance(n, dict):
                raise Err(ENOTDIR)
            d = n
        return d

    def lookup(self, path):
        """-> ("dir", dict) | ("file", ino) | None ; raises on bad prefix"""
        cs = comps(path)
        if not cs:
            return ("dir", self.root)
        d = self._dir(cs[:-1])
        n = d.get(cs[-1])
        if n is None:
            return None
        return ("dir", n) if isinstance(n, dict) else ("file", n)

    def kind(self, path):
        try:
            r = self.lookup(path)
        except Err:
            return None
        return r[0] if r else None

    # -- path operations
    def mkdir(self, path):
        cs = comps(path)
        if not cs:
            raise Err(EEXIST)
        d = self._dir(cs[:-1])
        if cs[-1] in d:
            raise Err(EEXIST)
        d[cs[-1]] = {}

    def mkdir_all(self, path):
        d = self.root
        for c in comps(path):
            n = d.get(c)
            if n is None:
                n = d[c] = {}
            elif not isinstance(n, dict):
                raise Err(EEXIST)
            d = n

    def rmdir(self, path):
        cs = comps(path)
        if not cs:
            raise Err(EINVAL)
        d = self._dir(cs[:-1])
        n = d.get(cs[-1])
        if n is None:
            raise Err(ENOENT)
        if not isinstance(n, dict):
            raise Err(ENOTDIR)
        if n:
            raise Err(ENOTEMPTY)
        del d[cs[-1]]

    def rmdir_all(self, path):
        cs = comps(path)
        if not cs:
            raise Err(EINVAL)
        d = self._dir(cs[:-1])
        n = d.get(cs[-1])
        if n is None:
            raise Err(ENOENT)
        if not isinstance(n, dict):
            raise Err(ENOTDIR)
        del d[cs[-1]]

    def unlink(self, path):
        cs = comps(path)
        if not cs:
            raise Err(EISDIR)
        d = self._dir(cs[:-1])
        n = d.get(cs[-1])
        if n is None:
            raise Err(ENOENT)
        if isinstance(n, dict):
            raise Err(EISDIR)
        del d[cs[-1]]

    def rename(self, src, dst):
        cs, cd = comps(src), comps(dst)
        if not cs or not cd:
            raise Err(EINVAL)
        ds = self._dir(cs[:-1])
        n = ds.get(cs[-1])
        if n is None:
            raise Err(ENOENT)
        dd = self._dir(cd[:-1])
        m = dd.get(cd[-1])
        if isinstance(n, dict):
            if is_prefix(src, dst):
                raise Err(EINVAL)
            if m is not None:
                if not isinstance(m, dict):
                    raise Err(ENOTDIR)
                if m is n:
                    return
                if m:
                    raise Err(ENOTEMPTY)
        else:
            if isinstance(m, dict):
                raise Err(EISDIR)
            if m is not None and src == dst:
                return
        del ds[cs[-1]]
        dd[cd[-1]] = n

    # -- handles
    @staticmethod
    def open_mode(flags):
        """std::fs::OpenOptions validation -> (readable, writable, append, create, excl, trunc)"""
        r, w, a = "r" in flags, "w" in flags, "a" in flags
        t, c, n = "t" in flags, "c" in flags, "n" in flags
        if not (r or w or a):
            raise Err(EINVAL)
        if not w and not a:
            if t or c or n:
                raise Err(EINVAL)
        if a and t and not n:
            raise Err(EINVAL)
        if n:
            return r, (w or a), a, True, True, False
        return r, (w or a), a, c, False, t

    def open(self, slot, path, flags):
        self.handles.pop(slot, None)
        r, w, a, create, excl, trunc = self.open_mode(flags)
        cs = comps(path)
        if not cs:
            raise Err(EISDIR)
        d = self._dir(cs[:-1])
        n = d.get(cs[-1])
        if isinstance(n, dict):
            raise Err(EISDIR)
        if n is not None and excl:
            raise Err(EEXIST)
        if n is None:
            if not create:
                raise Err(ENOENT)
            n = self.next_ino
            self.next_ino += 1
            self.data[n] = bytearray()
            d[cs[-1]] = n
        if trunc:
            del self.data[n][:]
        self.handles[slot] = {"ino": n, "r": r, "w": w, "a": a, "pos": 0}

    def h(self, slot):
        return self.handles.get(slot)

    def pwrite(self, ino, off, data):
        if not data:
            return
        b = self.data[ino]
        if len(b) < off:
            b.extend(bytes(off - len(b)))
        b[off:off + len(data)] = bytes(data)

    def write_at(self, slot, off, data):
        h = self.handles[slot]
        if not h["w"]:
            raise Err(EBADF)
        self.pwrite(h["ino"], off, data)
        return len(data)

    def read_at(self, slot, off, n):
        h = self.handles[slot]
        if not h["r"]:
            raise Err(EBADF)
        return list(self.data[h["ino"]][off:off + n])

    def write(self, slot, data):
        h = self.handles[slot]
        if not h["w"]:
            raise Err(EBADF)
        off = len(self.data[h["ino"]]) if h["a"] else h["pos"]
        self.pwrite(h["ino"], off, data)
        h["pos"] = off + len(data)
        return len(data)

    def read(self, slot, n):
        h = self.handles[slot]
        if not h["r"]:
            raise Err(EBADF)
        out = list(self.data[h["ino"]][h["pos"]:h["pos"] + n])
        h["pos"] += len(out)
        return out

    def seek(self, slot, whence, off):
        h = self.handles[slot]
        base = 0 if whence == 0 else h["pos"] if whence == 1 else len(self.data[h["ino"]])
        if base + off < 0:
            raise Err(EINVAL)
        h["pos"] = base + off
        return h["pos"]

    def set_len(self, slot, n):
        h = self.handles[slot]
        if not h["w"]:
            raise Err(EBADF)
        b = self.data[h["ino"]]
        if n <= len(b):
            del b[n:]
        else:
            b.extend(bytes(n - len(b)))

    def flen(self, slot):
        return len(self.data[self.handles[slot]["ino"]])

    # -- whole-path conveniences
    def slurp(self, path):
        r = self.lookup(path)
        if r is None:
            raise Err(ENOENT)
        if r[0] == "dir":
            raise Err(EISDIR)
        return list(self.data[r[1]])

    def spit(self, path, data):
        self.open("__spit", path, "wct")
        self.pwrite(self.handles["__spit"]["ino"], 0, data)
        del self.handles["__spit"]

    def stat(self, path):
        r = self.lookup(path)
        if r is None:
            raise Err(ENOENT)
        return ["dir"] if r[0] == "dir" else ["file", len(self.data[r[1]])]

    def readdir(self, path):
        r = self.lookup(path)
        if r is None:
            raise Err(ENOENT)
        if r[0] != "dir":
            raise Err(ENOTDIR)
        return sorted(r[1].keys())

    def dump(self, universe):
        rows = []
        for p in universe:
            k = self.kind(p)
            if k == "dir":
                rows.append([p, "dir", self.readdir(p)])
            elif k == "file":
                rows.append([p, "file", self.slurp(p)])
            else:
                rows.append([p, "none", None])
        return rows


# what an implementation error is allowed to look like for each errno
ERR_CLASS = {
    ("NotFound", None): ENOENT, ("Other", "No such file or directory"): ENOENT,
    ("AlreadyExists", None): EEXIST, ("Other", "File exists"): EEXIST,
    ("Other", "Directory not empty"): ENOTEMPTY, ("Other", "Is a directory"): EISDIR,
    ("Other", "Not a directory"): ENOTDIR, ("PermissionDenied", None): EBADF,
    ("InvalidInput", None): EINVAL,
}
# a lookup through / of the wrong kind may be reported as plain "not found"
ERR_ACCEPT = {ENOTDIR: (ENOTDIR, ENOENT), EISDIR: (EISDIR, ENOENT)}


def impl_errno(o):
    return ERR_CLASS.get((o[1], o[2])) or ERR_CLASS.get((o[1], None)) or "E?%s" % o[1]


def spec_step(hosts, st):
    """Run one script step on the POSIX trees; returns the expected observation
    (same shape as the harness output, errors as ["err", errno])."""
    name = st[0].split("@")[0]
    if name == "tick":
        return ["ok"]
    fs = hosts[st[1]]
    try:
        if name == "open":
            fs.open(st[2], st[3], st[4].replace("k", ""))
            return ["ok"]
        if name == "close":
            return ["ok"] if fs.handles.pop(st[2], None) is not None else ["noslot"]
        if name in ("write_at", "read_at", "write", "read", "seek", "set_len", "sync_all", "sync_data", "flen"):
            if fs.h(st[2]) is None:
                return ["noslot"]
            if name == "write_at":
                return ["ok", fs.write_at(st[2], st[3], st[4])]
            if name == "read_at":
                return ["ok", fs.read_at(st[2], st[3], st[4])]
            if name == "write":
                return ["ok", fs.write(st[2], st[3])]
            if name == "read":
                return ["ok", fs.read(st[2], st[3])]
            if name == "seek":
                return ["ok", fs.seek(st[2], st[3], st[4])]
            if name == "set_len":
                fs.set_len(st[2], st[3])
                return ["ok"]
            if name == "flen":
                return ["ok", fs.flen(st[2])]
            return ["ok"]
        if name == "sync_dir":
            k = fs.lookup(st[2])
            if k is None:
                raise Err(ENOENT)
            if k[0] != "dir":
                raise Err(ENOTDIR)
            return ["ok"]
        if name in ("mkdir", "mkdir_all", "rmdir", "rmdir_all", "unlink"):
            getattr(fs, name)(st[2])
            return ["ok"]
        if name == "rename":
            fs.rename(st[2], st[3])
            return ["ok"]
        if name == "stat":
            return fs.stat(st[2])
        if name == "exists":
            return ["ok", fs.kind(st[2]) is not None]
        if name == "readdir":
            return ["ok", fs.readdir(st[2])]
        if name == "slurp":
            return ["ok", fs.slurp(st[2])]
        if name == "spit":
            fs.spit(st[2], st[3])
            return ["ok"]
        if name == "dump":
            return None
    except Err as e:
        return ["err", e.code]
    raise ValueError("unknown op %r" % (st,))


def obs_matches(exp, got):
    """expected (spec) vs implementation observation for one step -> None | text"""
    if exp[0] == "err":
        if got[0] != "err":
            return "expected error %s, implementation returned %s" % (exp[1], json.dumps(got))
        ie = impl_errno(got)
        if ie not in ERR_ACCEPT.get(exp[1], (exp[1],)):
            return "expected error %s, implementation error %s (%s: %s)" % (exp[1], ie, got[1], got[2])
        return None
    if got[0] == "err":
        return "expected %s, implementation failed with %s: %s" % (json.dumps(exp), got[1], got[2])
    if exp != got:
        return "expected %s, implementation returned %s" % (json.dumps(exp), json.dumps(got))
    return None


def dump_matches(exp, got):
    for e, g in zip(exp, got):
        gg = g[:3]
        if g[1] == "file" and isinstance(g[2], list) and len(g) > 4 and g[4] != len(g[2]):
            return "%s: metadata length %d but %d bytes read" % (g[0], g[4], len(g[2]))
        if e != gg:
            return "%s: expected %s, implementation shows %s" % (e[0], json.dumps(e[1:]), json.dumps(gg[1:]))
        if g[3] != (e[1] != "none"):
            return "%s: exists() = %s" % (e[0], g[3])
    return None


def posix_check(case, obs, stop_at_crash=True):
    """C10 oracle core: first deviation of the implementation from the POSIX
    tree -> (step index, text) or None.  Stops at the first crash."""
    n = case["cfg"].get("nhosts", 1)
    hosts = [Posix() for _ in range(n)]
    uni = case["cfg"].get("universe", UNIVERSE)
    for i, st in enumerate(case["steps"]):
        name = st[0].split("@")[0]
        if name == "crash":
            if stop_at_crash:
                return None
            continue
        got = obs["obs"][i]
        if name == "dump":
            d = dump_matches(hosts[st[1]].dump(uni), got)
            if d:
                return i, "step %d dump(host %d): %s" % (i, st[1], d)
            continue
        exp = spec_step(hosts, st)
        d = obs_matches(exp, got)
        if d:
            return i, "step %d %s: %s" % (i, json.dumps(st), d)
    return None


# ---------------------------------------------------------------------------
# history classes (decidable predicates over the history, evaluated with the
# POSIX tree as the reference state).  Each returns True when the history
# contains the pattern anywhere on a host.

class Ghost:
    """Per-host ghost state of the known-class predicates (mirrored literally by
    coq/Fs/FsKnown.v).  `classes` returns the known classes the step falls into,
    given the reference tree and durable shadow BEFORE the step; `update` moves
    the ghost, given the same plus whether the step succeeded."""

    def __init__(self):
        self.gone = set()        # paths at which a file was unlinked / renamed away since the last crash
        self.gdirs = set()       # paths at which a directory was removed since the last crash
        self.rtargets = set()    # new names of file renames since the last crash
        self.pren = []           # (ino, f, t): clean file renames not yet flushed by a sync_dir
        self.half = False        # a cross-directory rename was flushed on the destination side only
        self.stale = set()       # old names left marked durable by such a flush (survives crashes)
        self.leftover = set()    # names a file left (unlink / rename) while it had unsynced data, since the last crash
        self.unflushed = {}      # name a file left -> (its inode, other parent of the rename or None): removal not flushed yet
        self.recreated = {}      # such a name -> inode of the file created there meanwhile
        self.recr_ren = {}       # old / new name of an unflushed rename -> inode of a file created there meanwhile
        self.open_paths = {}     # slot -> path the handle was opened with

    def stale_handle(self, fs, slot):
        hd = fs.handles.get(slot)
        p = self.open_paths.get(slot)
        if hd is None or p is None:
            return False
        try:
            r = fs.lookup(p)
        except Err:
            r = None
        return r is None or r[0] != "file" or r[1] != hd["ino"]

    def leaves_bytes(self, dur, p):
        """a file created at p now would show bytes of the file that left p: its pending data
        operations, or its persisted contents while the removal is not flushed"""
        if p in self.leftover:
            return True
        u = self.unflushed.get(p)
        return u is not None and len(dur.ddata.get(u[0], b"")) > 0

    def under_rename(self, p):
        return any(p == f or p == t for _, f, t in self.pren)

    def classes(self, st, dur, dec=()):
        name = st[0].split("@")[0]
        fs = dur.fs
        out = []
        coin = any(d[0] == "coin" and d[1] for d in dec)
        if name == "crash":
            return out
        if self.half:
            out.append("RenameCrossDir")
        if name == "dump":
            return out
        if name in ("rmdir", "rmdir_all", "unlink", "rename", "open", "spit", "mkdir") and "/" in st[2:4]:
            out.append("RootOp")
        if name in ("write_at", "read_at", "write", "read", "seek", "set_len", "flen", "sync_all", "sync_data") \
                and self.stale_handle(fs, st[2]):
            out.append("StaleHandle")
        touched = None
        if name == "open":
            flags = st[4].replace("k", "")
            k = fs.kind(st[3])
            creat = "c" in flags or "n" in flags
            if k is None and creat and st[3] in self.gone:
                out.append("RecreateAny")
            truncating = False
            if "t" in flags and "w" in flags:
                try:
                    Posix.open_mode(flags)
                    truncating = "n" not in flags
                except Err:
                    pass
            if k is None and creat and self.leaves_bytes(dur, st[3]) and not (truncating and not dur.bs):
                out.append("Recreate")          # (a) (b): a truncating creation hides what the old file left (not from torn writes)
            if k is None and creat and self.under_rename(st[3]) and "t" in flags and "w" in flags:
                try:
                    Posix.open_mode(flags)
                    out.append("Recreate")
                except Err:
                    pass
            if k is None and creat and st[3] in self.gdirs:
                out.append("KindSwap")
            if k is None and creat and st[3] in self.stale:
                out.append("RenameCrossDir")
            if k == "file" and "t" in flags and "w" in flags and "n" not in flags:
                try:
                    Posix.open_mode(flags)
                    touched = fs.lookup(st[3])[1]
                except Err:
                    pass
        if name == "spit":
            k = fs.kind(st[2])
            if k is None and st[2] in self.gone:
                out.append("RecreateAny")
            if k is None and (self.under_rename(st[2]) or (dur.bs and self.leaves_bytes(dur, st[2]))):
                out.append("Recreate")
            if k is None and st[2] in self.unflushed and st[3] and coin:
                out.append("Recreate")
            if k is None and st[2] in self.unflushed and st[3] and dur.bs and dur.dent.get(st[2]) is not None:
                out.append("Recreate")          # (e) see below
            if k is None and st[2] in self.gdirs:
                out.append("KindSwap")
            if k is None and st[2] in self.stale:
                out.append("RenameCrossDir")
            if k == "file":
                touched = fs.lookup(st[2])[1]
        if name in ("write_at", "write", "set_len") and fs.h(st[2]) is not None and fs.h(st[2])["w"]:
            if name == "set_len" or (st[4] if name == "write_at" else st[3]):
                touched = fs.h(st[2])["ino"]
        if touched is not None and touched in self.recr_ren.values():
            out.append("Recreate")              # data of a file created at a name of an unflushed rename lands on the renamed file
        if touched is not None and any(r[0] == touched for r in self.pren):
            out.append("RenameFile")            # (e) written while its rename is not yet flushed
        synced_ino = None
        if name in ("sync_all", "sync_data") and fs.h(st[2]) is not None:
            synced_ino = fs.h(st[2])["ino"]
        if name in ("write_at", "write", "set_len") and coin and fs.h(st[2]) is not None and fs.h(st[2])["w"]:
            synced_ino = fs.h(st[2])["ino"]
        if name == "spit" and coin and st[3] and fs.kind(st[2]) == "file":
            synced_ino = fs.lookup(st[2])[1]
        if synced_ino is not None and synced_ino in self.recreated.values():
            out.append("Recreate")              # data sync of a re-created file whose predecessor's removal is not flushed
        written = None
        if name in ("write_at", "write") and fs.h(st[2]) is not None and fs.h(st[2])["w"] \
                and (st[4] if name == "write_at" else st[3]):
            written = fs.h(st[2])["ino"]
        if name == "spit" and st[3] and fs.kind(st[2]) == "file":
            written = fs.lookup(st[2])[1]
        if written is not None and dur.bs and any(j == written and dur.dent.get(x) is not None
                                                  for x, j in self.recreated.items()):
            out.append("Recreate")              # (e) with torn writes the write would land on the old durable file
        if name in ("sync_all", "sync_data") and fs.h(st[2]) is not None:
            for ino, f, t in self.pren:
                if ino == fs.h(st[2])["ino"] and (dur.dent.get(t) == "dir" or t in self.stale):
                    out.append("RenameFile")    # (e) synced through a new name that still carries another durable mark
        if name in ("rmdir", "rmdir_all") and any(is_prefix(st[2], r[2]) for r in self.pren):
            out.append("RenameFile")            # (f) the emptiness check does not see a file renamed into the directory
        if name == "sync_dir" and fs.kind(st[2]) == "dir":
            for ino, f, t in self.pren:
                pf, pt = parent(f), parent(t)
                if (st[2] == pf or st[2] == pt) and pf != pt:
                    if st[2] == pf:
                        out.append("RenameCrossDir")    # (g) old parent first: the new name can never become durable
                    elif dur.dent.get(f) != ino and not dur.persisted(ino):
                        out.append("RenameCrossDir")    # (h) no inode on disk yet: the flushed rename moves nothing
                    elif dur.dent.get(f) == ino and not (fs.kind(t) == "file" and fs.lookup(t)[1] == ino):
                        out.append("RenameCrossDir")    # (j) unlinked at the new name meanwhile: the old durable entry is lost too
                    elif dur.dent.get(f) == ino and fs.kind(f) == "file":
                        out.append("RenameCrossDir")    # (i) the stale mark lands on a file created at the old name meanwhile
        if name == "rename":
            k = fs.kind(st[2])
            if k == "file":
                ino = fs.lookup(st[2])[1]
                if st[2] == st[3]:
                    out.append("RenameSelf")
                elif self.rename_ok(fs, st[2], st[3]):
                    kd = fs.kind(st[3])
                    if (ino in dur.dirty or (kd == "file" and fs.lookup(st[3])[1] in dur.dirty)
                            or any(r[0] == ino and not (parent(r[1]) == parent(r[2]) == parent(st[3])) for r in self.pren)
                            or st[3] in self.gone or st[3] in self.rtargets):
                        out.append("RenameFile")        # (a) (b) (d) (c)
            elif k == "dir":
                out.append("RenameDir")
        if name == "mkdir" and fs.kind(st[2]) is None and st[2] in self.gone:
            out.append("KindSwap")
        if name == "mkdir_all" and fs.kind(st[2]) is None:
            cs = comps(st[2])
            for k2 in range(1, len(cs) + 1):
                q = "/" + "/".join(cs[:k2])
                if fs.kind(q) is None and q in self.gone:
                    out.append("KindSwap")
        return out

    @staticmethod
    def rename_ok(fs, f, t):
        import copy
        try:
            copy.deepcopy(fs).rename(f, t)
            return True
        except Err:
            return False

    def clean_rename(self, st, dur):
        """the step is a rename outside RenameFile / RenameSelf: it joins the pending renames"""
        fs = dur.fs
        if st[0].split("@")[0] != "rename" or fs.kind(st[2]) != "file" or st[2] == st[3]:
            return False
        return self.rename_ok(fs, st[2], st[3]) and "RenameFile" not in self.classes(st, dur)

    def update(self, st, dur):
        """ghost after the step (dur = state BEFORE the step)"""
        name = st[0].split("@")[0]
        fs = dur.fs
        if name == "crash":
            self.gone, self.gdirs, self.rtargets, self.pren, self.half = set(), set(), set(), [], False
            self.leftover, self.unflushed, self.recreated, self.recr_ren = set(), {}, {}, {}
            self.open_paths = {}
            return
        if name == "dump":
            return
        if name == "sync_dir" and fs.kind(st[2]) == "dir":
            keep = []
            for ino, f, t in self.pren:
                pf, pt = parent(f), parent(t)
                if st[2] != pf and st[2] != pt:
                    keep.append((ino, f, t))
                    continue
                self.recr_ren.pop(f, None)
                self.recr_ren.pop(t, None)
                if pf == pt or st[2] == pf:
                    pass
                elif dur.dent.get(f) == ino:
                    self.stale.add(f)           # (i) fine, except that the old name keeps its durable mark
                elif dur.persisted(ino):
                    self.half = True            # (h) until the next crash the old name is visible again
            self.pren = keep
            for q in [q for q, u in self.unflushed.items() if parent(q) == st[2] or u[1] == st[2]]:
                del self.unflushed[q]
                self.recreated.pop(q, None)
        if name == "rename" and fs.kind(st[2]) == "file":
            if self.clean_rename(st, dur):
                self.pren.append((fs.lookup(st[2])[1], st[2], st[3]))
            if self.rename_ok(fs, st[2], st[3]):
                self.gone.add(st[2])
                self.rtargets.add(st[3])
                ino = fs.lookup(st[2])[1]
                if ino in dur.dirty:
                    self.leftover.add(st[2])
                self.unflushed[st[2]] = (ino, parent(st[3]))
                self.recreated.pop(st[2], None)
        if name == "unlink" and fs.kind(st[2]) == "file":
            self.gone.add(st[2])
            ino = fs.lookup(st[2])[1]
            if ino in dur.dirty:
                self.leftover.add(st[2])
            self.unflushed[st[2]] = (ino, None)
            self.recreated.pop(st[2], None)
        if name in ("rmdir", "rmdir_all") and fs.kind(st[2]) == "dir":
            self.gdirs.add(st[2])
            if name == "rmdir_all":
                def walk(pth, node):
                    for nm, sub in node.items():
                        q = pth.rstrip("/") + "/" + nm
                        if isinstance(sub, dict):
                            self.gdirs.add(q)
                            walk(q, sub)
                        else:
                            self.gone.add(q)
                walk(st[2], fs.lookup(st[2])[1])

    def after_open(self, st, fs_after):
        name = st[0].split("@")[0]
        if name == "open" and fs_after.h(st[2]) is not None:
            self.open_paths[st[2]] = st[3]
        p = st[3] if name == "open" else st[2] if name == "spit" else None
        if p in self.unflushed and p not in self.recreated and fs_after.kind(p) == "file":
            self.recreated[p] = fs_after.lookup(p)[1]
        if p is not None and self.under_rename(p) and fs_after.kind(p) == "file" \
                and not any(fs_after.lookup(p)[1] == r[0] for r in self.pren):
            self.recr_ren[p] = fs_after.lookup(p)[1]


def history_features(case, obs=None, upto=None):
    """Set of feature names present in the history (per whole case): the known
    classes (Ghost.classes) plus descriptive features.  With crashes in the
    history the reference tree after a crash is the durable image, which depends
    on the recorded sync coins / torn draws in [obs]."""
    n = case["cfg"].get("nhosts", 1)
    durs = [Durable(case["cfg"].get("block_size")) for _ in range(n)]
    ghosts = [Ghost() for _ in range(n)]
    decs = (obs or {}).get("decisions") or [[] for _ in case["steps"]]
    feats = set()
    for si, st in enumerate(case["steps"]):
        if upto is not None and si > upto:
            break
        name = st[0].split("@")[0]
        if name == "tick":
            continue
        h = st[1]
        dur, gh = durs[h], ghosts[h]
        fs = dur.fs
        feats.update(gh.classes(st, dur, decs[si] if si < len(decs) else ()))
        if name == "dump":
            continue
        if name == "crash":
            feats.add("crash")
            gh.update(st, dur)
            dur.crash(decs[si] if si < len(decs) else [])
            continue
        # descriptive features (not classes)
        if name == "open":
            flags = st[4].replace("k", "")
            try:
                Posix.open_mode(flags)
            except Err:
                feats.add("OpenOptsInvalid")
            k = fs.kind(st[3])
            if k == "dir":
                feats.add("OpenOnDir")
            if k == "file" and "t" in flags and "w" in flags and len(fs.data[fs.lookup(st[3])[1]]) > 0:
                feats.add("Shrink")
        if name == "spit" and fs.kind(st[2]) == "file" and len(fs.data[fs.lookup(st[2])[1]]) > 0:
            feats.add("Shrink")
        if name == "spit" and fs.kind(st[2]) == "dir":
            feats.add("OpenOnDir")
        if name == "set_len" and fs.h(st[2]) and fs.h(st[2])["w"] and st[3] < len(fs.data[fs.h(st[2])["ino"]]):
            feats.add("Shrink")
        if name == "unlink" and fs.kind(st[2]) == "file":
            feats.add("RemoveFile")
        if name == "rename" and fs.kind(st[2]) == "file":
            feats.add("RenameFileAny")
            if st[2] != st[3] and fs.kind(st[3]) == "file":
                feats.add("RenameOverFile")
            if gh.clean_rename(st, dur):
                feats.add("CleanRename")
            if st[3] in gh.gdirs and Ghost.rename_ok(fs, st[2], st[3]):
                feats.add("RenameOntoRemovedDir")
            if any(r[0] == fs.lookup(st[2])[1] for r in gh.pren) and Ghost.rename_ok(fs, st[2], st[3]):
                feats.add("ChainedRename")
        if name in ("rmdir", "rmdir_all") and fs.kind(st[2]) == "dir":
            feats.add("RemoveDir")
        if name == "sync_dir" and fs.kind(st[2]) == "dir" and any(
                (parent(f) == st[2]) != (parent(t) == st[2]) for _, f, t in gh.pren):
            feats.add("OneSidedFlush")
        if name in ("mkdir", "mkdir_all") and fs.kind(st[2]) is None:
            feats.add("Mkdir")
        gh.update(st, dur)
        wr = dur.before(st)
        exp = spec_step([d.fs for d in durs], st)
        dur.after(st, exp, decs[si] if si < len(decs) else [], wr)
        gh.after_open(st, dur.fs)
    return feats


# ---------------------------------------------------------------------------
# generators

FILES = ["/a", "/b", "/d/a", "/d/b", "/d/e/a", "/g/a"]
DIRS = ["/d", "/d/e", "/g"]
OPEN_VALID = ["r", "w", "rw", "rwc", "wc", "wct", "rwct", "wcn", "rwn", "a", "ra", "ac", "rac", "an", "wt", "rwt", "wa"]
OPEN_VALID_NOTRUNC = [f for f in OPEN_VALID if "t" not in f]
OPEN_INVALID = ["", "c", "t", "n", "ct", "rc", "rt", "rn", "at", "wat", "rat", "act"]


def rand_bytes(rng, lo=1, hi=6):
    return [rng.choice([65, 66, 67, 68, 69, 70, 88, 89, 90, 0, 255]) for _ in range(rng.randrange(lo, hi + 1))]


def base_cfg(rng, nhosts=1):
    return {"seed": rng.randrange(1 << 30), "nhosts": nhosts, "sync_prob": 0.0, "block_size": None,
            "latency": False, "universe": list(UNIVERSE)}


class Gen:
    """Builds a mostly-valid history while tracking the POSIX tree."""

    def __init__(self, rng, level, nhosts=1, tokio=0.0, syncs=0.25, crash=0.0, setup_sync=None, stale=0.1,
                 clean_rename=0.0):
        self.rng, self.level, self.n = rng, level, nhosts
        self.stale = stale
        self.clean_rename = clean_rename
        self.opened = [dict() for _ in range(nhosts)]   # slot -> path
        self.tokio, self.syncs, self.crash = tokio, syncs, crash
        self.dur = [Durable() for _ in range(nhosts)]
        self.steps = []
        self.setup_sync = setup_sync

    @property
    def hosts(self):
        return [d.fs for d in self.dur]

    def emit(self, st):
        if self.tokio and self.rng.random() < self.tokio and st[0] not in ("stat", "exists", "readdir", "dump", "crash", "tick", "close"):
            if st[0] == "open":
                st = st[:4] + [st[4] + "k"]
            elif st[0] in ("write_at", "read_at", "write", "read", "seek", "set_len", "sync_all", "sync_data", "flen"):
                pass
            else:
                st = [st[0] + "@t"] + st[1:]
        name = st[0].split("@")[0]
        if name in ("unlink", "rename", "rmdir_all") and self.rng.random() >= self.stale:
            # close the handles whose path is about to stop naming their file
            hit = [q for q in st[2:] if isinstance(q, str)]
            fsx = self.hosts[st[1]]
            for slot, pth in sorted(self.opened[st[1]].items()):
                if slot in fsx.handles and any(pth == q or is_prefix(q, pth) for q in hit):
                    self.steps.append(["close", st[1], slot])
                    fsx.handles.pop(slot, None)
        self.steps.append(st)
        if name == "open":
            self.opened[st[1]][st[2]] = st[3]
        if name == "crash":
            # generation continues from the durable image (coins / torn draws unknown here)
            self.dur[st[1]].crash([])
            self.opened[st[1]].clear()
            return
        if name not in ("dump", "tick"):
            dh = self.dur[st[1]]
            wr = dh.before(st)
            exp = spec_step(self.hosts, st)
            dh.after(st, exp, [], wr)

    def setup(self):
        rng = self.rng
        for h in range(self.n):
            dirs = [d for d in DIRS if rng.random() < 0.8]
            for d in dirs:
                if self.hosts[h].kind(parent(d)) == "dir":
                    self.emit(["mkdir", h, d])
            mode = self.setup_sync if self.setup_sync is not None else rng.choice([0, 1, 1, 2])
            if mode >= 1:
                for d in ["/"] + dirs:
                    if self.hosts[h].kind(d) == "dir" and (mode == 2 or rng.random() < 0.7):
                        self.emit(["sync_dir", h, d])

    def pick_file(self, fs, want_existing):
        ex = [p for p in FILES if fs.kind(p) == "file"]
        if want_existing and ex:
            return self.rng.choice(ex)
        cand = [p for p in FILES if fs.kind(parent(p)) == "dir"]
        return self.rng.choice(cand or FILES)

    def step(self):
        rng, lvl = self.rng, self.level
        h = rng.randrange(self.n)
        fs = self.hosts[h]
        slots = sorted(k for k in fs.handles if isinstance(k, int))
        r = rng.random()
        if self.crash and rng.random() < self.crash:
            self.emit(["crash", h])
            self.emit(["dump", h])
            return
        if rng.random() < self.syncs:
            c = rng.random()
            if c < 0.45 and slots:
                self.emit([rng.choice(["sync_all", "sync_data"]), h, rng.choice(slots)])
            else:
                ds = [d for d in ["/"] + DIRS if fs.kind(d) == "dir"]
                self.emit(["sync_dir", h, rng.choice(ds)])
            return
        if rng.random() < 0.04:
            self.emit(["tick", rng.choice([1, 1000, 10 ** 6, 10 ** 9])])
            return
        # handle operations
        if slots and r < 0.55:
            s = rng.choice(slots)
            hd = fs.handles[s]
            cur = len(fs.data[hd["ino"]])
            c = rng.random()
            if c < 0.28:
                off = rng.choice([0, 0, cur, cur, max(0, cur - 2), cur + rng.randrange(0, 4), rng.randrange(0, 10)])
                self.emit(["write_at", h, s, off, rand_bytes(rng)])
            elif c < 0.45:
                self.emit(["read_at", h, s, rng.choice([0, 0, 1, 2, cur, rng.randrange(0, 12)]), rng.choice([1, 3, 8, 16])])
            elif c < 0.58:
                self.emit(["write", h, s, rand_bytes(rng, 1, 4)])
            elif c < 0.68:
                self.emit(["read", h, s, rng.choice([1, 2, 4, 16])])
            elif c < 0.76:
                wh = rng.choice([0, 0, 1, 2])
                off = rng.choice([0, 1, 2, 5]) if wh == 0 else rng.choice([0, 0, 1, -1, -2, 3])
                self.emit(["seek", h, s, wh, off])
            elif c < 0.88:
                if lvl >= 2 and rng.random() < 0.5:
                    n = rng.choice([0, 1, 2, max(0, cur - 1), max(0, cur - 3)])
                else:
                    n = cur + rng.choice([0, 1, 2, 5])
                self.emit(["set_len", h, s, n])
            elif c < 0.94:
                self.emit(["flen", h, s])
            else:
                self.emit(["close", h, s])
            return
        if r < 0.75 or not slots:
            if rng.random() < 0.8 or lvl < 2:
                # open
                existing = rng.random() < 0.5
                p = self.pick_file(fs, existing)
                k = fs.kind(p)
                pool = OPEN_VALID if lvl >= 2 else OPEN_VALID_NOTRUNC
                if lvl < 2 and k == "file" and len(fs.data[fs.lookup(p)[1]]) == 0:
                    pool = OPEN_VALID
                if k is None:
                    pool = [f for f in pool if "c" in f or "n" in f] if rng.random() < 0.85 else pool
                else:
                    pool = [f for f in pool if "n" not in f] if rng.random() < 0.9 else pool
                free = [s for s in range(1, 5) if s not in fs.handles]
                s = rng.choice(free) if free and rng.random() < 0.9 else rng.randrange(1, 5)
                flags = rng.choice(OPEN_INVALID) if rng.random() < 0.04 else rng.choice(pool)
                self.emit(["open", h, s, p, flags])
                return
        # namespace operations (by level)
        c = rng.random()
        if c < 0.18:
            self.emit([rng.choice(["stat", "exists"]), h, rng.choice(UNIVERSE)])
        elif c < 0.26:
            self.emit(["readdir", h, rng.choice(["/"] + DIRS)])
        elif c < 0.34:
            self.emit(["slurp", h, self.pick_file(fs, True)])
        elif c < 0.42:
            p = self.pick_file(fs, rng.random() < 0.5)
            if lvl >= 2 or fs.kind(p) is None or (fs.kind(p) == "file" and len(fs.slurp(p)) == 0):
                self.emit(["spit", h, p, rand_bytes(rng)])
            else:
                self.emit(["slurp", h, p])
        elif lvl >= 2 and c < 0.58:
            self.emit(["unlink", h, self.pick_file(fs, rng.random() < 0.9)])
        elif lvl >= 2 and c < 0.80 and self.clean_rename and rng.random() < self.clean_rename:
            self.clean_rename_block(h)
        elif lvl >= 2 and c < 0.80:
            src = self.pick_file(fs, rng.random() < 0.92)
            dst = self.pick_file(fs, rng.random() < 0.4)
            if lvl < 3 and src == dst:
                dst = rng.choice(FILES)
            self.emit(["rename", h, src, dst])
        elif lvl >= 3 and c < 0.86:
            d = rng.choice(DIRS + ["/a"])
            self.emit([rng.choice(["mkdir", "mkdir", "mkdir_all"]), h, d])
        elif lvl >= 3 and c < 0.92:
            self.emit([rng.choice(["rmdir", "rmdir", "rmdir_all"]), h, rng.choice(DIRS)])
        elif lvl >= 3:
            src = rng.choice(DIRS)
            dst = rng.choice(DIRS + ["/g/e", "/e"])
            self.emit(["rename", h, src, dst])
        else:
            self.emit(["stat", h, rng.choice(UNIVERSE)])

    def clean_rename_block(self, h):
        """rename of a file whose data is synced, onto a fresh name (often across directories,
        often out of a directory that was never synced), followed by directory syncs / a crash"""
        rng = self.rng
        fs = self.hosts[h]
        dur = self.dur[h]
        files = [p for p in FILES if fs.kind(p) == "file"]
        free = [p for p in FILES if fs.kind(p) is None and fs.kind(parent(p)) == "dir"]
        if not free:
            return
        if not files or rng.random() < 0.4:
            src = rng.choice(free)
            free.remove(src)
            if not free:
                return
            self.emit(["open", h, 4, src, "rwc"])
            if rng.random() < 0.85:
                self.emit(["write_at", h, 4, 0, rand_bytes(rng)])
            if rng.random() < 0.85:
                self.emit(["sync_all", h, 4])
            self.emit(["close", h, 4])
        else:
            src = rng.choice(files)
            ino = fs.lookup(src)[1]
            if ino in dur.dirty and rng.random() < 0.9:
                for slot, pth in sorted(self.opened[h].items()):
                    if slot in fs.handles and pth == src:
                        self.emit(["close", h, slot])
                self.emit(["open", h, 4, src, "rw"])
                self.emit(["sync_all", h, 4])
                self.emit(["close", h, 4])
        if rng.random() < 0.3:
            self.emit(["sync_dir", h, parent(src)])
        cross = [p for p in free if parent(p) != parent(src)]
        dst = rng.choice(cross) if cross and rng.random() < 0.7 else rng.choice(free)
        others = [q for q in FILES if fs.kind(q) == "file" and q != src]
        if others and rng.random() < 0.25:
            dst = rng.choice(others)          # onto an existing file whose data is synced
            for slot, pth in sorted(self.opened[h].items()):
                if slot in fs.handles and pth == dst:
                    self.emit(["close", h, slot])
            if fs.lookup(dst)[1] in dur.dirty:
                self.emit(["open", h, 3, dst, "rw"])
                self.emit(["sync_all", h, 3])
                self.emit(["close", h, 3])
        self.emit(["rename", h, src, dst])
        r = rng.random()
        if r < 0.45:
            self.emit(["sync_dir", h, parent(dst)])
        elif r < 0.6:
            self.emit(["sync_dir", h, parent(src)])
            self.emit(["sync_dir", h, parent(dst)])
        elif r < 0.7:
            self.emit(["open", h, 3, dst, "rw"])
            self.emit(["read_at", h, 3, 0, 8])
        if rng.random() < 0.5 and self.crash:
            self.emit(["crash", h])
            self.emit(["dump", h])
        elif rng.random() < 0.5:
            self.emit(["dump", h])

    def build(self, nsteps, flavour):
        self.setup()
        for _ in range(nsteps):
            self.step()
        for h in range(self.n):
            self.emit(["dump", h])
        cfg = base_cfg(self.rng, self.n)
        if "/e" in json.dumps(self.steps) or "/g/e" in json.dumps(self.steps):
            cfg["universe"] = cfg["universe"] + ["/e", "/g/e", "/e/a", "/g/e/a"]
        return {"cfg": cfg, "steps": self.steps, "flavour": flavour}


def gen_history(rng, level, nsteps=None, nhosts=1, tokio=0.0, syncs=0.25, crash=0.0, setup_sync=None, stale=0.1,
                sync_prob=0.0, block_size=None, latency=False, clean_rename=0.0):
    g = Gen(rng, level, nhosts=nhosts, tokio=tokio, syncs=syncs, crash=crash, setup_sync=setup_sync, stale=stale,
            clean_rename=clean_rename)
    c = g.build(nsteps or rng.randrange(8, 26), "F%d" % level)
    c["cfg"]["sync_prob"] = sync_prob
    c["cfg"]["block_size"] = block_size
    c["cfg"]["latency"] = latency
    if crash:
        c["flavour"] += "+crash"
    if sync_prob:
        c["flavour"] += "+coin"
    if block_size:
        c["flavour"] += "+torn"
    return c


def with_syncs_everywhere(case, rng):
    """Variants of a (crash-free) history with one sync inserted at every position
    (sync_is_invisible): yields cases."""
    steps = case["steps"]
    n = case["cfg"].get("nhosts", 1)
    out = []
    for i in range(1, len(steps)):
        hosts = [Posix() for _ in range(n)]
        for st in steps[:i]:
            if st[0].split("@")[0] not in ("dump", "crash"):
                spec_step(hosts, st)
        h = rng.randrange(n)
        fs = hosts[h]
        slots = sorted(k for k in fs.handles if isinstance(k, int))
        ds = [d for d in ["/"] + DIRS if fs.kind(d) == "dir"]
        if slots and rng.random() < 0.5:
            ins = [rng.choice(["sync_all", "sync_data"]), h, rng.choice(slots)]
        else:
            ins = ["sync_dir", h, rng.choice(ds)]
        out.append({"cfg": case["cfg"], "steps": steps[:i] + [ins] + steps[i:], "flavour": case["flavour"] + "+sync"})
    return out


def histogram(cases):
    h = {"cases": len(cases), "steps": 0, "ops": {}, "flavours": {}, "hosts": {}, "tokio_ops": 0}
    for c in cases:
        h["flavours"][c.get("flavour", "?")] = h["flavours"].get(c.get("flavour", "?"), 0) + 1
        n = str(c["cfg"].get("nhosts", 1))
        h["hosts"][n] = h["hosts"].get(n, 0) + 1
        h["steps"] += len(c["steps"])
        for st in c["steps"]:
            nm = st[0].split("@")[0]
            h["ops"][nm] = h["ops"].get(nm, 0) + 1
            if st[0].endswith("@t") or (nm == "open" and "k" in st[4]):
                h["tokio_ops"] += 1
    return h


def case_signature(case):
    return json.dumps([case["cfg"].get("nhosts", 1), case["steps"]], sort_keys=True)


# ---------------------------------------------------------------------------
# rendering for the Coq model TV.Fs.FsImpl and comparison of observations

ERRNO_CODE = {ENOENT: 1, EEXIST: 2, ENOTEMPTY: 3, EISDIR: 4, ENOTDIR: 5, EBADF: 6, EINVAL: 7}
_extra_names = {}


def name_id(c):
    if c in NAMES:
        return NAMES[c]
    if c not in _extra_names:
        _extra_names[c] = 100 + len(_extra_names)
    return _extra_names[c]


def coq_path(p):
    return "[" + "; ".join(str(name_id(c)) for c in comps(p)) + "]"


def coq_bytes(b):
    return "[" + "; ".join(str(x) for x in b) + "]"


def coq_bool(b):
    return "true" if b else "false"


def coq_z(n):
    return "(%d)%%Z" % n


def coq_op(st, dec, universe):
    """One script step -> Coq term of type (nat * op) (None for tick-less hosts)."""
    name = st[0].split("@")[0]
    coin = coq_bool(any(d[0] == "coin" and d[1] for d in dec))
    if name == "tick":
        return "(0%nat, Tick)"
    h = st[1]

    def mk(body):
        return "(%d%%nat, %s)" % (h, body)
    if name == "open":
        f = st[4]
        return mk("Open %d %s %s %s %s %s %s %s" % (st[2], coq_path(st[3]), coq_bool("r" in f), coq_bool("w" in f),
                                                   coq_bool("a" in f), coq_bool("t" in f), coq_bool("c" in f), coq_bool("n" in f)))
    if name == "close":
        return mk("Close %d" % st[2])
    if name == "write_at":
        return mk("WriteAt %d %d %s %s" % (st[2], st[3], coq_bytes(st[4]), coin))
    if name == "read_at":
        return mk("ReadAt %d %d %d" % (st[2], st[3], st[4]))
    if name == "write":
        return mk("Write %d %s %s" % (st[2], coq_bytes(st[3]), coin))
    if name == "read":
        return mk("Read %d %d" % (st[2], st[3]))
    if name == "seek":
        return mk("Seek %d %d %s" % (st[2], st[3], coq_z(st[4])))
    if name == "set_len":
        return mk("SetLen %d %d %s" % (st[2], st[3], coin))
    if name == "sync_all":
        return mk("SyncAll %d" % st[2])
    if name == "sync_data":
        return mk("SyncData %d" % st[2])
    if name == "flen":
        return mk("FLen %d" % st[2])
    simple = {"sync_dir": "SyncDir", "mkdir": "Mkdir", "mkdir_all": "MkdirAll", "rmdir": "Rmdir", "rmdir_all": "RmdirAll",
              "unlink": "Unlink", "stat": "Stat", "exists": "Exists", "readdir": "Readdir", "slurp": "Slurp"}
    if name in simple:
        return mk("%s %s" % (simple[name], coq_path(st[2])))
    if name == "rename":
        return mk("Rename %s %s" % (coq_path(st[2]), coq_path(st[3])))
    if name == "spit":
        return mk("Spit %s %s %s" % (coq_path(st[2]), coq_bytes(st[3]), coin))
    if name == "dump":
        return mk("Dump [%s]" % "; ".join(coq_path(p) for p in universe))
    if name == "crash":
        draws = [d[2] for d in dec if d[0] == "torn"]
        return mk("Crash [%s]" % "; ".join("%d%%nat" % x for x in draws))
    raise ValueError("unknown op %r" % (st,))


def to_model(case, obs):
    cfg = case["cfg"]
    uni = cfg.get("universe", UNIVERSE)
    decs = obs.get("decisions") or [[] for _ in case["steps"]]
    problems = []
    evs = []
    for i, st in enumerate(case["steps"]):
        dec = decs[i] if i < len(decs) else []
        nm = st[0].split("@")[0]
        if nm != "crash" and any(d[0] == "torn" for d in dec):
            problems.append("step %d: torn-write draws outside a crash" % i)
        if nm not in ("write_at", "write", "set_len", "spit") and any(d[0] == "coin" for d in dec):
            problems.append("step %d: sync coin outside write/set_len" % i)
        evs.append(coq_op(st, dec, uni))
    bs = cfg.get("block_size") or 0
    term = "hrun_enc %d%%nat %d%%nat [%s]" % (cfg.get("nhosts", 1), bs, "; ".join(evs))
    return term, None, problems


def canon_obs(st, o):
    """Implementation observation of one step -> the tuple shape of enc_out."""
    name = st[0].split("@")[0]
    if name == "dump":
        rows = []
        for r in o:
            kind = {"none": 0, "file": 1, "dir": 2}.get(r[1], 3)
            if kind == 1:
                data = r[2] if isinstance(r[2], list) and (not r[2] or isinstance(r[2][0], int)) else [-1]
                ln = r[4]
            elif kind == 2:
                data = [name_id(x) for x in r[2]] if isinstance(r[2], list) and (not r[2] or isinstance(r[2][0], str)) else [-1]
                ln = 0
            else:
                data, ln = [], 0
            rows.append((kind, list(data), bool(r[3]), ln))
        return (9, 0, [], rows)
    if o[0] == "err":
        return (7, ERRNO_CODE.get(impl_errno(o), 99), [], [])
    if o[0] == "noslot":
        return (8, 0, [], [])
    if o[0] == "file":
        return (5, o[1], [], [])
    if o[0] == "dir":
        return (6, 0, [], [])
    if o[0] == "ok":
        if len(o) == 1:
            return (0, 0, [], [])
        v = o[1]
        if isinstance(v, bool):
            return (4, 1 if v else 0, [], [])
        if isinstance(v, int):
            return (1, v, [], [])
        if name == "readdir":
            return (3, 0, [name_id(x) for x in v], [])
        return (2, 0, list(v), [])
    return (99, 0, [], [])


def canon_model(m):
    tag, num, b, rows = m
    return (tag, num, list(b), [(r[0], list(r[1]), bool(r[2]), r[3]) for r in rows])


def compare(case, obs, model, probes):
    if obs.get("panic"):
        return "implementation panicked: %s" % obs["panic"]
    if isinstance(model, tuple) and model and model[0] == "error":
        return "model evaluation failed: %s" % str(model[1])[-400:]
    if len(model) != len(case["steps"]):
        return "model produced %d outputs for %d steps" % (len(model), len(case["steps"]))
    for i, st in enumerate(case["steps"]):
        a = canon_obs(st, obs["obs"][i])
        b = canon_model(model[i])
        if a != b:
            return "step %d %s: implementation %s, model %s" % (i, json.dumps(st), a, b)
    return None


# ---------------------------------------------------------------------------
# C07: the durable image, stated independently on top of the POSIX tree

class Durable:
    """POSIX tree of one host plus its durable shadow, as property C07 words it:
    an entry is durable iff its parent directory was synced while the entry
    existed (and not synced again after it was removed); a directory's own sync
    makes its own creation durable; a file's durable contents are its contents at
    the last data sync (sync_all, sync_data, or a background-sync coin)."""

    def __init__(self, block_size=None):
        self.fs = Posix()
        self.dent = {"/": "dir"}     # durable entries: path -> "dir" | inode number
        self.ddata = {}              # inode -> bytes at the last data sync
        self.pend = []               # (inode, off, data): writes since that inode's last data sync
        self.dirty = set()           # inodes with a write / set_len / truncation since their last data sync
        self.bs = block_size
        self.unspecified = False     # a dangling durable subtree exists: nothing asserted any more

    def data_sync(self, ino):
        self.ddata[ino] = bytes(self.fs.data[ino])
        self.pend = [w for w in self.pend if w[0] != ino]
        self.dirty.discard(ino)

    def persisted(self, ino):
        """the inode reached the disk at least once: data-synced, or its entry is durable"""
        return ino in self.ddata or ino in self.dent.values()

    def before(self, st):
        """what the step will write, computed before it runs: (ino, off, data) or None"""
        name = st[0].split("@")[0]
        fs = self.fs
        if name in ("write_at", "write"):
            h = fs.h(st[2])
            if h is None or not h["w"]:
                return None
            if name == "write_at":
                return (h["ino"], st[3], st[4])
            off = len(fs.data[h["ino"]]) if h["a"] else h["pos"]
            return (h["ino"], off, st[3])
        return None

    def after(self, st, exp, dec, wr):
        """durable bookkeeping after a successful step"""
        name = st[0].split("@")[0]
        fs = self.fs
        if exp and exp[0] == "err":
            return
        coin = any(d[0] == "coin" and d[1] for d in dec)
        if name == "open" and "t" in st[4] and "w" in st[4] and fs.h(st[2]) is not None:
            self.dirty.add(fs.h(st[2])["ino"])
        if name in ("write_at", "write") and wr:
            if wr[2]:
                self.pend.append((wr[0], wr[1], list(wr[2])))
                self.dirty.add(wr[0])
            if coin:
                self.data_sync(wr[0])
        elif name == "spit":
            ino = fs.lookup(st[2])[1]
            self.dirty.add(ino)
            if st[3]:
                self.pend.append((ino, 0, list(st[3])))
                if coin:
                    self.data_sync(ino)
        elif name == "set_len":
            h = fs.h(st[2])
            if h is not None and h["w"]:
                self.dirty.add(h["ino"])
            if h is not None and coin:
                self.data_sync(h["ino"])
        elif name in ("sync_all", "sync_data"):
            h = fs.h(st[2])
            if h is not None:
                self.data_sync(h["ino"])
        elif name == "sync_dir":
            d = st[2]
            self.dent[d] = "dir"
            cur = fs.lookup(d)[1]
            pre = d.rstrip("/") + "/"
            for p in [p for p in self.dent if p != "/" and parent(p) == d]:
                if comps(p)[-1] not in cur:
                    del self.dent[p]
            for nm, node in cur.items():
                if not isinstance(node, dict):
                    # a file has one name: making the new name durable is what makes a rename
                    # durable, the old durable name goes with it
                    for q in [q for q, e in self.dent.items() if e == node and q != pre + nm]:
                        del self.dent[q]
                self.dent[pre + nm] = "dir" if isinstance(node, dict) else node

    def crash(self, dec):
        """-> (problem text or None); replaces the tree by the durable image"""
        draws = [d for d in dec if d[0] == "torn"]
        content = {}
        for p, e in self.dent.items():
            if e != "dir":
                content[e] = bytearray(self.ddata.get(e, b""))
        problem = None
        di = 0
        by_ino = {e: p for p, e in self.dent.items() if e != "dir"}
        if self.bs:
            for ino, off, data in self.pend:
                if ino in by_ino and data:
                    total = -(-len(data) // self.bs)
                    if di >= len(draws):
                        problem = "crash consumed %d torn-write draws, expected more (pending write to durable %s)" % (len(draws), by_ino[ino])
                        break
                    _, tot, k = draws[di]
                    di += 1
                    if tot != total or k > total:
                        problem = "torn-write draw %s does not fit a %d-byte write with block size %d" % (draws[di - 1], len(data), self.bs)
                    n = min(k * self.bs, len(data))
                    if n:
                        b = content[ino]
                        if len(b) < off:
                            b.extend(bytes(off - len(b)))
                        b[off:off + n] = bytes(data[:n])
            if problem is None and di != len(draws):
                problem = "crash consumed %d torn-write draws, the history explains %d" % (len(draws), di)
        elif draws:
            problem = "torn-write draws without a block size"
        new = Posix()
        new.next_ino = self.fs.next_ino
        for p in sorted(self.dent, key=lambda q: len(comps(q))):
            if p == "/":
                continue
            anc = parent(p)
            ok = True
            while anc != "/":
                if self.dent.get(anc) != "dir":
                    ok = False
                anc = parent(anc)
            if not ok:
                self.unspecified = True
                continue
            d = new._dir(comps(p)[:-1])
            e = self.dent[p]
            if e == "dir":
                d[comps(p)[-1]] = {}
            else:
                d[comps(p)[-1]] = e
                new.data[e] = content[e]
        self.fs = new
        self.dent = {p: e for p, e in self.dent.items() if p == "/" or new.kind(p) is not None}
        self.ddata = {e: bytes(new.data[e]) for e in self.dent.values() if e != "dir"}
        self.pend = []
        self.dirty = set()
        return problem


def durable_check(case, obs):
    """C07 oracle core: first deviation of the implementation from the POSIX tree
    + durable image across crashes -> (step, text, before_first_crash) or None."""
    n = case["cfg"].get("nhosts", 1)
    hosts = [Durable(case["cfg"].get("block_size")) for _ in range(n)]
    uni = case["cfg"].get("universe", UNIVERSE)
    decs = obs.get("decisions") or [[] for _ in case["steps"]]
    crashed = False
    for i, st in enumerate(case["steps"]):
        name = st[0].split("@")[0]
        if name == "tick":
            continue
        dh = hosts[st[1]]
        if dh.unspecified:
            continue
        got = obs["obs"][i]
        if name == "crash":
            crashed = True
            pb = dh.crash(decs[i])
            if pb:
                return i, "step %d crash(host %d): %s" % (i, st[1], pb), False
            continue
        if name == "dump":
            d = dump_matches(dh.fs.dump(uni), got)
            if d:
                return i, "step %d dump(host %d)%s: %s" % (i, st[1], " after crash" if crashed else "", d), not crashed
            continue
        wr = dh.before(st)
        exp = spec_step([h.fs for h in hosts], st)
        d = obs_matches(exp, got)
        if d:
            return i, "step %d %s%s: %s" % (i, json.dumps(st), " after crash" if crashed else "", d), not crashed
        dh.after(st, exp, decs[i], wr)
    return None


# the known-finding classes (known_findings.txt), most specific first
KNOWN_CLASSES = ["RootOp", "RenameSelf", "StaleHandle", "RenameDir", "RenameFile", "RenameCrossDir", "Recreate",
                 "KindSwap"]
# what the Coq theorems exclude (FsSafe classes): any successful rename of a regular file, not
# only the defective ones
THEOREM_EXCLUDED = ["RootOp", "RenameSelf", "StaleHandle", "RenameDir", "RenameFileAny", "RecreateAny", "KindSwap"]
# what the rename-inclusive theorems (Known.v: c07_crash_image_renames_partial, c10_refines_renames_partial)
# exclude beyond the known classes
RENAME_THEOREM_EXTRA = ["RecreateAny", "RenameOntoRemovedDir", "OneSidedFlush", "ChainedRename"]


def rename_theorem_side_condition(case, feats, unspecified=False):
    """python rendering of FsKnown.ksafe_enc for a one-host script: alphabet (no create_dir_all /
    remove_dir_all), no known class, none of the extra exclusions (any re-creation of a file name, a
    rename onto a removed directory's name, a sync_dir of exactly one of the two directories of an
    unflushed rename, a rename of a file that is still under an unflushed rename), no crash on a dangling durable subtree"""
    for st in case["steps"]:
        nm = st[0].split("@")[0]
        if nm in ("mkdir_all", "rmdir_all"):
            return False
    return not (set(feats) & set(KNOWN_CLASSES)) and not (set(feats) & set(RENAME_THEOREM_EXTRA)) and not unspecified


def known_class(case, obs, step):
    """Class of a deviation first seen at [step]: the most specific known class
    whose pattern occurs in the history up to and including that step."""
    feats = history_features(case, obs, upto=step)
    for k in KNOWN_CLASSES:
        if k in feats:
            return k
    return None


def gen_safe(rng, **kw):
    """A history inside the domain of the Coq theorems: outside every class the
    theorems exclude (rejection sampling)."""
    while True:
        c = gen_history(rng, 3, **kw)
        if not (history_features(c) & set(THEOREM_EXCLUDED)):
            c["flavour"] = c["flavour"].replace("F3", "safe")
            return c


def gen_clean_rename(rng, **kw):
    """A history with at least one rename of a file whose data is synced, outside
    every known class: the oracle asserts it although the theorems do not cover it."""
    kw.setdefault("clean_rename", 0.9)
    while True:
        c = gen_history(rng, 3, stale=0.0, **kw)
        f = history_features(c)
        if "CleanRename" in f and not (f & set(KNOWN_CLASSES)):
            c["flavour"] = c["flavour"].replace("F3", "clean-rename")
            return c


def rename_scenarios(rng):
    """Exhaustive small family: a file created in /d (entry of /d/f durable or not, data synced
    or not), renamed within /d or into /g, then every order of up to two directory syncs,
    optionally an observation, then a crash and a dump."""
    import itertools
    out = []
    base = [["mkdir", 0, "/d"], ["mkdir", 0, "/g"], ["sync_dir", 0, "/"]]
    for src_durable, data_synced, dst in itertools.product((False, True), (False, True), ("/d/b", "/g/a", "/b")):
        for syncs in itertools.product((None, "/d", "/g", "/"), repeat=2):
            for look in (False, True):
                st = list(base) + [["open", 0, 1, "/d/a", "rwc"], ["write_at", 0, 1, 0, rand_bytes(rng)]]
                if data_synced:
                    st.append(["sync_all", 0, 1])
                st.append(["close", 0, 1])
                if src_durable:
                    st.append(["sync_dir", 0, "/d"])
                st.append(["rename", 0, "/d/a", dst])
                for sd in syncs:
                    if sd:
                        st.append(["sync_dir", 0, sd])
                if look:
                    st.append(["dump", 0])
                st += [["crash", 0], ["dump", 0]]
                out.append({"cfg": base_cfg(rng, 1), "steps": st, "flavour": "rename-scenario"})
    return out


def recreate_scenarios(rng, crash=True):
    """Exhaustive small family: an entry (file with or without data, data synced or not;
    or a directory) made durable or not, removed, the removal flushed or not, an entry of
    the same kind created again at the same path (a file: written / data-synced or not),
    directory syncs, optionally an observation, then (crash=True) a crash and a dump."""
    import itertools
    out = []
    base = [["mkdir", 0, "/d"], ["sync_dir", 0, "/"]]
    for x, par in (("/a", "/"), ("/d/a", "/d")):
        for durable, flushed, nsync, look in itertools.product((False, True), (False, True), (0, 1, 2), (False, True)):
            # a directory
            st = list(base) + [["mkdir", 0, x]]
            if durable:
                st.append(["sync_dir", 0, par])
            st.append(["rmdir", 0, x])
            if flushed:
                st.append(["sync_dir", 0, par])
            st.append(["mkdir", 0, x])
            st += [["sync_dir", 0, par]] * nsync
            if look:
                st.append(["dump", 0])
            if crash:
                st += [["crash", 0], ["dump", 0]]
            elif not look:
                st.append(["dump", 0])
            out.append({"cfg": base_cfg(rng, 1), "steps": st, "flavour": "recreate-scenario"})
            # a regular file
            for old_data, old_synced, new_data, new_synced, how in itertools.product(
                    (False, True), (False, True), (False, True), (False, True), ("rwc", "rwct", "spit")):
                if (old_synced and not old_data) or (new_synced and not new_data):
                    continue
                if how == "spit" and (new_synced or not new_data):
                    continue
                st = list(base) + [["open", 0, 1, x, "rwc"]]
                if old_data:
                    st.append(["write_at", 0, 1, 0, rand_bytes(rng)])
                if old_synced:
                    st.append(["sync_all", 0, 1])
                st.append(["close", 0, 1])
                if durable:
                    st.append(["sync_dir", 0, par])
                st.append(["unlink", 0, x])
                if flushed:
                    st.append(["sync_dir", 0, par])
                if how == "spit":
                    st.append(["spit", 0, x, rand_bytes(rng)])
                else:
                    st.append(["open", 0, 2, x, how])
                    if new_data:
                        st.append(["write_at", 0, 2, 0, rand_bytes(rng)])
                    if new_synced:
                        st.append(["sync_all", 0, 2])
                    st.append(["close", 0, 2])
                st += [["sync_dir", 0, par]] * nsync
                if look:
                    st.append(["dump", 0])
                if crash:
                    st += [["crash", 0], ["dump", 0]]
                elif not look:
                    st.append(["dump", 0])
                out.append({"cfg": base_cfg(rng, 1), "steps": st, "flavour": "recreate-scenario"})
    return out


def torn_scenarios(rng):
    """Exhaustive small family for torn writes: a durable file with data-synced contents of
    length L, one or two unsynced writes (inside, at the end, across the end of the synced
    contents), block size 2 or 3, several rng seeds, then a crash and a dump."""
    out = []
    for L in (3, 5, 6):
        base = [["open", 0, 1, "/a", "rwc"], ["write_at", 0, 1, 0, [65 + k for k in range(L)]], ["sync_all", 0, 1],
                ["sync_dir", 0, "/"]]
        writes = [(0, 1), (0, 2), (1, 2), (2, 2), (0, L), (L - 1, 3), (L, 2)]
        for bs in (2, 3):
            for off, n in writes:
                for second in (None, (1, 1), (0, 3)):
                    st = list(base) + [["write_at", 0, 1, off, [88 + k for k in range(n)]]]
                    if second:
                        st.append(["write_at", 0, 1, second[0], [48 + k for k in range(second[1])]])
                    st += [["crash", 0], ["dump", 0]]
                    cfg = base_cfg(rng, 1)
                    cfg["block_size"] = bs
                    out.append({"cfg": cfg, "steps": st, "flavour": "torn-scenario"})
    return out


def uring_mix_scenarios(rng):
    """Deterministic family: a descriptor opened through the std or the tokio shim with every
    OpenOptions combination (read-only, write-only, append-only, append+read, append+write,
    create / create_new / truncate, and the combinations std rejects), on an existing file and
    on a fresh path, then used through io_uring (write, read, fsync on the raw fd) mixed with
    the shim's own calls on the same handle and with path operations of the other front-end."""
    out = []
    for flags in OPEN_VALID + OPEN_INVALID[:4]:
        for existing in (True, False):
            for tok in (False, True):
                st = [["mkdir", 0, "/d"]]
                if existing:
                    st.append(["spit", 0, "/d/a", [48, 49, 50, 51, 52]])
                st.append(["open", 0, 1, "/d/a", flags + ("k" if tok else "")])
                off = rng.choice([0, 2, 5, 7])
                st += [["write_at@u", 0, 1, off, rand_bytes(rng, 1, 3)],
                       ["read_at@u", 0, 1, rng.choice([0, 1, 4]), 8],
                       ["sync_all@u", 0, 1],
                       ["write_at" + ("@t" if tok else ""), 0, 1, rng.choice([0, 3, 6]), rand_bytes(rng, 1, 2)],
                       ["write", 0, 1, rand_bytes(rng, 1, 2)],
                       ["read_at@u", 0, 1, 0, 16],
                       ["flen", 0, 1],
                       ["write_at@u", 0, 1, rng.choice([1, 9]), rand_bytes(rng, 1, 2)],
                       ["slurp" + ("" if tok else "@t"), 0, "/d/a"],
                       ["read_at", 0, 1, 0, 16],
                       ["close", 0, 1],
                       ["write_at@u", 0, 1, 0, [33]],
                       ["dump", 0]]
                out.append({"cfg": base_cfg(rng, 1), "steps": st, "flavour": "uring-mix-scenario"})
    # zero-length writes / reads through the three front-ends: at EOF, before EOF, far beyond EOF,
    # after a shrinking and after an extending set_len (a zero-length write changes nothing, returns 0)
    for flags in ("rw", "rwc", "w", "a", "ra", "wa", "rwct", "r"):
        for tok in (False, True):
            t = "@t" if tok else ""
            st = [["mkdir", 0, "/d"], ["spit", 0, "/d/a", [48, 49, 50, 51, 52]],
                  ["open", 0, 1, "/d/a", flags + ("k" if tok else "")],
                  ["write_at@u", 0, 1, 100, []], ["flen", 0, 1],
                  ["set_len", 0, 1, 2], ["write_at@u", 0, 1, 6, []], ["flen", 0, 1], ["slurp", 0, "/d/a"],
                  ["write_at" + t, 0, 1, 50, []], ["write", 0, 1, []], ["flen", 0, 1],
                  ["read_at@u", 0, 1, 0, 0], ["read_at@u", 0, 1, 40, 0], ["read_at" + t, 0, 1, 1, 0], ["read", 0, 1, 0],
                  ["set_len", 0, 1, 8], ["write_at@u", 0, 1, 8, []], ["write_at@u", 0, 1, 3, []],
                  ["write_at" + t, 0, 1, 8, []], ["flen", 0, 1], ["read_at@u", 0, 1, 0, 16],
                  ["write_at@u", 0, 1, 9, [65]], ["write_at@u", 0, 1, 30, []], ["sync_all@u", 0, 1], ["flen", 0, 1],
                  ["slurp" + ("" if tok else "@t"), 0, "/d/a"], ["dump", 0]]
            out.append({"cfg": base_cfg(rng, 1), "steps": st, "flavour": "uring-mix-scenario+zero-length"})
    return out


def with_uring(case, rng, p=0.35):
    """the same script with some positional writes / reads / fsyncs submitted through io_uring
    on the descriptor the shim opened (direct mode only)"""
    steps = []
    for st in case["steps"]:
        if st[0] in ("write_at", "read_at", "sync_all", "write_at@t", "read_at@t", "sync_all@t") and rng.random() < p:
            st = [st[0].split("@")[0] + "@u"] + list(st[1:])
        steps.append(st)
        # boundary sizes: a zero-length write / read on the same handle, through any front-end, at
        # offsets before, at and far beyond the end of the file
        if st[0].split("@")[0] in ("write_at", "read_at", "set_len", "write") and rng.random() < 0.4:
            fe = rng.choice(["", "@t", "@u", "@u"])
            off = rng.choice([0, 1, 3, 6, 9, 100])
            if rng.random() < 0.7:
                steps.append(["write_at" + fe, st[1], st[2], off, []])
            else:
                steps.append(["read_at" + fe, st[1], st[2], off, 0])
            if rng.random() < 0.5:
                steps.append(["flen", st[1], st[2]])
    c = {"cfg": dict(case["cfg"]), "steps": steps, "flavour": case.get("flavour", "") + "+uring"}
    return c


def uring_fsync_scenarios(rng):
    """Deterministic family for C07: a durable file with data-synced contents, new contents written
    through one handle / front-end, a data sync through ANOTHER descriptor of the same file (read-only,
    write-only, append-only, read-write; std or tokio handle; ring Fsync or the shim's sync_all /
    sync_data), then a crash: the contents after the crash are those of the last data sync of the
    file through any front-end and any descriptor.  sync_probability 0 (no coin is drawn)."""
    out = []
    writers = [("rw", ""), ("w", "@t"), ("a", "@u"), ("rw", "@u"), ("wa", "")]
    for wflags, wfe in writers:
        for sflags in ("r", "w", "a", "rw", "ra"):
            for stok in (False, True):
                for sync in ("sync_all@u", "sync_all", "sync_data", None):
                    if sync != "sync_all@u" and (stok or rng.random() < 0.5):
                        continue
                    st = [["mkdir", 0, "/d"], ["sync_dir", 0, "/"],
                          ["open", 0, 1, "/d/a", "rwc"], ["write_at", 0, 1, 0, [103, 101, 110, 49]], ["sync_all", 0, 1],
                          ["close", 0, 1], ["sync_dir", 0, "/d"],
                          ["open", 0, 2, "/d/a", wflags + ("k" if wfe == "@t" else "")],
                          ["write_at" + wfe, 0, 2, 0, [103, 101, 110, 50, 33]],
                          ["open", 0, 3, "/d/a", sflags + ("k" if stok else "")]]
                    if sync:
                        st.append([sync if not (stok and sync != "sync_all@u") else sync + "@t", 0, 3])
                    if rng.random() < 0.5:
                        st.append(["write_at" + wfe, 0, 2, 1, [88]])
                    st += [["dump", 0], ["crash", 0], ["dump", 0]]
                    out.append({"cfg": base_cfg(rng, 1), "steps": st, "flavour": "uring-fsync-scenario"})
    return out


def multi_host_crash(rng):
    """Sim-driven: two or three hosts with different histories (unsynced overwrites, never-synced
    files, unsynced removals), crashed by ONE Sim::crash call through a regex host set or by repeated
    single calls, hosts registered in either order, bounced, and read back on every host."""
    n = rng.choice([2, 2, 3])
    c = gen_safe(rng, stale=0.0, nhosts=n, setup_sync=rng.choice([1, 2, 2]), syncs=0.25, nsteps=rng.randrange(10, 22))
    steps = [s for s in c["steps"] if s[0] != "crash"]
    for rnd in range(rng.choice([1, 1, 2])):
        mode = rng.choice(["regex", "regex", "each"])
        members = list(range(n))
        if n == 3 and rng.random() < 0.4:
            members = sorted(rng.sample(range(3), 2))
        if mode == "each":
            rng.shuffle(members)
            steps += [["crash", h] for h in members]
        else:
            rx = "^h" if len(members) == n else "^h[%s]$" % "".join(str(h) for h in members)
            steps.append(["crash", members[0], "group", rx])
            steps += [["crash", h, "grouped"] for h in members[1:]]
        steps += [["dump", h] for h in range(n)]
        if rnd == 0:
            for h in range(n):
                p = rng.choice(FILES)
                steps += [["open", h, 1, p, "rwc"], ["write_at", h, 1, 0, rand_bytes(rng)]]
                if rng.random() < 0.5:
                    steps += [["sync_all", h, 1], ["sync_dir", h, parent(p)]]
    cfg = dict(c["cfg"])
    cfg.update({"via": "sim", "block_size": None, "sync_prob": 0.0, "reg_rev": rng.random() < 0.5})
    fl = "multi-host-crash+Sim::crash"
    if rng.random() < 0.6:
        # the software owns a flusher whose destructor still writes (unsynced) while the host is torn down
        cfg["drop_ops"] = [["spit", p, [200, 201, 202]] for p in rng.sample(FILES, 2)]
        fl += "+destructor-writes"
    return {"cfg": cfg, "steps": steps, "flavour": fl}


def rename_chain_scenarios(rng, crash=True):
    """Deterministic family: a data-synced file renamed twice or three times with no directory sync in
    between (a -> b -> c, away and back a -> b -> a, onto an existing synced file), within one
    directory, source entry durable or not; then observations, optional sync_dir / second handle
    reads / unlink of the final name, and (crash=True variants) a crash and a dump."""
    import itertools
    out = []
    chains = [["/d/a", "/d/b", "/d/c"], ["/d/a", "/d/b", "/d/a"], ["/d/a", "/d/b", "/d/c", "/d/e2"], ["/a", "/b", "/a", "/b"]]
    for chain, durable, over, tail, crash in itertools.product(chains, (False, True), (False, True),
                                                              ("none", "sync", "read", "unlink", "syncfile"),
                                                              (False, True) if crash else (False,)):
        par = parent(chain[0])
        st = [["mkdir", 0, "/d"], ["sync_dir", 0, "/"], ["open", 0, 1, chain[0], "rwc"],
              ["write_at", 0, 1, 0, rand_bytes(rng, 2, 5)], ["sync_all", 0, 1], ["close", 0, 1]]
        if over and chain[-1] != chain[0]:
            st += [["open", 0, 2, chain[-1], "rwc"], ["write_at", 0, 2, 0, rand_bytes(rng, 1, 3)], ["sync_all", 0, 2], ["close", 0, 2]]
        if durable:
            st.append(["sync_dir", 0, par])
        for x, y in zip(chain, chain[1:]):
            st.append(["rename", 0, x, y])
        st += [["stat", 0, chain[-1]], ["slurp", 0, chain[-1]], ["readdir", 0, par]]
        if tail == "sync":
            st += [["sync_dir", 0, par], ["slurp", 0, chain[-1]]]
        elif tail == "read":
            st += [["open", 0, 3, chain[-1], "r"], ["read_at", 0, 3, 0, 8], ["flen", 0, 3]]
        elif tail == "unlink":
            st += [["unlink", 0, chain[-1]], ["readdir", 0, par], ["sync_dir", 0, par]]
        elif tail == "syncfile":
            st += [["open", 0, 3, chain[-1], "r"], ["sync_all", 0, 3], ["sync_dir", 0, par]]
        st.append(["dump", 0])
        if crash:
            st += [["crash", 0], ["dump", 0], ["slurp", 0, chain[-1]]]
        cfg = base_cfg(rng, 1)
        cfg["universe"] = list(cfg["universe"]) + ["/d/c", "/d/e2"]
        out.append({"cfg": cfg, "steps": st, "flavour": "rename-chain-scenario"})
    return out
