"""Family `uring`: scripts for the real turmoil-io-uring crate (harness bin `uring`)
and their rendering as TV.Uring.Model host events over the concrete byte-array
file system TV.Uring.Concrete.  Serves C18.

Direct-mode script commands (one observation each), see harness/src/bin/uring.rs.
"""
import json

CACHE_HIT_NS = 100
REJECTED = 0b101111
ECANCELED, EINVAL, EBADF, ENOENT, ENOSPC = -125, -22, -9, -2, -28


def cfg_capacity(case):
    return case["cfg"].get("capacity")


def pow2ceil(n):
    p = 1
    while p < n:
        p *= 2
    return p


# ---- python mirror of turmoil_fs::PageCache (only used to predict the sampled
# latency, which is an INPUT of the model) -----------------------------------

class PageCache:
    def __init__(self, page_size, max_pages):
        self.ps, self.mp, self.pages = page_size, max_pages, []

    def _swap_remove(self, key):
        if key not in self.pages:
            return False
        i = self.pages.index(key)
        last = self.pages.pop()
        if i < len(self.pages):
            self.pages[i] = last
        return True

    def access(self, f, off):
        key = (f, off // self.ps)
        if self._swap_remove(key):
            self.pages.append(key)
            return True
        return False

    def insert(self, f, off):
        key = (f, off // self.ps)
        while len(self.pages) >= self.mp:
            self.pages.pop(0)
        self._swap_remove(key)
        self.pages.append(key)


class Tracker:
    """Walks a direct-mode script and reconstructs what the generator/oracle/
    model-renderer need: clock, descriptor table, per-ring SQ contents."""

    def __init__(self, cfg):
        self.cfg = cfg
        self.now = 0
        self.fds = []            # k -> [file, open?]
        self.rings = []          # r -> {"depth", "sq": [entry..], "alive"}
        self.lat = cfg.get("lat_ns") or 0
        c = cfg.get("cache")
        self.cache = PageCache(c["page_size"], c["max_pages"]) if c else None

    def fd_file(self, k):
        """file of an open, buffered descriptor (O_DIRECT descriptors bypass the page cache)"""
        if k < len(self.fds) and self.fds[k][1] and not (len(self.fds[k]) > 2 and self.fds[k][2]):
            return self.fds[k][0]
        return None

    def lats_for(self, entries):
        """Latency each scheduled entry must get according to the specification (min=max):
        a buffered READ of a resident page the 100 ns hit latency, every WRITE and fsync the
        configured I/O latency whatever the residency (writes only populate the cache)."""
        out = []
        for (op, ud, flags) in entries:
            if flags & REJECTED or op[0] == "cancel":
                continue
            if op[0] == "read":
                hit = False
                f = self.fd_file(op[1])
                if f is not None and self.cache is not None:
                    hit = self.cache.access(f, op[2])
                    self.cache.insert(f, op[2])
                out.append(CACHE_HIT_NS if (hit and self.cache is not None) else self.lat)
            elif op[0] == "write":
                f = self.fd_file(op[1])
                if f is not None and self.cache is not None:
                    self.cache.insert(f, op[2])
                out.append(self.lat)
            else:
                out.append(self.lat)
        return out


# ---- model rendering -------------------------------------------------------

def coq_list(xs):
    return "[" + "; ".join(str(x) for x in xs) + "]"


def coq_op(op):
    if op[0] == "read":
        return "Read %d %d %d" % (op[1], op[2], op[3])
    if op[0] == "write":
        return "Write %d %d %s" % (op[1], op[2], coq_list(op[3]))
    if op[0] == "fsync":
        return "Fsync %d" % op[1]
    return "Cancel %d" % op[1]


def yielded_uds(case, obs):
    """per ring: list of user_data in the order the implementation yielded them,
    and for every `next` command its index into that list."""
    seq, pos = {}, {}
    for ci, (c, o) in enumerate(zip(case["script"], obs["obs"])):
        if c[0] == "next":
            r = c[1]
            pos[ci] = len(seq.setdefault(r, []))
            if isinstance(o, list):
                seq[r].append("(%d, %s)" % (o[0], ("(%d)%%Z" % o[1]) if o[1] < 0 else ("%d%%Z" % o[1])))
    return seq, pos


def to_model(case, obs):
    cfg = case["cfg"]
    tr = Tracker(cfg)
    evs, probes, problems = [], [], []
    seq, pos = yielded_uds(case, obs)
    for ci, c in enumerate(case["script"]):
        n = c[0]
        if n == "now":
            tr.now = c[1]
            continue
        if n == "open":
            mstr = c[2] if len(c) > 2 else "rw"
            tr.fds.append([c[1], True, mstr.endswith("d")])
            mode = {"rw": 3, "r": 1, "w": 2}[mstr.rstrip("d")]
            evs.append("CFs (x_open %d %d %d)" % (len(tr.fds) - 1, c[1], mode))
        elif n == "close":
            tr.fds[c[1]][1] = False
            evs.append("CFs (x_close %d)" % c[1])
        elif n == "new":
            probes.append((len(evs), ci, "new"))
            evs.append("CNew %d" % c[1])
            if c[1] > 0:
                tr.rings.append({"depth": pow2ceil(c[1]), "sq": [], "alive": True})
        elif n == "drop_ring":
            tr.rings[c[1]]["alive"] = False
            evs.append("CDrop %d" % c[1])
        elif n == "push":
            r = tr.rings[c[1]]
            if r["alive"] and len(r["sq"]) < r["depth"]:
                r["sq"].append((c[2], c[3], c[4]))
            probes.append((len(evs), ci, "push"))
            evs.append("CRing %d (Push {| s_op := %s; s_ud := %d; s_flags := %d |})" % (c[1], coq_op(c[2]), c[3], c[4]))
        elif n == "submit" and len(c) > 2 and c[2] == 3:
            if obs["obs"][ci] != -1:
                problems.append("cmd %d: submit_with_args with nsec = 10^9 returned %s instead of an error" % (ci, obs["obs"][ci]))
        elif n == "submit":
            r = tr.rings[c[1]]
            lats = tr.lats_for(r["sq"]) if r["alive"] else []
            r["sq"] = []
            probes.append((len(evs), ci, "submit"))
            evs.append("CRing %d (Submit %d %s)" % (c[1], tr.now, coq_list(lats)))
        elif n == "cq_new":
            evs.append("CRing %d CqNew" % c[1])
        elif n == "sync":
            probes.append((len(evs), ci, "sync"))
            evs.append("CRing %d (Sync %d)" % (c[1], tr.now))
        elif n == "next":
            order = seq.get(c[1], [])[pos[ci]:]          # never truncated: a batch can hold every outstanding entry
            probes.append((len(evs), ci, "next"))
            evs.append("CRing %d (Next %d %s)" % (c[1], tr.now, coq_list(order)))
        elif n == "readable":
            probes.append((len(evs), ci, "readable"))
            evs.append("CRing %d (Readable %d)" % (c[1], tr.now))
        elif n == "crash":
            for fd in tr.fds:
                fd[1] = False
            for r in tr.rings:
                r["alive"] = False
            evs.append("CCrash")
            evs.append("CFs x_crash")
        elif n == "sread":
            probes.append((len(evs), ci, "fs"))
            evs.append("CFs (x_read %d %d %d)" % (c[1], c[2], c[3]))
        elif n == "swrite":
            probes.append((len(evs), ci, "fs"))
            evs.append("CFs (x_write %d %d %s)" % (c[1], c[2], coq_list(c[3])))
        elif n == "ssync":
            probes.append((len(evs), ci, "fs"))
            evs.append("CFs (x_fsync %d)" % c[1])
        elif n == "dump":
            probes.append((len(evs), ci, "fs"))
            evs.append("CFs (x_dump %d)" % c[1])
        elif n in ("sqinfo", "spawn_reaper"):
            pass
        else:
            problems.append("unknown command %s" % n)
    cap = cfg.get("capacity")
    term = "crun %d %s [%s]" % (cfg.get("nfiles", 1), "None" if cap is None else "(Some %d)" % cap, "; ".join(evs))
    return term, probes, problems


def compare(case, obs, model, probes):
    if obs.get("panic"):
        return "implementation panicked: %s" % obs["panic"]
    if isinstance(model, tuple) and model and model[0] == "error":
        return "model evaluation failed: %s" % str(model[1])[-400:]
    io = obs["obs"]
    for idx, ci, kind in probes:
        if idx >= len(model):
            return "model produced too few outputs"
        tag, ints, data = model[idx]
        o = io[ci]
        cmd = case["script"][ci]
        where = "cmd %d %s" % (ci, json.dumps(cmd))
        if kind == "new":
            if o != ints[0]:
                return "%s: implementation ring %s, model %s" % (where, o, ints[0])
        elif kind == "push":
            if o is not True and o is not False:
                return "%s: implementation said %s" % (where, o)
            if int(o) != ints[0]:
                return "%s: push accepted by implementation=%s, model=%s" % (where, o, bool(ints[0]))
        elif kind == "submit":
            if o != ints[0]:
                return "%s: submit returned %s, model %s" % (where, o, ints[0])
        elif kind == "sync":
            if not isinstance(o, list) or o[0] != ints[0]:
                return "%s: sync exposes %s, model %s" % (where, o, ints[0])
        elif kind == "readable":
            if o != ints[0]:
                return "%s: readable %s, model %s" % (where, o, ints[0])
        elif kind == "next":
            if o is None or not isinstance(o, list):
                if ints:
                    return "%s: implementation yields %s, model yields (ud=%s,res=%s)" % (where, o, ints[0], ints[1])
            else:
                if not ints:
                    return "%s: implementation yields (ud=%s,res=%s), model nothing" % (where, o[0], o[1])
                if [o[0], o[1]] != list(ints):
                    return "%s: implementation CQE (ud=%s,res=%s), model (ud=%s,res=%s)" % (where, o[0], o[1], ints[0], ints[1])
                if o[2] is not None and list(o[2]) != list(data):
                    return "%s: read buffer %s, model %s" % (where, o[2], list(data))
        elif kind == "fs":
            m = o[0] if isinstance(o, list) else o
            if m == "PermissionDenied":
                m = [-13, []]
            if m == "Other" and cfg_capacity(case) is not None:
                m = [ENOSPC, []]            # io::Error::other("No space left on device")
            if not isinstance(m, list):
                return "%s: synchronous API returned %s, model (%s,%s)" % (where, m, ints[0], list(data))
            if m[0] != ints[0] or list(m[1]) != list(data):
                return "%s: synchronous API gives %s, model (%s,%s)" % (where, m, ints[0], list(data))
    return None


# ---- independent oracle: the property stated on the implementation trace ----

def oracle(case, obs):
    """C18 evaluated on what the implementation did. Returns [(text, class)]."""
    cfg = case["cfg"]
    out = []
    L = cfg.get("lat_ns") or 0
    cache = cfg.get("cache") is not None
    now = 0
    rings = []      # {"depth","sqn","sq":[..],"alive","out":[entry..]}
    direct_fds = set()     # descriptor numbers opened O_DIRECT: they never hit the page cache
    nopen = 0
    crashed_before = 0
    io = obs["obs"]

    def fail(t):
        out.append((t, None))

    for ci, (c, o) in enumerate(zip(case["script"], io)):
        n = c[0]
        if n == "now":
            now = c[1]
        elif n == "open":
            if len(c) > 2 and c[2].endswith("d"):
                direct_fds.add(nopen)
            nopen += 1
        elif n == "new":
            if c[1] == 0:
                if o != -1:
                    fail("cmd %d: a ring with 0 entries was created" % ci)
            else:
                rings.append({"depth": pow2ceil(c[1]), "sq": [], "alive": True, "acc": []})
        elif n == "drop_ring":
            rings[c[1]]["alive"] = False
        elif n == "sqinfo" and isinstance(o, list):
            r = rings[c[1]]
            if r["alive"] and (o[0] != len(r["sq"]) or o[3] != r["depth"] or o[1] != (o[0] >= o[3]) or o[2] != (o[0] == 0)):
                fail("cmd %d: SubmissionQueue reports len/full/empty/capacity %s with %d queued entries, depth %d" % (ci, o, len(r["sq"]), r["depth"]))
        elif n == "push":
            r = rings[c[1]]
            if not r["alive"]:
                if o is True:
                    fail("cmd %d: push accepted on a ring that was dropped or lost in a crash" % ci)
                continue
            full = len(r["sq"]) == r["depth"]
            if full and o is True:
                fail("cmd %d: push accepted although the submission queue holds depth=%d entries" % (ci, r["depth"]))
            if not full and o is not True:
                fail("cmd %d: push refused with %d of %d entries queued" % (ci, len(r["sq"]), r["depth"]))
            if o is True:
                r["sq"].append({"op": c[2], "ud": c[3], "flags": c[4], "push_cmd": ci})
        elif n == "submit" and len(c) > 2 and c[2] == 3:
            if o != -1:
                fail("cmd %d: submit_with_args with a malformed timespec returned %s" % (ci, o))
        elif n == "submit":
            r = rings[c[1]]
            if not r["alive"]:
                if o != -1:
                    fail("cmd %d: submit on a lost ring returned %s" % (ci, o))
                continue
            if o != len(r["sq"]):
                fail("cmd %d: submit accepted %s of %d queued entries" % (ci, o, len(r["sq"])))
            for e in r["sq"]:
                e = dict(e)
                e.update({"t": now, "done": 0, "cancelled": False, "submit_cmd": ci})
                if e["flags"] & REJECTED:
                    e["expect"] = EINVAL
                    e["min_at"] = now
                elif e["op"][0] == "cancel":
                    tgts = [x for x in r["acc"] if x["ud"] == e["op"][1] and x["done"] == 0]
                    tgt = tgts[0] if tgts else None
                    if len(tgts) > 1:
                        # duplicate user_data in flight: which of them is hit is the ring's choice
                        e["expect"] = 0
                        e["min_at"] = now
                        e["max_at"] = now
                        e["dup_cancel"] = True
                        r["dup"] = True
                        r["acc"].append(e)
                        continue
                    if tgt is not None:
                        tgt["cancelled"] = True
                        tgt["expect"] = ECANCELED
                        tgt["min_at"] = now
                        tgt["max_at"] = now
                        e["expect"] = 0
                    else:
                        e["expect"] = ENOENT
                    e["min_at"] = now
                else:
                    e["expect"] = None
                    e["cached_read"] = cache and e["op"][0] == "read" and e["op"][1] not in direct_fds
                    e["min_at"] = now + (min(L, CACHE_HIT_NS) if e["cached_read"] else L)
                e["max_at"] = e["min_at"] if e["expect"] is not None else now + (max(L, CACHE_HIT_NS) if e.get("cached_read") else L)
                r["acc"].append(e)
            r["sq"] = []
        elif n == "sync":
            r = rings[c[1]]
            if not r["alive"] and isinstance(o, list) and o[0] != 0:
                fail("cmd %d: completions visible on a lost ring" % ci)
            if r["alive"] and isinstance(o, list) and not r.get("dup"):
                pending = [x for x in r["acc"] if x["done"] == 0]
                early = [x for x in pending if x["min_at"] > now]
                if o[0] > len(pending) - len(early):
                    fail("cmd %d: sync exposes %d completions at %d ns but only %d submitted operations have reached their latency" % (ci, o[0], now, len(pending) - len(early)))
                late = [x for x in pending if x["max_at"] <= now]
                if o[0] < len(late):
                    fail("cmd %d: sync exposes %d completions at %d ns although %d submitted operations are past their latency" % (ci, o[0], now, len(late)))
        elif n == "readable":
            r = rings[c[1]]
            if r["alive"] and not r.get("dup") and o in (0, 1):
                pending = [x for x in r["acc"] if x["done"] == 0]
                if o == 1 and not any(x["min_at"] <= now for x in pending):
                    fail("cmd %d: ring readable at %d ns although no submitted operation has reached its latency" % (ci, now))
                if o == 0 and any(x["max_at"] <= now for x in pending):
                    fail("cmd %d: ring not readable at %d ns although a submitted operation is past its latency" % (ci, now))
        elif n == "next":
            r = rings[c[1]]
            if not isinstance(o, list):
                continue
            ud, res, data, twin, flags = o
            if not r["alive"]:
                fail("cmd %d: completion (ud=%d,res=%d) delivered on a ring lost in a crash or dropped" % (ci, ud, res))
                continue
            if flags != 0:
                fail("cmd %d: CQE flags %s" % (ci, flags))
            cands = [x for x in r["acc"] if x["ud"] == ud and x["done"] == 0]
            if not cands:
                was = [x for x in r["acc"] if x["ud"] == ud]
                fail("cmd %d: completion (ud=%d,res=%d) %s" % (ci, ud, res, "is a second completion of one submission" if was else "carries a user_data that was never submitted"))
                continue
            e = (next((x for x in cands if x["expect"] is not None and x["expect"] == res), None)
                 or next((x for x in cands if x["expect"] is None), None) or cands[0])
            same = [x for x in cands if x["expect"] == e["expect"] and x["op"] == e["op"]]
            if r.get("dup") and res == ECANCELED and e["expect"] != ECANCELED:
                # a cancel hit one of several entries sharing this user_data: attribute it to the
                # youngest, which constrains the remaining ones least
                e = max(same, key=lambda x: x["min_at"])
            else:
                e = min(same, key=lambda x: x["min_at"])
            e["done"] += 1
            e["res"] = res
            e["data"] = data
            if now < e["min_at"] and not (r.get("dup") and res == ECANCELED):
                fail("cmd %d: completion of ud=%d visible at %d ns, %d ns before its latency elapsed (submitted at %d)" % (ci, ud, now, e["min_at"] - now, e["t"]))
            if e["expect"] is not None and (len(cands) == 1 or len(same) == len(cands)):
                if res != e["expect"]:
                    what = {EINVAL: "an unsupported flag", ECANCELED: "a cancelled operation", 0: "a cancel that found its target", ENOENT: "a cancel without target"}[e["expect"]]
                    fail("cmd %d: ud=%d is %s, result %d instead of %d" % (ci, ud, what, res, e["expect"]))
                if twin not in ("none", "ambiguous", None) and e["expect"] in (ECANCELED, EINVAL):
                    fail("cmd %d: ud=%d must not be applied but was" % (ci, ud))
            elif len(cands) == 1:
                # executed: must equal the synchronous API on the twin file system
                if twin == "closed":
                    if res != EBADF:
                        fail("cmd %d: %s on a closed file completed with %d instead of -EBADF" % (ci, e["op"][0], res))
                elif twin == "PermissionDenied":
                    if res != EBADF:
                        fail("cmd %d: ring %s through a descriptor without that access completed with %d; the synchronous API refuses it (PermissionDenied), expected -EBADF" % (ci, e["op"][0], res))
                elif isinstance(twin, list):
                    if res != twin[0]:
                        fail("cmd %d: ring %s returned %d, the synchronous API returns %d" % (ci, e["op"][0], res, twin[0]))
                    if e["op"][0] == "read" and data is not None and list(data) != list(twin[1]):
                        fail("cmd %d: ring read put %s into the buffer, the synchronous API %s" % (ci, data, twin[1]))
                elif twin == "Other" and cfg.get("capacity") is not None:
                    if res != ENOSPC:
                        fail("cmd %d: ring %s completed with %d; the synchronous API refuses it for lack of space (capacity %d), expected -ENOSPC" % (ci, e["op"][0], res, cfg["capacity"]))
                elif isinstance(twin, str) and twin not in ("ambiguous", "none"):
                    fail("cmd %d: ring %s returned %d, the synchronous API fails with %s" % (ci, e["op"][0], res, twin))
        elif n == "crash":
            for r in rings:
                r["alive"] = False
                r["crashed"] = True
        elif n == "dump":
            if isinstance(o, list) and o[1] is not None and o[0] != o[1]:
                fail("cmd %d: file f%d contains %s, the same operations through the synchronous API give %s" % (ci, c[1], o[0], o[1]))
        elif n == "sread":
            if isinstance(o, list) and o[1] is not None and o[0] != o[1]:
                fail("cmd %d: read_at sees %s, the twin (synchronous operations only) %s" % (ci, o[0], o[1]))
    # exactly once, when the script ends with a full late drain
    if case.get("full_drain"):
        for ri, r in enumerate(rings):
            if not r["alive"]:
                continue
            for e in r["acc"]:
                if e["done"] != 1:
                    fail("ring %d: submission ud=%d (%s, submitted by cmd %d) completed %d times by the end of a full drain" % (ri, e["ud"], e["op"][0], e["submit_cmd"], e["done"]))
    # read buffers
    bufs = obs.get("bufs") or []
    for (oi, ring, ud, buf) in bufs:
        e = None
        if ring < len(rings):
            same_ud = [x for x in rings[ring]["acc"] if x["ud"] == ud]
            if len(same_ud) > 1 or sum(1 for b in bufs if b[1] == ring and b[2] == ud) > 1:
                continue            # user_data reused: the buffer cannot be attributed
            e = next((x for x in same_ud if x["op"][0] == "read"), None)
        n = 0
        if e is not None and e["done"] == 1 and e.get("res", 0) > 0 and not e["cancelled"]:
            n = e["res"]
            if e.get("data") is not None and list(buf[:n]) != list(e["data"]):
                fail("read ud=%d: buffer changed after its completion" % ud)
        if any(b != 0xEE for b in buf[n:]):
            fail("read ud=%d: buffer bytes beyond the reported count were written (%s, result %d%s)" % (ud, buf, n, ", cancelled" if e is not None and e["cancelled"] else ""))
    return out


def features(case, obs):
    f = set()
    for c, o in zip(case["script"], obs.get("obs", [])):
        if c[0] == "push":
            if o is False:
                f.add("push_refused")
            if c[4] & REJECTED:
                f.add("unsupported_flag")
        if c[0] == "next" and isinstance(o, list):
            f.add("cqe")
            if o[1] == ECANCELED:
                f.add("cancelled")
            if o[1] == EBADF:
                f.add("ebadf")
            if o[3] == "PermissionDenied":
                f.add("no_access")
            if o[1] == ENOENT:
                f.add("enoent")
        if c[0] == "next" and o is None:
            f.add("empty_next")
        if c[0] == "crash":
            f.add("crash")
    return f


# ---- generators -------------------------------------------------------------

def gen_direct(rng, size=None, flavour=None):
    lat = rng.choice([None, 0, 50, 100, 100, 1000, 5000])
    cache = None
    if lat and rng.random() < 0.3:
        cache = {"page_size": rng.choice([4, 8, 4096]), "max_pages": rng.choice([1, 2, 3, 8])}
    nfiles = rng.choice([1, 1, 2])
    cfg = {"mode": "direct", "seed": rng.randrange(1 << 30), "lat_ns": lat, "cache": cache, "nfiles": nfiles}
    if rng.random() < 0.15:
        cfg["capacity"] = rng.choice([4, 8, 12, 20, 40])
    L = lat or 0
    s = []
    now = 0
    fds = []          # [file, open]
    rings = []        # {"depth","sqn","alive","out":set(uds)}
    next_ud = [1]
    done_uds = []
    crash_ok = rng.random() < 0.3

    def fresh_ud():
        next_ud[0] += 1
        return next_ud[0]

    def advance(dt):
        nonlocal now
        now += dt
        s.append(["now", now])

    def pick_fd():
        r = rng.random()
        if fds and r < 0.85:
            op = [k for k, f in enumerate(fds) if f[1]]
            if op and rng.random() < 0.9:
                return rng.choice(op)
            return rng.randrange(len(fds))
        return 100 + rng.randrange(3)           # never opened

    def rand_data():
        return [rng.randrange(1, 256) for _ in range(rng.choice([0, 1, 1, 2, 3, 5, 8]))]

    def rand_op(r):
        x = rng.random()
        if x < 0.32:
            return ["read", pick_fd(), rng.choice([0, 0, 1, 2, 4, 7, 12, 4096]), rng.choice([0, 1, 2, 4, 6, 8])]
        if x < 0.64:
            return ["write", pick_fd(), rng.choice([0, 0, 1, 2, 3, 5, 9, 4096]), rand_data()]
        if x < 0.78:
            return ["fsync", pick_fd()]
        out = sorted(r["out"])
        y = rng.random()
        if out and y < 0.7:
            return ["cancel", rng.choice(out)]
        if done_uds and y < 0.85:
            return ["cancel", rng.choice(done_uds)]
        return ["cancel", 900 + rng.randrange(5)]

    def rand_flags():
        x = rng.random()
        if x < 0.78:
            return 0
        if x < 0.86:
            return 16
        return rng.choice([1, 2, 4, 8, 32, 3, 20, 48, 63])

    def drain(ri, count=None, late=False):
        r = rings[ri]
        s.append(["cq_new", ri])
        if rng.random() < 0.92:
            s.append(["sync", ri])
        k = count if count is not None else rng.choice([0, 1, 1, 2, 3, len(r["out"]), len(r["out"]) + 1])
        for _ in range(k):
            s.append(["next", ri])
            if rng.random() < 0.08:
                s.append(["sync", ri])

    def rand_mode():
        return rng.choice(["rw"] * 6 + ["r", "w"])

    s.append(["open", rng.randrange(nfiles), rand_mode()])
    fds.append([s[-1][1], True])
    size = size or rng.randrange(10, 45)
    for _ in range(size):
        x = rng.random()
        live = [i for i, r in enumerate(rings) if r["alive"]]
        anyr = [i for i, r in enumerate(rings) if not r.get("dropped")]
        if not anyr or (x < 0.04 and len(rings) < 3):
            e = rng.choice([1, 1, 2, 2, 3, 4, 4, 5, 8, 0])
            s.append(["new", e])
            if e > 0:
                rings.append({"depth": pow2ceil(e), "sqn": 0, "alive": True, "out": set(), "queued": []})
        elif x < 0.10 and len(fds) < 5:
            s.append(["open", rng.randrange(nfiles), rand_mode()])
            fds.append([s[-1][1], True])
        elif x < 0.14 and any(f[1] for f in fds):
            k = rng.choice([k for k, f in enumerate(fds) if f[1]])
            fds[k][1] = False
            s.append(["close", k])
        elif x < 0.50:
            ri = rng.choice(live) if live and rng.random() < 0.95 else rng.choice(anyr)
            r = rings[ri]
            burst = rng.choice([1, 1, 2, 3, r["depth"], r["depth"] + 1])
            for _ in range(burst):
                ud = fresh_ud()
                s.append(["push", ri, rand_op(r), ud, rand_flags()])
                if r["alive"] and r["sqn"] < r["depth"]:
                    r["sqn"] += 1
                    r["queued"].append(ud)
            if rng.random() < 0.1:
                s.append(["sqinfo", ri])
        elif x < 0.66:
            ri = rng.choice(live) if live and rng.random() < 0.95 else rng.choice(anyr)
            r = rings[ri]
            if rng.random() < 0.04:
                s.append(["submit", ri, 3])          # malformed timespec: refused, nothing scheduled
            s.append(["submit", ri, rng.choice([0, 0, 0, 1, 2])])
            if r["alive"]:
                r["out"].update(r["queued"])
            r["queued"], r["sqn"] = [], 0
        elif x < 0.78:
            advance(rng.choice([0, 1, max(L - 1, 0), L, L, L + 1, 99, 100, 2 * L + 7]))
        elif x < 0.90:
            ri = rng.choice(live) if live and rng.random() < 0.95 else rng.choice(anyr)
            drain(ri)
        elif x < 0.92:
            ri = rng.choice(anyr)
            s.append(["readable", ri])
        elif x < 0.955 and any(f[1] for f in fds):
            k = rng.choice([k for k, f in enumerate(fds) if f[1]])
            y = rng.random()
            if y < 0.4:
                s.append(["sread", k, rng.choice([0, 1, 3]), rng.choice([1, 4, 16])])
            elif y < 0.8:
                s.append(["swrite", k, rng.choice([0, 2, 6]), rand_data()])
            else:
                s.append(["ssync", k])
        elif x < 0.97:
            s.append(["dump", rng.randrange(nfiles)])
        elif x < 0.98 and live and len(rings) > 1:
            ri = rng.choice(live)
            rings[ri]["alive"] = False
            rings[ri]["dropped"] = True
            s.append(["drop_ring", ri])
        elif crash_ok:
            s.append(["crash"])
            for f in fds:
                f[1] = False
            for r in rings:
                r["alive"] = False
            if rng.random() < 0.7:
                for f in range(nfiles):
                    s.append(["dump", f])
    full = rng.random() < 0.8
    if full:
        for ri, r in enumerate(rings):
            if not r.get("dropped"):
                s.append(["submit", ri, 0])
                if r["alive"]:
                    r["out"].update(r["queued"])
                r["queued"] = []
        advance(2 * L + 200)
        for ri, r in enumerate(rings):
            if r.get("dropped"):
                continue
            s.append(["cq_new", ri])
            s.append(["sync", ri])
            for _ in range(len(r["out"]) + len(r["queued"]) + 2):
                s.append(["next", ri])
            s.append(["sync", ri])
            s.append(["next", ri])
    for f in range(nfiles):
        s.append(["dump", f])
    return {"cfg": cfg, "script": s, "flavour": "direct", "full_drain": full}


def gen_dup(rng):
    """Several identical operations sharing one user_data, in flight at the same time
    (submitted at the same instant, so that which of them a cancel-by-user_data hits is
    not observable), cancelled by user_data, then drained completely."""
    L = rng.choice([100, 100, 200])
    cfg = {"mode": "direct", "seed": rng.randrange(1 << 30), "lat_ns": L, "cache": None, "nfiles": 1}
    s = [["open", 0], ["new", 8]]
    now = 0
    extra = 20
    for _ in range(rng.randrange(2, 5)):
        u = rng.choice([5, 6])
        op = rng.choice([["fsync", 0], ["read", 0, 0, 2]])
        k = rng.choice([2, 2, 3, 4])
        for _ in range(k):
            s.append(["push", 0, op, u, 0])
        if rng.random() < 0.5:
            extra += 1
            s.append(["push", 0, ["write", 0, rng.randrange(4), [rng.randrange(1, 200)]], extra, 0])
        s.append(["submit", 0, 0])
        for _ in range(rng.choice([0, 1, 1, 2])):
            if rng.random() < 0.5:
                now += rng.choice([10, L // 2])
                s.append(["now", now])
            extra += 1
            s.append(["push", 0, ["cancel", u], extra, 0])
            s.append(["submit", 0, 0])
        if rng.random() < 0.4:
            s += [["cq_new", 0], ["sync", 0]] + [["next", 0]] * 3       # only cancellation results so far
        now += L + rng.choice([0, 1, 50])
        s.append(["now", now])
        s += [["cq_new", 0], ["sync", 0]] + [["next", 0]] * 14
    s.append(["dump", 0])
    return {"cfg": cfg, "script": s, "flavour": "dup", "full_drain": True}


def gen_capacity(rng):
    """Finite disk: writes that start at, before and beyond the end of file (the zero-filled gap is
    charged), through the ring and through the synchronous API, with fsyncs in between (they change
    what Fs::used_bytes charges) and a crash; drained completely."""
    L = rng.choice([0, 100, 100])
    cap = rng.choice([6, 8, 10, 16, 24])
    nfiles = rng.choice([1, 2])
    cfg = {"mode": "direct", "seed": rng.randrange(1 << 30), "lat_ns": L, "cache": None, "nfiles": nfiles, "capacity": cap}
    s = [["open", 0], ["new", 8]]
    nfd = 1
    if nfiles == 2:
        s.append(["open", 1])
        nfd = 2
    now = 0
    ud = 10
    for _ in range(rng.randrange(3, 9)):
        burst = rng.choice([1, 1, 2, 3])
        for _ in range(burst):
            ud += 1
            k = rng.randrange(nfd)
            x = rng.random()
            if x < 0.7:
                off = rng.choice([0, 1, 2, 3, 5, 8, 12, cap - 1, cap, cap + 3])
                data = [rng.randrange(1, 250) for _ in range(rng.choice([0, 1, 1, 2, 3, 4]))]
                if rng.random() < 0.25:
                    s.append(["swrite", k, off, data])
                    continue
                s.append(["push", 0, ["write", k, off, data], ud, 0])
            elif x < 0.85:
                s.append(["push", 0, ["fsync", k], ud, 0])
            else:
                s.append(["push", 0, ["read", k, 0, 8], ud, 0])
        s.append(["submit", 0, 0])
        now += L
        s += [["now", now], ["cq_new", 0], ["sync", 0]] + [["next", 0]] * (burst + 1)
        y = rng.random()
        if y < 0.15:
            s.append(["ssync", rng.randrange(nfd)])
        elif y < 0.2:
            s.append(["crash"])
            s += [["open", f] for f in range(nfiles)]
            s.append(["new", 8])
            # descriptors and ring numbers continue after the crash
            return _capacity_tail(rng, s, cfg, now, L, ud, nfd, nfiles, cap)
        if rng.random() < 0.3:
            s.append(["dump", rng.randrange(nfiles)])
    for f in range(nfiles):
        s.append(["dump", f])
    return {"cfg": cfg, "script": s, "flavour": "capacity", "full_drain": True}


def _capacity_tail(rng, s, cfg, now, L, ud, nfd, nfiles, cap):
    base = nfd
    for _ in range(rng.randrange(1, 4)):
        ud += 1
        k = base + rng.randrange(nfiles)
        off = rng.choice([0, 2, 5, cap - 1, cap + 2])
        s.append(["push", 1, ["write", k, off, [rng.randrange(1, 250) for _ in range(rng.choice([1, 2, 4]))]], ud, 0])
        s.append(["submit", 1, 0])
        now += L
        s += [["now", now], ["cq_new", 1], ["sync", 1], ["next", 1], ["next", 1]]
    for f in range(nfiles):
        s.append(["dump", f])
    return {"cfg": cfg, "script": s, "flavour": "capacity", "full_drain": False}


def gen_rings(rng):
    """Ring lifecycle on one host: several rings created, used and dropped in every order (the older
    first, the younger first, with submissions in flight on the others), new rings created
    afterwards, operations on every live ring, everything drained at the end.  Per ring: every
    submitted entry completes exactly once, on its own ring, and takes effect."""
    L = rng.choice([0, 100, 100, 1000])
    nfiles = rng.choice([1, 2])
    cfg = {"mode": "direct", "seed": rng.randrange(1 << 30), "lat_ns": L, "cache": None, "nfiles": nfiles}
    s = [["open", f % nfiles] for f in range(2)]
    now = 0
    ud = 100
    rings = []          # index -> alive
    outstanding = {}

    def new_ring():
        s.append(["new", rng.choice([1, 2, 4, 8])])
        rings.append(True)
        outstanding[len(rings) - 1] = 0

    def use(r, n=None):
        nonlocal ud
        for _ in range(n or rng.choice([1, 1, 2])):
            ud += 1
            k = rng.randrange(2)
            x = rng.random()
            if x < 0.55:
                op = ["write", k, rng.choice([0, 1, 2, 4, 6]), [ud % 250 + 1 for _ in range(rng.choice([1, 2, 3]))]]
            elif x < 0.85:
                op = ["read", k, 0, 8]
            else:
                op = ["fsync", k]
            s.append(["push", r, op, ud, 0])
        s.append(["submit", r, 0])
        outstanding[r] += 2

    def drain(r, full=False):
        s.extend([["cq_new", r], ["sync", r]] + [["next", r]] * (outstanding[r] + 2 if full else rng.choice([1, 2])))

    for _ in range(rng.choice([2, 2, 3])):
        new_ring()
    live = lambda: [i for i, a in enumerate(rings) if a]
    for _ in range(rng.randrange(3, 8)):
        for r in live():
            if rng.random() < 0.7:
                use(r)
        x = rng.random()
        if x < 0.45 and len(live()) >= 2:
            lv = live()
            victim = lv[0] if rng.random() < 0.6 else rng.choice(lv)       # mostly the OLDER one
            rings[victim] = False
            s.append(["drop_ring", victim])
            if rng.random() < 0.8:
                for _ in range(rng.choice([1, 2, 2, 3])):                   # new rings after the drop
                    new_ring()
                    if rng.random() < 0.7:
                        use(len(rings) - 1)
        elif x < 0.7:
            now += rng.choice([L // 2, L, L + 1])
            s.append(["now", now])
            for r in live():
                if rng.random() < 0.6:
                    drain(r)
        elif x < 0.8:
            s.append(["readable", rng.choice(live())])
        if not live():
            new_ring()
    now += 2 * L + 10
    s.append(["now", now])
    for r in live():
        s.append(["readable", r])
        drain(r, full=True)
    for f in range(nfiles):
        s.append(["dump", f])
    return {"cfg": cfg, "script": s, "flavour": "rings", "full_drain": True}


def exhaustive_rings():
    """two or three rings with one write in flight on each; every choice of the ring that is dropped;
    two new rings afterwards, one of them used; everything drained"""
    out = []
    L = 100
    for n in (2, 3):
        for victim in range(n):
            for use_new in (0, 1):
                s = [["open", 0]]
                for r in range(n):
                    s += [["new", 2], ["push", r, ["write", 0, 2 * r, [10 + r, 20 + r]], 50 + r, 0], ["submit", r, 0]]
                s.append(["drop_ring", victim])
                s += [["new", 2], ["new", 2]]
                s += [["push", n + use_new, ["write", 0, 8, [99]], 70, 0], ["submit", n + use_new, 0], ["now", L]]
                for r in range(n + 2):
                    if r != victim:
                        s += [["readable", r], ["cq_new", r], ["sync", r], ["next", r], ["next", r]]
                s.append(["dump", 0])
                cfg = {"mode": "direct", "seed": len(out), "lat_ns": L, "cache": None, "nfiles": 1}
                out.append({"cfg": cfg, "script": s, "flavour": "rings-exhaustive", "full_drain": True})
    return out


def gen_direct_io(rng):
    """Page cache on, latency well above the hit latency, O_DIRECT and buffered descriptors on the
    same file: repeated reads (and writes) of one page through both kinds of descriptor.  An
    O_DIRECT operation never hits the cache: it is never visible before the configured latency."""
    L = rng.choice([1000, 5000])
    ps = rng.choice([8, 4096])
    cfg = {"mode": "direct", "seed": rng.randrange(1 << 30), "lat_ns": L,
           "cache": {"page_size": ps, "max_pages": rng.choice([2, 4, 8])}, "nfiles": 1}
    s = [["open", 0, "rwd"], ["open", 0, rng.choice(["rw", "rwd"])], ["new", 8]]
    now = 0
    ud = 10
    for _ in range(rng.randrange(2, 6)):
        t0 = now
        for _ in range(rng.choice([1, 2, 3])):
            ud += 1
            k = rng.choice([0, 0, 1])
            off = rng.choice([0, 0, 1, 2, ps])
            if rng.random() < 0.7:
                op = ["read", k, off, rng.choice([1, 2, 4])]
            else:
                op = ["write", k, off, [ud % 250 + 1]]
            s.append(["push", 0, op, ud, 0])
        s.append(["submit", 0, 0])
        for dt in sorted(set(rng.sample([99, 100, 101, L // 2, L - 1, L], rng.choice([2, 3])))):
            now = t0 + dt
            s.append(["now", now])
            if rng.random() < 0.6:
                s += [["cq_new", 0], ["sync", 0]] + [["next", 0]] * rng.choice([0, 1, 4])
            else:
                s.append(["readable", 0])
        now = t0 + L
        s += [["now", now], ["cq_new", 0], ["sync", 0]] + [["next", 0]] * 4
    now += 2 * L
    s += [["now", now], ["cq_new", 0], ["sync", 0]] + [["next", 0]] * 16 + [["dump", 0]]
    return {"cfg": cfg, "script": s, "flavour": "direct-io", "full_drain": True}


def gen_cache(rng):
    """Page cache on, I/O latency min=max well above the 100 ns cache-hit latency: a page is made
    resident (buffered ring read or ring write, plus synchronous accesses, which do not touch the
    cache), then ring reads and ring WRITES to the same and to other pages are submitted and the
    ring is inspected just before / at / after the hit latency and the configured latency.  A read
    of a resident page may complete after 100 ns; a write always waits for the configured latency."""
    L = rng.choice([1000, 5000, 10000])
    ps = rng.choice([8, 8, 4096])
    cfg = {"mode": "direct", "seed": rng.randrange(1 << 30), "lat_ns": L,
           "cache": {"page_size": ps, "max_pages": rng.choice([1, 2, 3, 8])}, "nfiles": rng.choice([1, 2])}
    nfiles = cfg["nfiles"]
    s = [["open", 0], ["new", 8]]
    nfd = 1
    if nfiles == 2 or rng.random() < 0.3:
        s.append(["open", nfiles - 1])
        nfd = 2
    now = 0
    ud = 10
    offs = [0, 1, ps - 1, ps, ps + 1, 2 * ps, 3 * ps + 2]
    for _ in range(rng.randrange(2, 6)):
        # make some page resident (or not)
        k = rng.randrange(nfd)
        page_off = rng.choice(offs)
        pre = rng.choice(["read", "write", "sread", "none", "read"])
        if pre in ("read", "write"):
            ud += 1
            op = ["read", k, page_off, 2] if pre == "read" else ["write", k, page_off, [rng.randrange(1, 250)]]
            s += [["push", 0, op, ud, 0], ["submit", 0, 0]]
            now += L
            s += [["now", now], ["cq_new", 0], ["sync", 0], ["next", 0], ["next", 0]]
        elif pre == "sread":
            s.append(["sread", k, page_off, 2])
        # the operations under test
        t0 = now
        for _ in range(rng.choice([1, 1, 2, 3])):
            ud += 1
            same = rng.random() < 0.7
            off = (page_off // ps) * ps + rng.randrange(min(ps, 6)) if same else rng.choice(offs)
            if rng.random() < 0.65:
                op = ["write", k if same else rng.randrange(nfd), off, [rng.randrange(1, 250) for _ in range(rng.choice([1, 2]))]]
            else:
                op = ["read", k if same else rng.randrange(nfd), off, rng.choice([1, 2, 4])]
            s.append(["push", 0, op, ud, 0])
        s.append(["submit", 0, 0])
        for dt in sorted(set(rng.sample([0, 99, 100, 101, L // 2, L - 1, L, L + 1], rng.choice([2, 3, 4])))):
            now = t0 + dt
            s.append(["now", now])
            y = rng.random()
            if y < 0.5:
                s += [["cq_new", 0], ["sync", 0]] + [["next", 0]] * rng.choice([0, 1, 4])
            elif y < 0.8:
                s += [["cq_new", 0], ["sync", 0]]
            else:
                s.append(["readable", 0])
        now = max(now, t0 + L)
    now += 2 * L
    s += [["now", now], ["cq_new", 0], ["sync", 0]] + [["next", 0]] * 16
    for f in range(nfiles):
        s.append(["dump", f])
    return {"cfg": cfg, "script": s, "flavour": "cache", "full_drain": True}


def exhaustive_cache():
    """resident / not resident  x  read / write  x  inspection instant, page cache on, L = 1000 ns"""
    out = []
    L = 1000
    for pre in ("none", "read", "write"):
        for kind in ("read", "write"):
            for same_page in (True, False):
                for t in (99, 100, 101, L - 1, L):
                    s = [["open", 0], ["new", 4]]
                    now = 0
                    if pre != "none":
                        op = ["read", 0, 0, 2] if pre == "read" else ["write", 0, 1, [9]]
                        s += [["push", 0, op, 11, 0], ["submit", 0, 0], ["now", L], ["cq_new", 0], ["sync", 0], ["next", 0]]
                        now = L
                    off = 2 if same_page else 8
                    op = ["read", 0, off, 2] if kind == "read" else ["write", 0, off, [7, 8]]
                    s += [["push", 0, op, 12, 0], ["submit", 0, 0], ["now", now + t], ["readable", 0], ["cq_new", 0], ["sync", 0],
                          ["next", 0], ["now", now + 2 * L], ["cq_new", 0], ["sync", 0], ["next", 0], ["next", 0], ["dump", 0]]
                    cfg = {"mode": "direct", "seed": len(out), "lat_ns": L, "cache": {"page_size": 8, "max_pages": 4}, "nfiles": 1}
                    out.append({"cfg": cfg, "script": s, "flavour": "cache-exhaustive", "full_drain": True})
    return out


def exhaustive_small():
    """Every interleaving class of one write, one read of the same bytes and a
    cancel of either, with drains before/at/after the latency, depth 1..2."""
    out = []
    L = 100
    for depth in (1, 2):
        for target in (None, 11, 12, 13):
            for t_drain in (0, L - 1, L, L + 1):
                for cancel_late in (False, True):
                    for partial in (0, 1, 5):
                        s = [["open", 0], ["new", depth]]
                        s.append(["push", 0, ["write", 0, 1, [5, 6, 7]], 11, 0])
                        s.append(["push", 0, ["read", 0, 0, 6], 12, 0])      # refused when depth = 1
                        s.append(["submit", 0, 0])
                        if depth == 1:
                            s.append(["push", 0, ["read", 0, 0, 6], 12, 0])
                            s.append(["submit", 0, 0])
                        if cancel_late:
                            s.append(["now", t_drain])
                        if target is not None:
                            s.append(["push", 0, ["cancel", target], 20, 0])
                            s.append(["submit", 0, 0])
                        s.append(["now", t_drain])
                        s += [["cq_new", 0], ["sync", 0]] + [["next", 0]] * partial
                        s.append(["now", 3 * L])
                        s += [["cq_new", 0], ["sync", 0]] + [["next", 0]] * 5 + [["dump", 0]]
                        cfg = {"mode": "direct", "seed": len(out), "lat_ns": L, "cache": None, "nfiles": 1}
                        out.append({"cfg": cfg, "script": s, "flavour": "exhaustive", "full_drain": True})
    return out


# ---- sim mode: host software inside a real turmoil::Sim ---------------------
#
# A sim case is converted, together with its observations, into the equivalent
# direct-mode command list (explicit clock, global descriptor / ring numbers,
# the consumer loop `await_cqe` unrolled into cq_new / sync / next / readable),
# so that model rendering, comparison and oracle are shared with direct mode.

def _shift(cmd, fd_off, ring_off):
    c = json.loads(json.dumps(cmd))
    n = c[0]
    if n in ("close", "sread", "swrite", "ssync"):
        c[1] += fd_off
    elif n in ("drop_ring", "submit", "cq_new", "sync", "next", "readable", "sqinfo", "await_cqe", "spawn_reaper"):
        c[1] += ring_off
    elif n == "push":
        c[1] += ring_off
        if c[2][0] != "cancel" and c[2][1] < 100:
            c[2][1] += fd_off
    return c


def sim_to_direct(case, obs):
    cfg = case["cfg"]
    tick = cfg["tick_ns"]
    script, out = [], []
    fd_off = ring_off = 0
    nfd = nring = 0
    pending = None          # (shifted cmd) of an await_cqe not yet completed
    reaper = None           # {"ring", "parked"}: second task draining a ring
    problems = []
    reaped_all = obs.get("reaped") or []
    order_all = obs.get("order") or []
    for k, (st, outs) in enumerate(zip(case["script"], obs["obs"])):
        script.append(["now", k * tick])
        out.append(None)
        if st.get("ctl") == "crash":
            script.append(["crash"])
            out.append(None)
            pending = None
            reaper = None
        elif st.get("ctl") == "bounce":
            fd_off, ring_off = nfd, nring
        outs = list(outs)
        cmds = [_shift(c, fd_off, ring_off) for c in st.get("cmds", [])]
        if pending is not None:
            cmds = [pending] + cmds
            pending = None
        # --- interpreter task: one group of direct-mode (command, observation) pairs per output
        igroups = []
        tail = []            # virtual observations at the end of the step
        for c in cmds:
            if c[0] == "await_cqe":
                if not outs:
                    tail.append((["readable", c[1]], 0))      # still waiting: not readable at this step
                    pending = c
                    break
                o = outs.pop(0)
                if not isinstance(o, dict):
                    problems.append("await_cqe returned %s" % o)
                    continue
                g = []
                first = True
                for (stp, vis, cqe) in o["iters"]:
                    if stp != k and not first:
                        problems.append("await iteration at step %d reported in step %d" % (stp, k))
                    if not first or stp == k:
                        if not first:
                            g.append((["readable", c[1]], 1))
                        g += [(["cq_new", c[1]], None), (["sync", c[1]], [vis, vis == 0]), (["next", c[1]], cqe)]
                    first = False
                igroups.append(g)
                if o["iters"] and o["iters"][-1][2] is None:
                    pending = c
                    break
                continue
            if not outs:
                problems.append("step %d: command %s was not executed" % (k, c))
                break
            o = outs.pop(0)
            if c[0] == "new" and isinstance(o, int) and o >= 0:
                o += ring_off            # the restarted software numbers its rings from 0 again
            igroups.append([(c, o)])
            if c[0] == "open":
                nfd += 1
            if c[0] == "new" and c[1] > 0:
                nring += 1
            if c[0] == "spawn_reaper":
                reaper = {"ring": c[1], "parked": False, "fresh": True}
        if outs:
            problems.append("step %d: %d unexplained outputs" % (k, len(outs)))
        # --- reaper task: one group per logged iteration
        rgroups = []
        entries = reaped_all[k] if k < len(reaped_all) else []
        for (stp, vis, cqe) in entries:
            if reaper is None:
                problems.append("step %d: reaper output without a reaper" % k)
                break
            if vis == -1:
                problems.append("reaper lost its ring at step %d" % stp)
                continue
            g = []
            if reaper["parked"]:
                g.append((["readable", reaper["ring"]], 1))       # readable() returned Ok
                reaper["parked"] = False
            g += [(["cq_new", reaper["ring"]], None), (["sync", reaper["ring"]], [vis, vis == 0]), (["next", reaper["ring"]], cqe)]
            if cqe is None:
                reaper["parked"] = True
            rgroups.append(g)
        # --- merge in the order the two tasks actually ran
        order = order_all[k] if k < len(order_all) else [0] * len(igroups)
        ii = ri = 0
        for who in order:
            if who == 0 and ii < len(igroups):
                g = igroups[ii]
                ii += 1
            elif who == 1 and ri < len(rgroups):
                g = rgroups[ri]
                ri += 1
            else:
                continue
            for (c, o) in g:
                script.append(c)
                out.append(o)
        for g in igroups[ii:] + rgroups[ri:]:
            for (c, o) in g:
                script.append(c)
                out.append(o)
        if reaper is not None and reaper["parked"] and not entries:
            tail.append((["readable", reaper["ring"]], 0))        # parked in readable() during the whole step
        for (c, o) in tail:
            script.append(c)
            out.append(o)
    dcfg = dict(cfg)
    dcfg["mode"] = "direct"
    dcase = {"cfg": dcfg, "script": script, "full_drain": case.get("full_drain", False)}
    return dcase, {"obs": out, "bufs": [], "panic": obs.get("panic")}, problems


def gen_sim_reaper(rng):
    """Sim mode, two tasks of one host: a reaper is started on an idle ring first (it parks in
    AsyncFd::readable() with nothing in flight), the other task submits later, with idle steps in
    between; the reaper alone drains.  By the end of the bounded run every accepted submission
    must have been completed exactly once (full_drain)."""
    tick = 1000000
    lat = rng.choice([0, 500000, 1000000, 1500000, 2500000, 3000000])
    cfg = {"mode": "sim", "seed": rng.randrange(1 << 30), "lat_ns": lat, "tick_ns": tick, "nfiles": 1, "cache": None}
    wait_steps = (lat + tick - 1) // tick + 2
    steps = [{"ctl": None, "cmds": [["open", 0], ["new", rng.choice([2, 4, 8])], ["spawn_reaper", 0]]}]
    ud = 10
    for _ in range(rng.randrange(1, 5)):
        for _ in range(rng.choice([0, 1, 2, wait_steps])):
            steps.append({"ctl": None, "cmds": []})
        cmds = []
        for _ in range(rng.choice([1, 1, 2])):
            ud += 1
            x = rng.random()
            if x < 0.5:
                op = ["write", 0, rng.choice([0, 1, 3]), [rng.randrange(1, 250) for _ in range(rng.choice([1, 2, 3]))]]
            elif x < 0.8:
                op = ["read", 0, 0, 4]
            elif x < 0.9:
                op = ["fsync", 0]
            else:
                op = ["cancel", ud - 1]
            cmds.append(["push", 0, op, ud, rng.choice([0, 0, 0, 16, 4])])
        cmds.append(["submit", 0, 0])
        steps.append({"ctl": None, "cmds": cmds})
    for _ in range(wait_steps + 1):
        steps.append({"ctl": None, "cmds": []})
    steps.append({"ctl": None, "cmds": [["dump", 0]]})
    return {"cfg": cfg, "script": steps, "flavour": "sim-reaper", "full_drain": True}


def gen_sim(rng):
    tick = 1000000
    lat = rng.choice([None, 0, 500000, 1000000, 1500000, 2000000, 3000000])
    nfiles = rng.choice([1, 2])
    cfg = {"mode": "sim", "seed": rng.randrange(1 << 30), "lat_ns": lat, "tick_ns": tick, "nfiles": nfiles, "cache": None}
    L = lat or 0
    wait_steps = (L + tick - 1) // tick + 1
    steps = []
    ud = [10]

    def boot():
        return {"fds": 0, "rings": [], "up": True}

    b = boot()
    nsteps = rng.randrange(6, 16)
    crashed = False
    k = 0
    while k < nsteps:
        cmds = []
        ctl = None
        if crashed:
            if rng.random() < 0.5:
                ctl = "bounce"
                crashed = False
                b = boot()
            else:
                steps.append({"ctl": None, "cmds": []})
                k += 1
                continue
        elif k > 2 and rng.random() < 0.12:
            steps.append({"ctl": "crash", "cmds": []})
            crashed = True
            k += 1
            continue
        if b["fds"] == 0 or rng.random() < 0.1:
            cmds.append(["open", rng.randrange(nfiles), rng.choice(["rw", "rw", "rw", "r", "w"])])
            b["fds"] += 1
        if not b["rings"] or rng.random() < 0.05:
            e = rng.choice([1, 2, 4, 8])
            cmds.append(["new", e])
            b["rings"].append({"depth": pow2ceil(e), "out": 0})
        r = rng.randrange(len(b["rings"]))
        ring = b["rings"][r]
        npush = rng.choice([0, 1, 1, 2, 3])
        pushed = 0
        for _ in range(npush):
            ud[0] += 1
            fd = rng.randrange(b["fds"]) if rng.random() < 0.9 else 100
            x = rng.random()
            if x < 0.35:
                op = ["read", fd, rng.choice([0, 1, 2, 4]), rng.choice([1, 2, 4, 6])]
            elif x < 0.7:
                op = ["write", fd, rng.choice([0, 1, 3, 5]), [rng.randrange(1, 256) for _ in range(rng.choice([1, 2, 3, 5]))]]
            elif x < 0.85:
                op = ["fsync", fd]
            else:
                op = ["cancel", ud[0] - rng.choice([1, 2, 3])]
            cmds.append(["push", r, op, ud[0], rng.choice([0, 0, 0, 0, 16, 4])])
            pushed += 1
        if pushed and rng.random() < 0.9:
            cmds.append(["submit", r, 0])
            ring["out"] += min(pushed, ring["depth"])
        y = rng.random()
        if y < 0.35 and ring["out"] > 0:
            cmds.append(["await_cqe", r])
            ring["out"] -= 1
            steps.append({"ctl": ctl, "cmds": cmds})
            k += 1
            for _ in range(wait_steps):
                steps.append({"ctl": None, "cmds": []})
                k += 1
            continue
        if y < 0.7:
            cmds += [["cq_new", r], ["sync", r]] + [["next", r]] * rng.choice([1, 2, 4])
            ring["out"] = max(0, ring["out"] - 1)
        if rng.random() < 0.15:
            cmds.append(["dump", rng.randrange(nfiles)])
        if rng.random() < 0.1:
            cmds.append(["ssync", rng.randrange(b["fds"])])
        steps.append({"ctl": ctl, "cmds": cmds})
        k += 1
    # final drain after the latency has surely elapsed (if the host is up)
    if not crashed:
        for _ in range(wait_steps):
            steps.append({"ctl": None, "cmds": []})
        cmds = []
        for r in range(len(b["rings"])):
            cmds += [["cq_new", r], ["sync", r]] + [["next", r]] * 12
        for f in range(nfiles):
            cmds.append(["dump", f])
        steps.append({"ctl": None, "cmds": cmds})
    return {"cfg": cfg, "script": steps, "flavour": "sim", "full_drain": False}


def histogram(cases):
    h = {"cases": len(cases), "cmds": {}, "ops": {}, "flags": {"ok": 0, "rejected": 0}, "latency": {}, "cache": 0,
         "modes": {}, "full_drain": 0}
    for c in cases:
        h["modes"][c["cfg"].get("mode", "direct")] = h["modes"].get(c["cfg"].get("mode", "direct"), 0) + 1
        k = str(c["cfg"].get("lat_ns"))
        h["latency"][k] = h["latency"].get(k, 0) + 1
        h["cache"] += 1 if c["cfg"].get("cache") else 0
        h["full_drain"] += 1 if c.get("full_drain") else 0
        script = c["script"]
        if c["cfg"].get("mode") == "sim":
            script = [x for st in script for x in st.get("cmds", [])]
        for cmd in script:
            h["cmds"][cmd[0]] = h["cmds"].get(cmd[0], 0) + 1
            if cmd[0] == "push":
                h["ops"][cmd[2][0]] = h["ops"].get(cmd[2][0], 0) + 1
                h["flags"]["rejected" if cmd[4] & REJECTED else "ok"] += 1
    return h
