"""The fixed per-property pipeline (DESIGN.md section 1)."""
import json
import os
from pathlib import Path

from vlib import (VERIF, Ctx, TRUSTED_BASE_COMMON, coq_build, coq_eval, coq_props, fingerprint_delta,
                  fingerprints, finish, grep_forbidden, harness_build, harness_run, load_known,
                  translate_consts)


class PropSpec:
    """Static description of one property's check."""
    pid = None
    subsys = None            # coq/<subsys>
    props_file = None        # e.g. "C03.v"
    theorems = []            # names that must appear under Print Assumptions, closed
    coq_targets = None       # list of .vo, None = whole subsystem
    consts = []              # translator table
    anchors = []             # (file, fn) fingerprinted
    harness_bins = []
    coq_header = ""
    model_name = ""          # name used in corr:<model>
    trusted_extra = []
    assumptions = []
    partial_note = None

    # --- family hooks -----------------------------------------------------
    def corpus(self, ctx):
        d = VERIF / "corpus" / self.pid
        out = []
        if d.exists():
            for p in sorted(d.glob("*.json")):
                c = json.loads(p.read_text())
                c["corpus"] = p.name
                out.append(c)
        return out

    def gen_cases(self, ctx):
        raise NotImplementedError

    def harness_bin(self, case):
        return self.harness_bins[0]

    def to_model(self, case, obs):
        raise NotImplementedError

    def compare(self, case, obs, model, probes):
        raise NotImplementedError

    def oracle(self, case, obs):
        """Independent statement of the property on the implementation trace.
        Returns list of (failure text, class key or None)."""
        return []

    def nontrivial(self, case, obs):
        return True

    def signature(self, case):
        return json.dumps(case, sort_keys=True)

    def histogram(self, cases):
        return {"cases": len(cases)}

    def shrink_range(self, case):
        """(key, lo, hi): case[key][lo:hi] may be delta-debugged without invalidating what the oracle
        assumes about the script (warm-up, final drain...). None = do not shrink."""
        return None

    def extra_checks(self, ctx):
        """Additional per-property checks; may append to ctx.violations."""
        return


def prove(ctx, spec):
    """Steps 1-2: translate, build proofs, re-check the property file."""
    errs = []
    if spec.consts:
        vals, terrs = translate_consts(spec.subsys, spec.consts)
        ctx.cov["translated_constants"] = vals
        errs.extend(terrs)
    fps = fingerprints(spec.anchors)
    changed, new = fingerprint_delta(spec.subsys + ":" + spec.pid, fps)
    ctx.cov["source_fingerprints"] = fps
    ctx.cov["fingerprints_changed_vs_baseline"] = changed
    ok, log = coq_build(spec.subsys, spec.coq_targets)
    if not ok:
        ctx.note("proof build FAILED")
        errs.append("coq build failed:\n" + log[-3000:])
        for t in spec.theorems:
            ctx.obligations[t] = "missing"
    else:
        res, out, pok = coq_props(spec.subsys, spec.props_file, spec.theorems)
        ctx.obligations.update(res)
        if not pok:
            errs.append("property file %s: %s\n%s" % (spec.props_file, res, out[-2000:]))
    if ok and ctx.tier == "thorough" and not errs:
        from vlib import coq_chk
        cok, summ, tail = coq_chk(spec.subsys, spec.props_file)
        ctx.cov["coqchk"] = summ
        if not cok:
            errs.append("coqchk rejected %s: %s\n%s" % (spec.props_file, summ, tail))
    dirs = [spec.subsys] + __import__("vlib").coq_deps_dirs(spec.subsys)
    hits = grep_forbidden(dirs)
    if hits:
        errs.append("forbidden vernacular: " + "; ".join(hits[:10]))
    ctx.cov["forbidden_vernacular_hits"] = len(hits)
    return errs, bool(changed)


def correspond(ctx, spec, cases):
    """Steps 3-5. Returns (disagreements, oracle_failures, stats)."""
    ok, out = harness_build(sorted(set(spec.harness_bins)))
    if not ok:
        return None, None, {"harness_build_error": out[-3000:]}
    by_bin = {}
    for i, c in enumerate(cases):
        c["id"] = i
        by_bin.setdefault(spec.harness_bin(c), []).append(c)
    obs = {}
    herrs = []
    for b, cs in by_bin.items():
        payload = [{k: v for k, v in c.items() if k not in ("flavour", "corpus")} for c in cs]
        r, e = harness_run(b, payload)
        obs.update(r)
        herrs.extend(e)
    terms, metas = [], []
    for c in cases:
        o = obs.get(c["id"])
        if o is None:
            metas.append(None)
            continue
        if o.get("panic"):
            metas.append(("panic", o["panic"]))
            continue
        term, probes, problems = spec.to_model(c, o)
        if term is None:            # oracle-only case: no model rendering for this flavour
            metas.append(("skip", problems))
            continue
        metas.append((len(terms), probes, problems))
        terms.append(term)
    model = coq_eval(spec.subsys, spec.coq_header, terms, tag=spec.pid) if terms else []
    disagreements, failures = [], []
    nontrivial = set()
    validated = 0
    for c, meta in zip(cases, metas):
        o = obs.get(c["id"])
        if o is None:
            disagreements.append((c, None, "harness produced no output for this case"))
            continue
        if meta[0] == "panic":
            d = "implementation panicked: %s" % meta[1]
            m = None
        elif meta[0] == "skip":
            d = "; ".join(meta[1][:3]) if meta[1] else None
            m = None
        else:
            ti, probes, problems = meta
            m = model[ti]
            d = spec.compare(c, o, m, probes)
            if d is None and problems:
                d = "; ".join(problems[:3])
        if d is not None:
            disagreements.append((c, o, d))
        else:
            validated += 1
        for f in spec.oracle(c, o):
            failures.append((c, o, f))
        if spec.nontrivial(c, o):
            nontrivial.add(spec.signature(c))
    stats = {"validated": validated, "nontrivial": len(nontrivial), "harness_errors": herrs[:5]}
    return disagreements, failures, stats


def shrink_case(spec, case, obs, text, budget=40):
    """Delta-debug the op list of a failing case (key 'steps' or 'script'): re-run the
    implementation and the oracle on reduced cases, keep the smallest that still fails."""
    from vlib import shrink
    rng_ = spec.shrink_range(case)
    if rng_ is None:
        return case, obs, text
    key, lo, hi = rng_
    if hi - lo < 2:
        return case, obs, text
    head, tail = case[key][:lo], case[key][hi:]
    best = {"obs": obs, "text": text}
    calls = [0]

    def still_fails(lst):
        if calls[0] >= budget:
            return False
        calls[0] += 1
        c2 = dict(case)
        c2[key] = head + lst + tail
        c2["id"] = 0
        try:
            payload = {k: v for k, v in c2.items() if k not in ("flavour", "corpus")}
            res, _ = harness_run(spec.harness_bin(c2), [payload], timeout=120, shards=1)
            o2 = res.get(0)
            if o2 is None or o2.get("panic"):
                return False
            fs = spec.oracle(c2, o2)
        except Exception:      # a reduced script may be ill-formed for the family
            return False
        if fs:
            best["obs"], best["text"] = o2, fs[0][0]
            return True
        return False

    small = shrink(case[key][lo:hi], still_fails)
    if len(small) < hi - lo:
        c2 = dict(case)
        c2[key] = head + small + tail
        c2["shrunk_from_steps"] = len(case[key])
        return c2, best["obs"], best["text"]
    return case, obs, text


def strip(case):
    return {k: v for k, v in case.items() if k != "id"}


def run_property(spec, tier, seed):
    ctx = Ctx(spec.pid, tier, seed)
    ctx.assumptions = list(spec.assumptions)
    ctx.cov["trusted_base"] = TRUSTED_BASE_COMMON + list(spec.trusted_extra)
    if spec.partial_note:
        ctx.cov["partial"] = spec.partial_note
    ctx.note("prove")
    perrs, changed = prove(ctx, spec)
    ctx.note("generate")
    ctx.escalate = changed
    cases = spec.corpus(ctx) + spec.gen_cases(ctx)
    ctx.cov["evaluations"] = len(cases)
    ctx.cov["generator_distribution"] = spec.histogram(cases)
    ctx.note("correspond (%d cases)" % len(cases))
    dis, fails, stats = correspond(ctx, spec, cases)
    known = [k for k in load_known() if k.get("property") == spec.pid]
    if dis is None:
        ctx.violations.append(("harness-build", {"kind": "harness does not build against /repo",
                                                 "detail": stats}, True))
        ctx.cov["explanation_of_failure"] = "harness build failed"
        return finish(ctx)
    ctx.cov["traces_validated_against_impl"] = stats["validated"]
    ctx.cov["distinct_nontrivial"] = stats["nontrivial"]
    ctx.cov["disagreements"] = len(dis)
    ctx.cov["oracle_failures"] = len(fails)
    if stats["harness_errors"]:
        ctx.cov["harness_errors"] = stats["harness_errors"]
    ctx.cov["samples"] = [strip(c) for c in cases[:2]] + [
        {"obligation": t, "status": str(s)} for t, s in list(ctx.obligations.items())[:3]]
    ctx.cov["rule"] = getattr(spec, "rule", "")
    # --- classify ---------------------------------------------------------
    new_fail = []
    for c, o, (text, klass) in fails:
        hit = next((k for k in known if klass and k.get("class") == klass), None)
        if hit:
            msg = "class=%s %s" % (klass, hit["text"].split(" ", 3)[-1] if " " in hit["text"] else klass)
            if msg not in ctx.known_hits:
                ctx.known_hits.append(msg)
        else:
            new_fail.append((c, o, text))
    spec.extra_checks(ctx)
    if new_fail:
        c, o, text = min(new_fail, key=lambda x: len(json.dumps(x[0])))
        c, o, text = shrink_case(spec, c, o, text)
        ctx.violations.append(("input", {"kind": "failing input", "property": spec.pid, "failure": text,
                                         "case": strip(c), "implementation_observation": o,
                                         "how_to_replay": "./check %s --replay <this file>" % spec.pid,
                                         "other_failing_cases": len(new_fail) - 1}, False))
    elif dis:
        c, o, d = min(dis, key=lambda x: len(json.dumps(x[0])))
        ctx.violations.append(("corr", {"kind": "correspondence broken, property oracle found no failing input",
                                        "broken": "corr:%s" % spec.model_name, "first_disagreement": d,
                                        "case": strip(c), "implementation_observation": o,
                                        "disagreeing_cases": len(dis)}, True))
    elif perrs:
        ctx.violations.append(("proof", {"kind": "proof obligation broken, no failing input found",
                                         "broken": [t for t, s in ctx.obligations.items() if s != "closed"] or perrs[:1],
                                         "detail": perrs}, True))
    return finish(ctx)


def replay(spec, path):
    """Re-run one recorded case and print both sides."""
    obj = json.loads(Path(path).read_text())
    case = obj.get("case")
    if case is None:
        print(json.dumps(obj, indent=1))
        return 0
    ctx = Ctx(spec.pid, "quick", 0)
    dis, fails, stats = correspond(ctx, spec, [case])
    print("disagreements:", [d for _, _, d in dis or []])
    print("oracle failures:", [f for _, _, f in fails or []])
    return 1 if (dis or fails) else 0
