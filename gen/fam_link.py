"""Family `link`: scripts for the real Sim (harness bin `link`) and their
rendering as TV.Link.Model topology events.  Serves C03, C08, C14."""
import json
import re

MS = 1000000
LINK_CALLS = ("partition", "partition_oneway", "repair", "repair_oneway", "hold", "release")


# ---- selectors -----------------------------------------------------------

def sel_hosts(s, n):
    if "h" in s:
        return [s["h"]]
    if "ip" in s:
        return [s["ip"]]
    rx = re.compile(s["re"])
    return [i for i in range(n) if rx.search("h%d" % i)]


def rand_sel(rng, h):
    r = rng.random()
    if r < 0.6:
        return {"h": h}
    if r < 0.8:
        return {"ip": h}
    return {"re": "^h%d$" % h}


def rand_set_sel(rng, n):
    """A selector naming several hosts (regex over h0..h<n-1>), in DNS registration order."""
    r = rng.random()
    if r < 0.35:
        return {"re": "^h"}
    if r < 0.7:
        k = rng.randrange(n)
        return {"re": "^h[0-%d]$" % k}
    k = rng.randrange(n)
    return {"re": "^h[%d-%d]$" % (k, n - 1)}


def rand_sel_or_set(rng, h, n, p_set=0.22):
    return rand_set_sel(rng, n) if rng.random() < p_set else rand_sel(rng, h)


def for_pairs(A, B):
    return [(a, b) for a in A for b in B if a != b]


# ---- model rendering -----------------------------------------------------

def coq_bool(b):
    return "true" if b else "false"


def link_events(name, a_sel, b_sel, n):
    """Expansion of one link-level API call into model events."""
    out = []
    for a, b in for_pairs(sel_hosts(a_sel, n), sel_hosts(b_sel, n)):
        d = "AB" if a < b else "BA"
        e = {
            "partition": "Partition", "repair": "Repair", "hold": "Hold", "release": "Release",
            "partition_oneway": "(PartitionOne %s)" % d, "repair_oneway": "(RepairOne %s)" % d,
        }[name]
        out.append("TLink %d %d %s" % (a, b, e))
    return out


def split_decisions(ds):
    """-> (order list or None, list of enqueue groups {src,dst,rand,repair,x,delay})."""
    order, groups = None, []
    for d in ds:
        k = d[0]
        if k == "order":
            order = d[1]
        elif k == "enq":
            groups.append({"src": d[1], "dst": d[2], "rand": False, "repair": False, "x": 0, "delay": None})
        elif k == "rand":
            groups[-1]["rand"] = d[1]
        elif k == "repair":
            groups[-1]["repair"] = d[1]
        elif k == "delay":
            groups[-1]["x"] = d[1]
            groups[-1]["delay"] = d[2]
    return order, groups


def to_model(case, obs):
    """Model event list (Coq syntax) + index map for comparing observations.
    Returns (coq_term, probes) with probes = list of (event index, kind, key)."""
    if case["cfg"].get("tcp"):
        return None, [], []     # TCP carriers: oracle-only (segments, SYN, FIN, RST are not Link-model events)
    cfg = case["cfg"]
    n = cfg["nhosts"]
    tick = cfg["tick_us"] * 1000
    evs, probes = [], []
    for h in cfg.get("reg_order", list(range(n))):
        evs.append("TRegister %d" % h)
    problems = []
    for k, st in enumerate(case["steps"]):
        for ai, act in enumerate(st["ctl"]):
            name = act[0]
            if name == "links":
                probes.append((len(evs), "links", (k, ai)))
                evs.append("TView")
            elif name == "deliver":
                evs.append("TLink %d %d (DeliverOne %d)" % (act[1], act[2], act[3]))
            elif name == "deliver_all":
                evs.append("TLink %d %d DeliverAll" % (act[1], act[2]))
            elif name == "set_link_latency":
                for a, b in for_pairs(sel_hosts(act[1], n), sel_hosts(act[2], n)):
                    evs.append("TLink %d %d (SetLinkLatency %d)" % (a, b, act[3] * MS))
            elif name == "set_link_max":
                for a, b in for_pairs(sel_hosts(act[1], n), sel_hosts(act[2], n)):
                    evs.append("TLink %d %d (SetLinkMax %d)" % (a, b, act[3] * MS))
            elif name == "set_max":
                evs.append("TLink 0 1 (SetGlobalMax %d)" % (act[1] * MS))
            elif name in ("set_link_fail_rate", "set_curve"):
                pass        # message-loss / distribution settings: no latency event in the model
            else:
                evs.extend(link_events(name, act[1], act[2], n))
        evs.append("TTick %d" % tick)
        order, groups = split_decisions(obs["decisions"][k]) if k < len(obs.get("decisions", [])) else (None, [])
        if order is None:
            order = cfg.get("reg_order", list(range(n)))
            problems.append("step %d: no host order recorded" % k)
        gi = 0
        for h in order:
            probes.append((len(evs), "recv", (k, h)))
            evs.append("TDrain %d" % h)
            for cmd in st.get("hosts", {}).get(str(h), []):
                if cmd[0] == "send":
                    if gi < len(groups) and groups[gi]["src"] == h and groups[gi]["dst"] == cmd[1]:
                        g = groups[gi]
                        gi += 1
                    else:
                        problems.append("step %d host %d: send %s has no matching enqueue record" % (k, h, cmd))
                        g = {"rand": False, "repair": False, "x": 0}
                    evs.append("TSend %d %d %d %d %s %s" % (h, cmd[1], cmd[2], g["x"], coq_bool(g["rand"]), coq_bool(g["repair"])))
                else:
                    evs.extend(link_events(cmd[0], cmd[1], cmd[2], n))
        if gi != len(groups):
            problems.append("step %d: %d enqueue records not explained by the script" % (k, len(groups) - gi))
    g = "{| lmin := %d; lmax := %d |}" % (cfg["min_ms"] * MS, cfg["max_ms"] * MS)
    term = "trun_enc %s [%s]" % (g, "; ".join(evs))
    return term, probes, problems


def compare(case, obs, model, probes):
    """First disagreement between implementation observations and model outputs, or None."""
    if obs.get("panic"):
        return "implementation panicked: %s" % obs["panic"]
    if isinstance(model, tuple) and model and model[0] == "error":
        return "model evaluation failed: %s" % str(model[1])[-300:]
    if obs.get("errs"):
        return "send errors: %s" % obs["errs"]
    recv = {(r[0], r[1]): [x[0] for x in r[2]] for r in obs["recv"]}
    links = {(l[0], l[1]): l[2] for l in obs["links"]}
    for idx, kind, key in probes:
        if idx >= len(model):
            return "model produced too few outputs"
        tag, payload = model[idx]
        if kind == "recv":
            m_ids = payload[0] if tag == 1 and payload else []
            i_ids = recv.get(key, [])
            if list(m_ids) != list(i_ids):
                return "step %d host %d: implementation received %s, model %s" % (key[0], key[1], i_ids, list(m_ids))
        else:
            m_view = sorted([(x[0], x[1], list(x[2:])) for x in payload])
            i_view = sorted([(a, b, [y[0] for y in ids]) for a, b, ids in links.get(key, [])])
            if m_view != i_view:
                return "step %d links(): implementation %s, model %s" % (key[0], i_view, m_view)
    return None


# ---- timeline helpers for the python oracles --------------------------------

def timeline(case, obs):
    """Flatten a case + observed decisions into a list of timed API events as the
    implementation executed them:
      ("call", name, a, b, topo_ns) for each expanded link call,
      ("send", src, dst, id, step, topo_ns, delay_ns or None, rand, repair),
      ("recv", host, id, step, elapsed_ns)
    topo_ns is the topology clock when the event happens (ctl: k*tick, host
    code in step k: (k+1)*tick)."""
    cfg = case["cfg"]
    n = cfg["nhosts"]
    tick = cfg["tick_us"] * 1000
    recv = {(r[0], r[1]): r[2] for r in obs["recv"]}
    tl = []
    views = {}
    per_step = {}
    for l in obs.get("links", []):
        j = per_step.get(l[0], 0)
        per_step[l[0]] = j + 1
        views[(l[0], j)] = l[2]
    for k, st in enumerate(case["steps"]):
        for act in st["ctl"]:
            if act[0] in LINK_CALLS:
                for a, b in for_pairs(sel_hosts(act[1], n), sel_hosts(act[2], n)):
                    tl.append(("call", act[0], a, b, k * tick))
            elif act[0] in ("set_link_latency", "set_link_max"):
                for a, b in for_pairs(sel_hosts(act[1], n), sel_hosts(act[2], n)):
                    tl.append(("lat", act[0], a, b, act[3] * MS))
            elif act[0] == "set_max":
                tl.append(("lat", "set_max", None, None, act[1] * MS))
            elif act[0] in ("deliver", "deliver_all"):
                tl.append(("manual", act[0], act[1], act[2], act[3] if len(act) > 3 else None, k * tick))
            elif act[0] == "links":
                tl.append(("view", views.get((k, len([x for x in tl if x[0] == "view" and x[2] == k]))), k, k * tick))
        order, groups = split_decisions(obs["decisions"][k]) if k < len(obs.get("decisions", [])) else (None, [])
        order = order if order is not None else cfg.get("reg_order", list(range(n)))
        gi = 0
        for h in order:
            for x in recv.get((k, h), []):
                tl.append(("recv", h, x[0], k, x[3], x[1]))
            for cmd in st.get("hosts", {}).get(str(h), []):
                if cmd[0] == "send":
                    g = groups[gi] if gi < len(groups) else {"delay": None, "rand": False, "repair": False}
                    gi += 1
                    tl.append(("send", h, cmd[1], cmd[2], k, (k + 1) * tick, g["delay"], g["rand"], g["repair"]))
                elif cmd[0] == "tcp_connect":
                    tl.append(("tcp_connect", h, cmd[1], cmd[2], k))
                elif cmd[0] == "tcp_write":
                    tl.append(("tcp_write", h, cmd[1], cmd[2], k))
                elif cmd[0] == "tcp_shutdown":
                    tl.append(("tcp_shutdown", h, cmd[1], None, k))
                elif cmd[0] == "tcp_drop_readers":
                    tl.append(("tcp_drop", h, cmd[1], None, k))
                else:
                    for a, b in for_pairs(sel_hosts(cmd[1], n), sel_hosts(cmd[2], n)):
                        tl.append(("call", cmd[0], a, b, (k + 1) * tick))
    return tl


# ---- generators ------------------------------------------------------------

def base_cfg(rng, nhosts=None, fail=None, lat=None):
    n = nhosts or rng.choice([2, 2, 3, 3, 4])
    tick_us = rng.choice([1000, 1000, 2000, 3000, 5000, 7000])
    if lat is None:
        mn = rng.choice([0, 0, 1, 2, 5])
        mx = mn + rng.choice([0, 1, 3, 8, 20])
    else:
        mn, mx = lat
    if fail is None:
        fail = rng.choice([0.0, 0.0, 0.2, 0.5, 1.0])
    reg = list(range(n))
    if rng.random() < 0.5:
        rng.shuffle(reg)
    return {
        "seed": rng.randrange(1 << 30), "tick_us": tick_us, "min_ms": mn, "max_ms": mx,
        "fail": fail, "repair": rng.choice([0.0, 0.3, 0.5, 1.0, 1.0]), "nhosts": n,
        "reg_order": reg, "random_order": rng.random() < 0.3,
        "curve": rng.choice([5.0, 5.0, 1.0, 0.3, 20.0]),
        "ipv6": rng.random() < 0.25,
    }


def WARMUP():
    """First step of every script: hosts only bind their sockets."""
    return {"ctl": [], "hosts": {}}


class IdGen:
    def __init__(self):
        self.n = 100

    def next(self):
        self.n += 1
        return self.n


def rand_sends(rng, n, ids, hosts, density):
    """hosts: dict to fill; adds random sends."""
    for h in range(n):
        for _ in range(rng.choice(density)):
            dst = rng.choice([x for x in range(n) if x != h])
            hosts.setdefault(str(h), []).append(["send", dst, ids.next()])


def gen_partition_script(rng, nsteps=None, fail=None, nhosts=None):
    """C03 alphabet: partition / partition_oneway / repair / repair_oneway, no hold."""
    cfg = base_cfg(rng, nhosts=nhosts, fail=fail)
    n = cfg["nhosts"]
    ids = IdGen()
    nsteps = nsteps or rng.randrange(6, 16)
    steps = [WARMUP()]
    calls = ["partition", "partition_oneway", "partition_oneway", "repair", "repair_oneway", "repair_oneway"]
    for k in range(nsteps):
        ctl, hosts = [], {}
        if rng.random() < 0.45:
            a, b = rng.sample(range(n), 2)
            ctl.append([rng.choice(calls), rand_sel_or_set(rng, a, n), rand_sel_or_set(rng, b, n)])
        if rng.random() < 0.3:
            ctl.append(["links"])
        rand_sends(rng, n, ids, hosts, [0, 1, 1, 2, 3])
        if rng.random() < 0.25:      # a call issued from host code, between sends
            h = rng.randrange(n)
            a, b = rng.sample(range(n), 2)
            lst = hosts.setdefault(str(h), [])
            lst.insert(rng.randrange(len(lst) + 1), [rng.choice(calls), rand_sel_or_set(rng, a, n), rand_sel_or_set(rng, b, n)])
        steps.append({"ctl": ctl, "hosts": hosts})
    drain = (cfg["max_ms"] * 1000) // cfg["tick_us"] + 3
    for _ in range(drain):
        steps.append({"ctl": [], "hosts": {}})
    steps[-1]["ctl"].append(["links"])
    return {"cfg": cfg, "steps": steps, "flavour": "partition"}


def exhaustive_partition_scripts():
    """All call sequences of length <= 3 over the six directed calls on one pair,
    with sends in both directions before, between and after (fixed latency)."""
    calls = [("partition", 0, 1), ("partition_oneway", 0, 1), ("partition_oneway", 1, 0),
             ("repair", 0, 1), ("repair_oneway", 0, 1), ("repair_oneway", 1, 0)]
    seqs = [[]]
    for L in (1, 2, 3):
        def rec(prefix, L):
            if L == 0:
                seqs.append(prefix)
                return
            for c in calls:
                rec(prefix + [c], L - 1)
        rec([], L)
    out = []
    for si, seq in enumerate(seqs):
        for lat in (0, 2):
            ids = IdGen()
            steps = [WARMUP()]

            def burst():
                return {"0": [["send", 1, ids.next()]], "1": [["send", 0, ids.next()]]}
            steps.append({"ctl": [], "hosts": burst()})
            for (name, a, b) in seq:
                steps.append({"ctl": [[name, {"h": a}, {"h": b}]], "hosts": burst()})
            for _ in range(5):
                steps.append({"ctl": [], "hosts": {}})
            cfg = {"seed": si, "tick_us": 1000, "min_ms": lat, "max_ms": lat, "fail": 0.0, "repair": 1.0,
                   "nhosts": 2, "reg_order": [0, 1] if si % 2 == 0 else [1, 0], "random_order": False, "curve": 5.0}
            out.append({"cfg": cfg, "steps": steps, "flavour": "partition-exhaustive"})
    return out


def gen_hold_script(rng, nhosts=None):
    """C08 alphabet: hold / release / manual delivery, fail_rate 0."""
    cfg = base_cfg(rng, nhosts=nhosts, fail=0.0)
    n = cfg["nhosts"]
    ids = IdGen()
    steps = [WARMUP()]
    held = set()
    repairs = rng.random() < 0.3       # this script also repairs held links
    nsteps = rng.randrange(8, 18)
    for k in range(nsteps):
        ctl, hosts = [], {}
        r = rng.random()
        if r < 0.3:
            a, b = rng.sample(range(n), 2)
            sa, sb = rand_sel_or_set(rng, a, n), rand_sel_or_set(rng, b, n)
            ctl.append(["hold", sa, sb])
            for x, y in for_pairs(sel_hosts(sa, n), sel_hosts(sb, n)):
                held.add((min(x, y), max(x, y)))
        elif r < 0.5 and held:
            a, b = rng.choice(sorted(held))
            sa, sb = rand_sel_or_set(rng, a, n, 0.15), rand_sel_or_set(rng, b, n, 0.15)
            ctl.append(["release", sa, sb])
            for x, y in for_pairs(sel_hosts(sa, n), sel_hosts(sb, n)):
                held.discard((min(x, y), max(x, y)))
        if held and repairs and rng.random() < 0.3:
            # repair of a held link: new messages flow again, parked ones stay parked until the release
            a, b = rng.choice(sorted(held))
            if rng.random() < 0.6:
                ctl.append(["repair", rand_sel(rng, a), rand_sel(rng, b)])
            else:
                x, y = rng.choice([(a, b), (b, a)])
                ctl.append(["repair_oneway", rand_sel(rng, x), rand_sel(rng, y)])
        if held and rng.random() < 0.15:
            # release immediately followed by hold (before the next tick): released messages are re-held
            a, b = rng.choice(sorted(held))
            ctl.append(["release", rand_sel(rng, a), rand_sel(rng, b)])
            ctl.append(["hold", rand_sel(rng, a), rand_sel(rng, b)])
        if rng.random() < 0.5:
            ctl.append(["links"])
        if held and rng.random() < 0.5:
            a, b = rng.choice(sorted(held))
            if rng.random() < 0.25:
                ctl.append(["links"])
                ctl.append(["deliver_all", a, b])
            else:
                for _ in range(rng.randrange(1, 3)):
                    ctl.append(["links"])
                    ctl.append(["deliver", a, b, rng.randrange(0, 5)])
            ctl.append(["links"])
            if rng.random() < 0.3:
                # hold again before the next tick: what was just scheduled by hand is still in flight and must be
                # parked again (a second hold on an already held link is not a no-op; seed C08-A8)
                ctl.append(["hold", rand_sel(rng, a), rand_sel(rng, b)])
                ctl.append(["links"])
        rand_sends(rng, n, ids, hosts, [0, 1, 2, 2, 3])
        if rng.random() < 0.15:
            h = rng.randrange(n)
            a, b = rng.sample(range(n), 2)
            lst = hosts.setdefault(str(h), [])
            nm = rng.choice(["hold", "release"])
            lst.insert(rng.randrange(len(lst) + 1), [nm, rand_sel(rng, a), rand_sel(rng, b)])
            key = (min(a, b), max(a, b))
            held.add(key) if nm == "hold" else held.discard(key)
        steps.append({"ctl": ctl, "hosts": hosts})
    ctl = [["release", {"re": "^h"}, {"re": "^h"}], ["links"]]
    steps.append({"ctl": ctl, "hosts": {}})
    drain = (cfg["max_ms"] * 1000) // cfg["tick_us"] + 3
    for _ in range(drain):
        steps.append({"ctl": [], "hosts": {}})
    steps[-1]["ctl"].append(["links"])
    return {"cfg": cfg, "steps": steps, "flavour": "hold"}


def gen_mixed_script(rng):
    """All six link calls, manual delivery and random link failures in one script (outside the alphabets of
    the C03 / C08 oracles, which skip it): exercises the model <-> implementation correspondence on the
    transitions between the families (hold over a partition, partition of a held link, repair of a held
    link, release of a partitioned link)."""
    cfg = base_cfg(rng, fail=rng.choice([0.0, 0.0, 0.1, 0.4]))
    n = cfg["nhosts"]
    ids = IdGen()
    steps = [WARMUP()]
    calls = ["partition", "partition_oneway", "repair", "repair_oneway", "hold", "hold", "release"]
    for k in range(rng.randrange(8, 20)):
        ctl, hosts = [], {}
        for _ in range(rng.choice([0, 1, 1, 2])):
            a, b = rng.sample(range(n), 2)
            ctl.append([rng.choice(calls), rand_sel_or_set(rng, a, n, 0.2), rand_sel_or_set(rng, b, n, 0.2)])
        if rng.random() < 0.4:
            ctl.append(["links"])
            if rng.random() < 0.5:
                a, b = rng.sample(range(n), 2)
                ctl.append(["deliver_all", a, b] if rng.random() < 0.3 else ["deliver", a, b, rng.randrange(0, 4)])
                ctl.append(["links"])
        rand_sends(rng, n, ids, hosts, [0, 1, 2, 2, 3])
        if rng.random() < 0.2:
            h = rng.randrange(n)
            a, b = rng.sample(range(n), 2)
            lst = hosts.setdefault(str(h), [])
            lst.insert(rng.randrange(len(lst) + 1), [rng.choice(calls), rand_sel(rng, a), rand_sel(rng, b)])
        steps.append({"ctl": ctl, "hosts": hosts})
    steps.append({"ctl": [["repair", {"re": "^h"}, {"re": "^h"}], ["release", {"re": "^h"}, {"re": "^h"}], ["links"]], "hosts": {}})
    drain = (cfg["max_ms"] * 1000) // cfg["tick_us"] + 3
    for _ in range(drain):
        steps.append({"ctl": [], "hosts": {}})
    steps[-1]["ctl"].append(["links"])
    return {"cfg": cfg, "steps": steps, "flavour": "mixed"}


def tcp_noise_latency_scripts():
    """C14, oracle-only (TCP segments are not Link-model events): under a FIXED latency a UDP datagram sent in
    the same step behind TCP segments that the destination refuses (its end of the connection is gone, it
    answers RST) must still arrive inside the window - whatever else is delivered in the same pass."""
    out = []
    for tick_us, lat, nseg, v6 in [(2000, 3, 2, False), (1000, 2, 3, False), (3000, 4, 1, True), (2000, 6, 4, False)]:
        cfg = {"seed": 77 + nseg, "tick_us": tick_us, "min_ms": lat, "max_ms": lat, "fail": 0.0, "repair": 1.0,
               "nhosts": 2, "reg_order": [0, 1], "random_order": False, "curve": 5.0, "ipv6": v6,
               "tcp": True, "tcp_cap": 64}
        drain = (lat * 1000) // tick_us + 3
        steps = [WARMUP(), {"ctl": [], "hosts": {"0": [["tcp_connect", 1, 1]]}}]
        steps += [{"ctl": [], "hosts": {}} for _ in range(drain)]
        steps.append({"ctl": [], "hosts": {"1": [["tcp_drop_readers", 0]]}})      # the accepting side drops its end
        steps += [{"ctl": [], "hosts": {}} for _ in range(drain)]
        uid = 500
        for rnd in range(3):
            cmds = [["tcp_write", 1, 900 + rnd * 10 + j] for j in range(nseg)] + [["send", 1, uid + rnd]]
            steps.append({"ctl": [], "hosts": {"0": cmds}})
            steps += [{"ctl": [], "hosts": {}} for _ in range(drain)]
        out.append({"cfg": cfg, "steps": steps, "flavour": "tcp-noise-latency", "conns": {"1": [0, 1]},
                    "udp_ids": [uid, uid + 1, uid + 2]})
    return out


def tcp_noise_latency_oracle(case, obs):
    cfg = case["cfg"]
    tick = cfg["tick_us"] * 1000
    lat = cfg["min_ms"] * 1000000
    sent = {}
    for k, st in enumerate(case["steps"]):
        for h, cmds in st.get("hosts", {}).items():
            for c in cmds:
                if c[0] == "send":
                    sent[c[2]] = k
    got = {}
    for step, h, ids in obs.get("recv", []):
        for x in ids:
            got[x[0]] = (step, x[3])
    out = []
    for i, k in sent.items():
        if i not in got:
            out.append(("datagram %d sent at step %d on a healthy link (fixed latency %d ns) was never delivered" % (i, k, lat), None))
            continue
        step, el = got[i]
        measured = el - k * tick
        if not (lat - tick <= measured <= lat + tick):
            out.append(("datagram %d sent at step %d behind TCP segments the destination refuses: measured latency %d ns "
                        "outside [%d - tick, %d + tick], tick %d" % (i, k, measured, lat, lat, tick), None))
    return out


def gen_burst_script(rng):
    """C14: a large burst on one direction falling due in a single tick, small latency window
    (many equal delivery instants), so that ordering among ties is exercised at scale."""
    cfg = base_cfg(rng, nhosts=rng.choice([2, 3]), fail=0.0, lat=(0, rng.choice([1, 2, 3])))
    cfg["tick_us"] = rng.choice([10000, 20000, 50000])
    cfg["curve"] = rng.choice([0.3, 0.7, 1.5, 5.0])
    n = cfg["nhosts"]
    ids = IdGen()
    steps = [WARMUP()]
    for _ in range(rng.randrange(1, 3)):
        a, b = rng.sample(range(n), 2)
        hosts = {str(a): [["send", b, ids.next()] for _ in range(rng.randrange(22, 70))]}
        if rng.random() < 0.5:
            hosts[str(b)] = [["send", a, ids.next()] for _ in range(rng.randrange(5, 40))]
        ctl = []
        if rng.random() < 0.3:
            ctl.append(["set_link_max", {"h": a}, {"h": b}, rng.choice([1, 2, 4])])
        steps.append({"ctl": ctl, "hosts": hosts})
        steps.append({"ctl": [], "hosts": {}})
    for _ in range(3):
        steps.append({"ctl": [], "hosts": {}})
    steps[-1]["ctl"].append(["links"])
    return {"cfg": cfg, "steps": steps, "flavour": "burst"}


def gen_latency_script(rng, nhosts=None):
    """C14: healthy links, latency overrides, bursts."""
    if rng.random() < 0.12:
        return gen_burst_script(rng)
    cfg = base_cfg(rng, nhosts=nhosts, fail=0.0)
    n = cfg["nhosts"]
    ids = IdGen()
    steps = [WARMUP()]
    glob = [cfg["min_ms"], cfg["max_ms"]]
    per = {}
    noops = rng.random() < 0.4
    nsteps = rng.randrange(6, 14)
    for k in range(nsteps):
        ctl, hosts = [], {}
        r = rng.random()
        # keep every effective configuration valid (max >= min): the setters do not validate
        if r < 0.2:
            a, b = rng.sample(range(n), 2)
            v = rng.choice([0, 1, 2, 3, 7, 15])
            sa, sb = rand_sel_or_set(rng, a, n), rand_sel_or_set(rng, b, n)
            ctl.append(["set_link_latency", sa, sb, v])
            for x, y in for_pairs(sel_hosts(sa, n), sel_hosts(sb, n)):
                per[(min(x, y), max(x, y))] = [v, v]
        elif r < 0.35:
            a, b = rng.sample(range(n), 2)
            key = (min(a, b), max(a, b))
            cur = per.get(key) or list(glob)
            v = cur[0] + rng.choice([0, 1, 4, 30])
            ctl.append(["set_link_max", rand_sel(rng, a), rand_sel(rng, b), v])
            per[key] = [cur[0], v]
        elif r < 0.45:
            v = glob[0] + rng.choice([0, 2, 10, 40])
            ctl.append(["set_max", v])
            glob[1] = v
        if rng.random() < 0.2:
            ctl.append(["links"])
        if rng.random() < 0.15:
            # settings that are not latency settings: a per-link fail rate of 0 and the distribution
            # parameter must leave every link's latency range (its own or the global one) as it is
            if rng.random() < 0.6:
                a, b = rng.sample(range(n), 2)
                ctl.append(["set_link_fail_rate", rand_sel_or_set(rng, a, n, 0.3), rand_sel_or_set(rng, b, n, 0.3), 0.0])
            else:
                ctl.append(["set_curve", rng.choice([0.3, 1.0, 5.0, 20.0])])
        rand_sends(rng, n, ids, hosts, [0, 1, 2, 4, 6])
        if noops and rng.random() < 0.35:
            # calls that mean nothing on a healthy link (nothing is held, nothing is partitioned): no-ops
            a, b = rng.sample(range(n), 2)
            call = [rng.choice(["release", "release", "repair", "repair_oneway"]),
                    rand_sel_or_set(rng, a, n, 0.4), rand_sel_or_set(rng, b, n, 0.4)]
            if rng.random() < 0.6:
                ctl.append(call)
            else:
                lst = hosts.setdefault(str(rng.randrange(n)), [])
                lst.insert(rng.randrange(len(lst) + 1), call)
        steps.append({"ctl": ctl, "hosts": hosts})
    for _ in range(60000 // cfg["tick_us"] + 3):
        steps.append({"ctl": [], "hosts": {}})
    steps[-1]["ctl"].append(["links"])
    return {"cfg": cfg, "steps": steps, "flavour": "latency"}


def gen_tcp_script(rng, flavour):
    """TCP carriers (oracle-only): connections set up first, then 8-byte frames written while
    partitions (flavour 'partition') or holds (flavour 'hold') come and go."""
    cfg = base_cfg(rng, nhosts=rng.choice([2, 2, 3]), fail=0.0 if flavour == "hold" else rng.choice([0.0, 0.0, 0.05, 0.2]))
    cfg["tcp"] = True
    cfg["tcp_cap"] = rng.choice([2, 3, 4, 64])      # >= connectors per listener (a fuller SYN queue is a documented panic)
    n = cfg["nhosts"]
    ids = IdGen()
    steps = [WARMUP()]
    conns = {}
    cid = 0
    hosts = {}
    for a in range(n):
        for b in range(n):
            if a != b and rng.random() < 0.8:
                cid += 1
                conns[cid] = (a, b)
                hosts.setdefault(str(a), []).append(["tcp_connect", b, cid])
    steps.append({"ctl": [], "hosts": hosts})
    for _ in range((cfg["max_ms"] * 1000) // cfg["tick_us"] + 3):
        steps.append({"ctl": [], "hosts": {}})
    calls = (["partition", "partition_oneway", "partition_oneway", "repair", "repair_oneway", "repair_oneway"]
             if flavour == "partition" else ["hold", "release"])
    closed = set()
    for k in range(rng.randrange(6, 16)):
        ctl, hosts = [], {}
        if rng.random() < 0.45:
            a, b = rng.sample(range(n), 2)
            ctl.append([rng.choice(calls), rand_sel(rng, a), rand_sel(rng, b)])
        for c, (a, b) in conns.items():
            if c in closed:
                continue
            for _ in range(rng.choice([0, 1, 1, 2, cfg["tcp_cap"] if cfg["tcp_cap"] < 8 else 3])):
                hosts.setdefault(str(a), []).append(["tcp_write", c, ids.next()])
            if flavour == "hold" and rng.random() < 0.12:
                hosts.setdefault(str(a), []).append(["tcp_shutdown", c])
                closed.add(c)
        if rng.random() < 0.2:
            h = rng.randrange(n)
            a, b = rng.sample(range(n), 2)
            lst = hosts.setdefault(str(h), [])
            lst.insert(rng.randrange(len(lst) + 1), [rng.choice(calls), rand_sel(rng, a), rand_sel(rng, b)])
        steps.append({"ctl": ctl, "hosts": hosts})
    if flavour == "partition" and conns and rng.random() < 0.5:
        # the accepting side drops its end while its direction towards the writer is cut: nothing
        # it sends (FIN, RST replies) may reach the writer, whose writes must keep being accepted
        c = rng.choice(sorted(conns))
        a, b = conns[c]
        steps.append({"ctl": [["repair", {"h": a}, {"h": b}], ["partition_oneway", rand_sel(rng, b), rand_sel(rng, a)]], "hosts": {}})
        steps.append({"ctl": [], "hosts": {str(b): [["tcp_drop_readers", a]]}})
        for _ in range(rng.randrange(2, 6)):
            steps.append({"ctl": [], "hosts": {str(a): [["tcp_write", c2, ids.next()] for c2, ab in conns.items() if ab == (a, b)]}})
    if flavour == "hold" and conns and rng.random() < 0.5:
        # the accepting side has dropped its end; under a hold one parked segment is delivered by hand, the
        # destination refuses it and answers RST - a message sent while the link is held: it must stay parked,
        # the writer's further writes must keep being accepted until the release
        c = rng.choice(sorted(x for x in conns if x not in closed) or sorted(conns))
        a, b = conns[c]
        steps.append({"ctl": [["release", {"h": a}, {"h": b}]], "hosts": {}})
        for _ in range((cfg["max_ms"] * 1000) // cfg["tick_us"] + 3):
            steps.append({"ctl": [], "hosts": {}})
        steps.append({"ctl": [], "hosts": {str(b): [["tcp_drop_readers", a]]}})
        for _ in range((cfg["max_ms"] * 1000) // cfg["tick_us"] + 3):
            steps.append({"ctl": [], "hosts": {}})
        steps.append({"ctl": [["hold", rand_sel(rng, a), rand_sel(rng, b)]], "hosts": {}})
        mine = [c2 for c2, ab in conns.items() if ab == (a, b) and c2 not in closed]
        steps.append({"ctl": [], "hosts": {str(a): [["tcp_write", c2, ids.next()] for c2 in mine]}})
        steps.append({"ctl": [["deliver_all", a, b]], "hosts": {}})
        for _ in range(rng.randrange(3, 7)):
            steps.append({"ctl": [], "hosts": {str(a): [["tcp_write", c2, ids.next()] for c2 in mine]}})
    if flavour == "hold":
        # close what is still open while (possibly) held, then release everything
        hosts = {}
        for c, (a, b) in conns.items():
            if c not in closed and rng.random() < 0.6:
                hosts.setdefault(str(a), []).append(["tcp_shutdown", c])
        steps.append({"ctl": [], "hosts": hosts})
        steps.append({"ctl": [["release", {"re": "^h"}, {"re": "^h"}]], "hosts": {}})
    for _ in range((cfg["max_ms"] * 1000) // cfg["tick_us"] + 4):
        steps.append({"ctl": [], "hosts": {}})
    return {"cfg": cfg, "steps": steps, "flavour": "tcp-" + flavour, "conns": {str(k): v for k, v in conns.items()}}


def tcp_oracle(case, obs, flavour):
    """C03 (flavour partition): a frame written while its direction is explicitly partitioned is never
    read. C08 (flavour hold): every frame the writer got accepted is read exactly once, per connection
    in write order, and none while its link is held."""
    out = []
    conns = {int(k): tuple(v) for k, v in case.get("conns", {}).items()}
    wrote = {}
    for st, h, what, cid, detail in obs.get("tcp_ev", []):
        if what == "wrote":
            i, nbytes = detail.split(":")
            if nbytes == "8":
                wrote[int(i)] = (cid, st)
    wres = {}
    for st, h, what, cid, detail in obs.get("tcp_ev", []):
        if what in ("wrote", "write_err"):
            wres[int(detail.split(":")[0])] = (what, detail)
    tl = timeline(case, obs)
    explicit, held = {}, {}
    forbidden, parked = {}, {}
    silent = {}
    gone = set()
    why = {}
    for ev in tl:
        if ev[0] == "call":
            _, name, a, b, t = ev
            if name in ("partition", "repair"):
                for d in ((a, b), (b, a)):
                    explicit[d] = name == "partition"
                    if name == "repair":
                        silent.pop((d[1], d[0]), None)
            elif name in ("partition_oneway", "repair_oneway"):
                explicit[(a, b)] = name == "partition_oneway"
                if name == "repair_oneway":
                    silent.pop((b, a), None)
            elif name in ("hold", "release"):
                held[(min(a, b), max(a, b))] = name == "hold"
                if name == "release":
                    for i in [i for i, p in parked.items() if p == (min(a, b), max(a, b))]:
                        del parked[i]
                for (w, r) in gone:
                    if {w, r} == {a, b}:
                        if name == "hold":
                            # whatever the reader's host sends from now on (RST answers to segments delivered
                            # by hand) is a message sent while the link is held: it stays parked
                            silent[(w, r)] = t // (case["cfg"]["tick_us"] * 1000)
                            why[(w, r)] = "the link was held"
                        else:
                            silent.pop((w, r), None)
        elif ev[0] == "tcp_drop":
            _, h, peer, _x, step = ev
            gone.add((peer, h))
            if explicit.get((h, peer)):
                silent[(peer, h)] = step      # (writer, reader): the reader went away unseen
                why[(peer, h)] = "h%d->h%d was explicitly partitioned" % (h, peer)
        elif ev[0] == "tcp_write":
            _, h, cid, i, step = ev
            if cid in conns and conns[cid] in silent and i in wres and wres[i][0] == "write_err" and (
                    "BrokenPipe" in wres[i][1] or "ConnectionReset" in wres[i][1]):
                a, b = conns[cid]
                out.append(("TCP write %d on connection %d (h%d->h%d) at step %d failed with %s: h%d had dropped its end and since "
                            "step %d %s, so nothing h%d sends (FIN, RST) may reach h%d" % (
                                i, cid, a, b, step, wres[i][1].split(":")[1], b, silent[conns[cid]],
                                why.get(conns[cid], "the direction back was cut"), b, a), None))
            if i in wrote and cid in conns:
                a, b = conns[cid]
                if explicit.get((a, b)):
                    forbidden[i] = "written at step %d while h%d->h%d was explicitly partitioned" % (step, a, b)
                if held.get((min(a, b), max(a, b))):
                    parked[i] = (min(a, b), max(a, b))
    got = {}
    order = {}
    # reads are logged with the step in which they happened; held-state at that step:
    held_at = {}
    cur = {}
    tick = case["cfg"]["tick_us"] * 1000
    eofs = {}
    ports = {}
    for st, h, what, cid, detail in obs.get("tcp_ev", []):
        if what == "connected" and detail:
            ports[cid] = int(detail)
    closed_conns = [cid for st, h, what, cid, detail in obs.get("tcp_ev", []) if what == "closed"]
    for rec in obs.get("tcp_recv", []):
        if rec[2] in ("eof", "err"):
            eofs[(rec[3], rec[1], rec[4] if len(rec) > 4 else None)] = rec[2]
    for st, h, i, frm in [r[:4] for r in obs.get("tcp_recv", []) if r[2] not in ("eof", "err")]:
        got[i] = got.get(i, 0) + 1
        order.setdefault((frm, h), []).append(i)
        if i in forbidden:
            out.append(("TCP frame %d read by h%d at step %d although it was %s" % (i, h, st, forbidden[i]), None))
        if got[i] > 1:
            out.append(("TCP frame %d read %d times" % (i, got[i]), None))
    if flavour == "hold":
        for i, (cid, st) in wrote.items():
            if cid in conns and conns[cid] in gone:
                continue        # the reader dropped its end: nobody reads these frames
            if got.get(i, 0) != 1:
                out.append(("TCP frame %d accepted by the writer at step %d was read %d times after release and drain" % (i, st, got.get(i, 0)), None))
        for cid in closed_conns:
            if cid in conns and conns[cid] in gone:
                continue
            if cid in conns and cid in ports:
                a, b = conns[cid]
                e = eofs.get((a, b, ports[cid]))
                if e != "eof":
                    out.append(("TCP connection %d (h%d->h%d) was closed by the writer with no unread data, the link "
                                "released and drained, but the reader saw %s instead of end-of-file" % (cid, a, b, e or "nothing"), None))
        for (frm, h), ids_ in order.items():
            for cid, (a, b) in conns.items():
                if (a, b) == (frm, h):
                    seq = [i for i in ids_ if wrote.get(i, (None,))[0] == cid]
                    if seq != sorted(seq):
                        out.append(("TCP frames on connection %d (h%d->h%d) read out of write order: %s" % (cid, a, b, seq), None))
    return out


def shrink_range(case):
    """Steps that may be removed when shrinking: everything after the warm-up step and before
    the final release/drain block (the steps after the last host command)."""
    steps = case["steps"]
    last = 0
    for k, st in enumerate(steps):
        if any(st.get("hosts", {}).values()):
            last = k
    return ("steps", 1, last + 1)


def case_signature(case):
    return json.dumps([case["cfg"]["nhosts"], case["steps"]], sort_keys=True)


def histogram(cases):
    h = {"cases": len(cases), "hosts": {}, "ctl_calls": {}, "sends": 0, "steps": 0, "host_calls": 0,
         "fail_rates": {}, "random_order": 0, "selectors": {"h": 0, "ip": 0, "re": 0}}
    for c in cases:
        n = c["cfg"]["nhosts"]
        h["hosts"][str(n)] = h["hosts"].get(str(n), 0) + 1
        fr = str(c["cfg"]["fail"])
        h["fail_rates"][fr] = h["fail_rates"].get(fr, 0) + 1
        h["random_order"] += 1 if c["cfg"].get("random_order") else 0
        h["steps"] += len(c["steps"])
        for st in c["steps"]:
            for a in st["ctl"]:
                h["ctl_calls"][a[0]] = h["ctl_calls"].get(a[0], 0) + 1
                for s in a[1:3]:
                    if isinstance(s, dict):
                        for k in s:
                            h["selectors"][k] += 1
            for cmds in st.get("hosts", {}).values():
                for cmd in cmds:
                    if cmd[0] == "send":
                        h["sends"] += 1
                    else:
                        h["host_calls"] += 1
    return h
