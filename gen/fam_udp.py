"""Family `udp`: scripts for harness bin `udp` (real Sim, scripted UDP sockets)
and their rendering as TV.Udp.Model events.  Serves C09."""
import json

TICK = 1000000
PORTS = [9000, 9001, 9002]
EPH0 = 49152


# ---------------------------------------------------------------------------
# addresses

def coq_ip(a):
    """script address -> Coq term of type ip"""
    if a == "bcast":
        return "Bcast"
    if a == "unspec":
        return "Unspec"
    if "h" in a:
        return "(HostIp %d)" % a["h"]
    if "lo" in a:
        return "(Loop %d)" % a["lo"]
    if "m" in a:
        return "(Mcast %d)" % a["m"]
    return "(Other %d)" % a["o"]


def enc_ip(a, v6=False):
    """script address -> the harness/model plain encoding [code, value]"""
    if a == "bcast":
        return [3, 0]
    if a == "unspec":
        return [0, 0]
    if "h" in a:
        return [2, a["h"]]
    if "lo" in a:
        return [1, 1 if v6 else a["lo"]]
    if "m" in a:
        return [4, a["m"]]
    return [5, a["o"]]


def results_by_cmd(obs):
    return {(r[0], r[1], r[2]): r[3] for r in obs.get("res", [])}


def link_order(n):
    return [(i, j) for j in range(1, n) for i in range(j)]


def walk(case, obs):
    """Execution-order replay. Yields
      ("deliver", step, h, gid)      a network datagram handed to host h at the start of its turn
      ("lose", step, h, gid)
      ("cmd", step, h, idx, cmd, result, sock, send_id)   sock = {"port","kind"} or None
      ("flush", step, h, bound)
      ("probe", step)
    """
    cfg = case["cfg"]
    n = cfg["nhosts"]
    res = results_by_cmd(obs)
    socks = [dict() for _ in range(n)]
    links = {p: {"sent": [], "ready": {p[0]: [], p[1]: []}} for p in link_order(n)}
    next_sid = 0
    out = []
    for k, st in enumerate(case["steps"]):
        now = (k + 1) * TICK
        for p in link_order(n):
            l = links[p]
            keep = []
            for e in l["sent"]:
                if e[2] <= now:
                    l["ready"][e[1]].append(e[0])
                else:
                    keep.append(e)
            l["sent"] = keep
        order = obs["orders"][k] if k < len(obs.get("orders", [])) and obs["orders"][k] is not None else list(range(n))
        for h in order:
            for p in link_order(n):
                if h in p:
                    for gid in links[p]["ready"][h]:
                        out.append(("deliver", k, h, gid))
                    links[p]["ready"][h] = []
            bound = next_sid
            for i, cmd in enumerate(st.get("hosts", {}).get(str(h), [])):
                r = res.get((k, h, i))
                name, sid = cmd[0], cmd[1]
                s = socks[h].get(sid)
                send_id = None
                if r is None:
                    out.append(("cmd", k, h, i, cmd, None, s, None))
                    continue
                if name == "bind":
                    if "ok" in r:
                        s = {"port": r["ok"], "kind": cmd[2]}
                        socks[h][sid] = s
                    else:
                        s = {"port": cmd[3], "kind": cmd[2], "failed": True}
                elif name == "send" and s is not None:
                    send_id = next_sid
                    next_sid += 1
                    for j, (src, dst, delay) in enumerate(r.get("enq", [])):
                        gid = (send_id, j)
                        dh = dst[0][1] if dst[0][0] == 2 else None
                        if delay is None or dh is None or dh == h:
                            out.append(("lose", k, h, gid))
                            continue
                        p = (min(h, dh), max(h, dh))
                        if delay == 0:
                            links[p]["ready"][dh].append(gid)
                        else:
                            links[p]["sent"].append((gid, dh, now + delay))
                elif name == "drop" and s is not None and "ok" in r:
                    del socks[h][sid]
                out.append(("cmd", k, h, i, cmd, r, s, send_id))
            out.append(("flush", k, h, bound))
        out.append(("probe", k))
    return out


ERR_CODE = {"AddrInUse": 1, "PermissionDenied": 2, "ConnectionRefused": 3, "AddrNotAvailable": 4, "WouldBlock": 5}


def to_model(case, obs):
    cfg = case["cfg"]
    n = cfg["nhosts"]
    evs, probes, problems = [], [], []
    pending_lose = []
    for item in walk(case, obs):
        kind = item[0]
        if kind == "deliver":
            evs.append("E (Deliver (%d, %d))" % item[3])
        elif kind == "lose":
            pending_lose.append(item[3])
        elif kind == "flush":
            evs.append("E (LoopFlush %d %d)" % (item[2], item[3]))
        elif kind == "probe":
            probes.append((len(evs), "groups", item[1]))
            evs.append("GroupsProbe")
        else:
            _, k, h, i, cmd, r, s, send_id = item
            name = cmd[0]
            if r is None:
                problems.append("step %d host %d cmd %d %s: no result recorded" % (k, h, i, cmd))
                continue
            if "panic" in r:
                problems.append("step %d host %d %s panicked: %s" % (k, h, cmd, r["panic"]))
                continue
            if s is None:
                continue            # command on a socket the script does not hold
            port = s["port"]
            e = None
            if name == "bind":
                e = "Bind %d %d %s" % (h, port, "Unspec" if s["kind"] == "any" else "(Loop 1)")
            elif name == "connect":
                e = "Connect %d %d (%s, %d)" % (h, port, coq_ip(cmd[2]), cmd[3])
            elif name == "set_broadcast":
                e = "SetBroadcast %d %d %s" % (h, port, "true" if cmd[2] else "false")
            elif name == "set_mloop":
                e = "SetMloop %d %d %s" % (h, port, "true" if cmd[2] else "false")
            elif name == "join":
                e = "Join %d %d %d" % (h, port, cmd[2])
            elif name == "leave":
                e = "Leave %d %d %d" % (h, port, cmd[2])
            elif name == "send":
                e = "Send %d %d (%s, %d) [%s]" % (h, port, coq_ip(cmd[2]), cmd[3], "; ".join(str(b) for b in cmd[4]))
            elif name == "recv":
                e = ("Readable %d %d" % (h, port)) if cmd[3] == "readable" else ("TryRecv %d %d %d" % (h, port, cmd[2]))
            elif name == "drop":
                e = "DropSock %d %d" % (h, port)
            if e is None:
                continue
            probes.append((len(evs), "cmd", (k, h, i, cmd, r)))
            evs.append("E (%s)" % e)
            for gid in pending_lose:
                evs.append("E (Lose (%d, %d))" % gid)
            pending_lose = []
    term = "run_enc %d %d [%s]" % (n, cfg["cap"], "; ".join(evs))
    return term, probes, problems


def _sa(x):
    """model enc_sa (printed by Coq as a flat triple) -> [[code, val], port]"""
    return [[x[0], x[1]], x[2]]


def compare(case, obs, model, probes):
    if isinstance(model, tuple) and model and model[0] == "error":
        return "model evaluation failed: %s" % str(model[1])[-300:]
    v6 = case["cfg"].get("v6", False)
    for idx, kind, key in probes:
        if idx >= len(model):
            return "model produced too few outputs"
        tag, code, routes, recv, groups = model[idx]
        if kind == "groups":
            mg = [[_sa(g[:3]), [[[2, m[0]], m[1]] for m in g[3]]] for g in groups]
            ig = obs["groups"][key]
            if mg != ig:
                return "after step %d multicast table: implementation %s, model %s" % (key, ig, mg)
            continue
        k, h, i, cmd, r = key
        where = "step %d host %d %s" % (k, h, cmd)
        name = cmd[0]
        if name == "send":
            if tag != 2:
                return "%s: implementation %s, model tag %d code %d" % (where, r, tag, code)
            want = 0 if "ok" in r else ERR_CODE.get(r.get("err"), -1)
            if want != code:
                return "%s: implementation result %s, model code %d" % (where, {x: r[x] for x in r if x != "enq"}, code)
            mnet = [[_sa(x[2]), _sa(x[3])] for x in routes if x[0] == 0]
            inet = [[e[0], e[1]] for e in r.get("enq", [])]
            if mnet != inet:
                return "%s: implementation put %s on the network, model %s" % (where, inet, mnet)
            if "ok" in r and r["ok"] != len(cmd[4]):
                return "%s: send returned %d for a %d byte payload" % (where, r["ok"], len(cmd[4]))
        elif name == "recv" and cmd[3] == "readable":
            if tag != 4 or bool(code) != bool(r.get("ready")):
                return "%s: implementation %s, model (tag %d, %d)" % (where, r, tag, code)
        elif name == "recv":
            if "ok" in r:
                nlen, origin, buf = r["ok"]
                if tag != 3:
                    return "%s: implementation received %s, model (tag %d, code %d)" % (where, r["ok"], tag, code)
                mlen, morigin, mdata = recv[0]
                if mlen != nlen or _sa(morigin) != origin or list(mdata) != buf[:nlen]:
                    return "%s: implementation (len %d, origin %s, data %s), model (len %d, origin %s, data %s)" % (
                        where, nlen, origin, buf[:nlen], mlen, _sa(morigin), list(mdata))
            else:
                if not (tag == 1 and code == 5):
                    return "%s: implementation %s, model (tag %d, code %d, %s)" % (where, r, tag, code, recv)
        else:
            if "ok" in r:
                if tag != 0:
                    return "%s: implementation ok, model (tag %d, code %d)" % (where, tag, code)
            else:
                want = ERR_CODE.get(r.get("err"), -1)
                if not (tag == 1 and code == want):
                    return "%s: implementation %s, model (tag %d, code %d)" % (where, r, tag, code)
    return None


# ---------------------------------------------------------------------------
# generator

class Ids:
    def __init__(self):
        self.n = 0

    def payload(self, rng, length):
        self.n += 1
        if length == 0:
            return []
        if length == 1:
            return [self.n % 250 + 1]
        body = [self.n // 250 + 1, self.n % 250 + 1]
        while len(body) < length:
            body.append(rng.randrange(256))
        return body[:length]


def gen_udp_script(rng, nsteps=None, flavour=None):
    n = rng.choice([2, 2, 3, 3, 4])
    v6 = rng.random() < 0.25
    cap = rng.choice([1, 1, 2, 3, 64, 64])
    mx = rng.choice([0, 0, 1, 3, 6])
    cfg = {"nhosts": n, "v6": v6, "cap": cap, "seed": rng.randrange(1 << 20), "min_ms": 0 if rng.random() < 0.7 else min(1, mx),
           "max_ms": mx, "random_order": rng.random() < 0.3}
    # Builder::tcp_capacity is a different knob: it must not influence UDP sockets (small where the UDP capacity is large
    # and the other way round, so that a queue sized from the wrong one loses or keeps datagrams)
    cfg["tcp_cap"] = rng.choice([1, 2]) if cap == 64 else 64
    ids = Ids()
    nsteps = nsteps or rng.randrange(8, 26)
    socks = [dict() for _ in range(n)]          # sid -> {"port": guess, "kind"}
    eph = [EPH0] * n
    next_sid = [0]
    slow = [rng.random() < 0.35 for _ in range(n)]
    steps = []

    def sid():
        next_sid[0] += 1
        return next_sid[0]

    def rand_addr(h):
        r = rng.random()
        others = [x for x in range(n) if x != h]
        if r < 0.42:
            return {"h": rng.choice(others)}
        if r < 0.52:
            return {"h": h}
        if r < 0.62:
            return {"lo": 1 if v6 or rng.random() < 0.8 else 2}
        if r < 0.76 and not v6:
            return "bcast"
        if r < 0.94:
            return {"m": rng.choice([1, 1, 2])}
        if r < 0.98:
            return {"o": 3}
        return "unspec"

    def known_ports(a, h):
        hs = range(n)
        if isinstance(a, dict) and "h" in a:
            hs = [a["h"]]
        elif isinstance(a, dict) and "lo" in a:
            hs = [h]
        ps = sorted({s["port"] for x in hs for s in socks[x].values()})
        return ps

    for k in range(nsteps):
        hosts = {}
        for h in range(n):
            cmds = []
            ncmd = rng.choice([0, 1, 2, 2, 3, 5])
            for _ in range(ncmd):
                mine = socks[h]
                r = rng.random()
                if (not mine and r < 0.8) or r < 0.12:
                    s = sid()
                    kind = "lo" if rng.random() < 0.2 else "any"
                    port = 0 if rng.random() < 0.25 else rng.choice(PORTS)
                    cmds.append(["bind", s, kind, port])
                    if port == 0:
                        mine[s] = {"port": eph[h], "kind": kind}
                        eph[h] += 1
                    elif port not in [x["port"] for x in mine.values()]:
                        mine[s] = {"port": port, "kind": kind}
                    continue
                if not mine:
                    continue
                s = rng.choice(sorted(mine))
                if r < 0.5:
                    a = rand_addr(h)
                    ps = known_ports(a, h)
                    port = rng.choice(ps) if ps and rng.random() < 0.85 else rng.choice(PORTS)
                    plen = rng.choice([0, 0, 1, 2, 3, 5, 8, 12, 20])
                    cmds.append(["send", s, a, port, ids.payload(rng, plen), rng.choice(["send_to", "try_send_to"])])
                elif r < 0.72:
                    if slow[h] and rng.random() < 0.7:
                        continue
                    cmds.append(["recv", s, rng.choice([0, 1, 2, 4, 8, 16, 64, 64]), rng.choice(["try", "try", "recv", "readable"])])
                elif r < 0.80:
                    cmds.append(["join", s, rng.choice([1, 1, 2])])
                elif r < 0.84:
                    cmds.append(["leave", s, rng.choice([1, 1, 2])])
                elif r < 0.88:
                    cmds.append(["set_broadcast", s, rng.random() < 0.8])
                elif r < 0.90:
                    cmds.append(["set_mloop", s, rng.random() < 0.5])
                elif r < 0.95:
                    if rng.random() < 0.25:
                        a = "unspec"
                    else:
                        a = rng.choice([{"h": rng.randrange(n)}, {"lo": 1}])
                    ps = known_ports(a, h)
                    cmds.append(["connect", s, a, rng.choice(ps) if ps else rng.choice(PORTS)])
                else:
                    cmds.append(["drop", s])
                    del mine[s]
            if cmds:
                hosts[str(h)] = cmds
        steps.append({"hosts": hosts})
    for _ in range(mx + 3):
        steps.append({"hosts": {}})
    # final drain: every socket reads until empty
    drain = {}
    for h in range(n):
        cmds = []
        for s in sorted(socks[h]):
            for _ in range(min(cap, 8) + 2):
                cmds.append(["recv", s, 64, "try"])
        if cmds:
            drain[str(h)] = cmds
    steps.append({"hosts": drain})
    return {"cfg": cfg, "steps": steps, "flavour": flavour or "udp-random"}


def exhaustive_routing():
    """Every (bind form of the receiver, bind form of the sender, destination class) on two
    hosts + a same-host receiver, with and without a connect filter."""
    out = []
    dsts = [{"h": 1}, {"h": 0}, {"lo": 1}, "bcast", {"m": 1}, {"o": 3}]
    for rk in ("any", "lo"):
        for sk in ("any", "lo"):
            for d in dsts:
                for filt in (None, "match", "other"):
                    for opt in (False, True):
                        s0 = [["bind", 1, sk, 9001], ["bind", 2, rk, 9000]]
                        s1 = [["bind", 1, rk, 9000]]
                        if opt:
                            s0 += [["set_broadcast", 1, True], ["join", 2, 1]]
                            s1 += [["join", 1, 1]]
                        if filt == "match":
                            s1.append(["connect", 1, {"h": 0}, 9001])
                            s0.append(["connect", 2, {"h": 0} if sk == "any" else {"lo": 1}, 9001])
                        elif filt == "other":
                            s1.append(["connect", 1, {"h": 0}, 9002])
                            s0.append(["connect", 2, {"h": 1}, 9001])
                        steps = [{"hosts": {"0": s0, "1": s1}},
                                 {"hosts": {"0": [["send", 1, d, 9000, [1, 2, 3, 4, 5], "send_to"]]}},
                                 {"hosts": {}}, {"hosts": {}},
                                 {"hosts": {"0": [["recv", 2, 3, "try"], ["recv", 2, 8, "recv"], ["recv", 1, 8, "try"]],
                                            "1": [["recv", 1, 8, "readable"], ["recv", 1, 4, "recv"], ["recv", 1, 8, "try"]]}}]
                        out.append({"cfg": {"nhosts": 2, "v6": False, "cap": 4, "seed": 1, "min_ms": 0, "max_ms": 0,
                                            "random_order": False}, "steps": steps, "flavour": "udp-exhaustive"})
    return out


def boundary_cases():
    """Deterministic: payloads of 0, 1, b-1, b, b+1 bytes for receive buffers b in
    {0, 1, 2, 5}, to every destination class (remote, same host, 127.0.0.1,
    broadcast, multicast), read back on each receive path, then drained."""
    out = []
    classes = [("remote", {"h": 1}, [1]), ("same", {"h": 0}, [0]), ("lo", {"lo": 1}, [0]),
               ("bcast", "bcast", [0, 1]), ("mcast", {"m": 1}, [0, 1])]
    for v6 in (False, True):
        for cname, dst, rhosts in classes:
            if v6 and cname == "bcast":
                continue
            for b in ((0, 1, 2, 5) if not v6 else (1,)):
                for mode in ("try", "recv", "readable"):
                    sizes = sorted({0, 1, max(b - 1, 0), b, b + 1})
                    setup = {"0": [["bind", 1, "any", 9001], ["set_broadcast", 1, True], ["bind", 2, "any", 9000], ["join", 2, 1]],
                             "1": [["bind", 1, "any", 9000], ["join", 1, 1]]}
                    sends = []
                    for idx, sz in enumerate(sizes):
                        payload = [(idx * 16 + j + 1) % 256 for j in range(sz)]
                        sends.append(["send", 1, dst, 9000, payload, "send_to" if idx % 2 == 0 else "try_send_to"])
                    reads = {}
                    for hh in (0, 1):
                        sid = 2 if hh == 0 else 1
                        cmds = []
                        for _ in range(len(sizes) + 1):
                            if mode == "readable":
                                cmds.append(["recv", sid, b, "readable"])
                                cmds.append(["recv", sid, b, "try"])
                            else:
                                cmds.append(["recv", sid, b, mode])
                        cmds += [["recv", sid, 64, "try"], ["recv", sid, 64, "try"]]
                        reads[str(hh)] = cmds
                    steps = [{"hosts": setup}, {"hosts": {"0": sends}}, {"hosts": {}}, {"hosts": {}}, {"hosts": reads}]
                    out.append({"cfg": {"nhosts": 2, "v6": v6, "cap": 16, "seed": 1, "min_ms": 0, "max_ms": 0,
                                        "random_order": False}, "steps": steps, "flavour": "udp-boundary"})
    # multicast fan-out around a local member with multicast loop switched off, every join order
    import itertools
    for v6 in (False, True):
        for order in itertools.permutations([0, 1, 2]):
            for loop_off_host in (0, 1):
                steps = []
                for hh in order:
                    cmds = [["bind", 1, "any", 9000], ["join", 1, 1]]
                    if hh == loop_off_host:
                        cmds.append(["set_mloop", 1, False])
                    steps.append({"hosts": {str(hh): cmds}})
                steps.append({"hosts": {"0": [["send", 1, {"m": 1}, 9000, [1, 2, 3], "send_to"], ["send", 1, {"m": 1}, 9000, [], "try_send_to"]],
                                        "1": [["send", 1, {"m": 1}, 9000, [2, 2], "try_send_to"]]}})
                steps += [{"hosts": {}}, {"hosts": {}}]
                steps.append({"hosts": {str(hh): [["recv", 1, 64, "try"]] * 5 for hh in (0, 1, 2)}})
                out.append({"cfg": {"nhosts": 3, "v6": v6, "cap": 16, "seed": 1, "min_ms": 0, "max_ms": 0,
                                    "random_order": False}, "steps": steps, "flavour": "udp-mcast-loop"})
    out.extend(option_matrix())
    return out


def send_before_bind_cases():
    """Deterministic: a datagram is sent BEFORE its receiver is bound.  Same-host paths
    (127.0.0.1 / ::1, the host's own address) deliver one tick later and the network path
    (reference, 2 ms) at maturity; the port is matched against the host's sockets when the
    datagram ARRIVES, so a receiver bound in the same tick (after the send) or in the next
    tick gets it, one bound after the arrival does not."""
    out = []
    for v6 in (False, True):
        for cname, dst, rhost, lat in (("lo", {"lo": 1}, 0, 0), ("own", {"h": 0}, 0, 0), ("net", {"h": 1}, 1, 2)):
            for when in ("same", "next", "late"):
                for rkind in ("any", "lo"):
                    if rkind == "lo" and cname != "lo":
                        continue
                    bind = ["bind", 5, rkind, 9000]
                    steps = [{"hosts": {"0": [["bind", 1, "any", 9001]]}}]
                    s1 = {"0": [["send", 1, dst, 9000, [3, 1, 4], "send_to"], ["send", 1, dst, 9000, [], "try_send_to"]]}
                    if when == "same":
                        s1.setdefault(str(rhost), []).append(bind)
                    steps.append({"hosts": s1})
                    steps.append({"hosts": {str(rhost): [bind]} if when == "next" else {}})
                    steps += [{"hosts": {}}, {"hosts": {}}]
                    if when == "late":
                        steps.append({"hosts": {str(rhost): [bind]}})
                    steps += [{"hosts": {}}, {"hosts": {str(rhost): [["recv", 5, 64, "recv"], ["recv", 5, 64, "try"], ["recv", 5, 64, "try"]]}}]
                    out.append({"cfg": {"nhosts": 2, "v6": v6, "cap": 8, "seed": 1, "min_ms": lat, "max_ms": lat,
                                        "random_order": False}, "steps": steps, "flavour": "udp-send-before-bind"})
    return out


def option_matrix():
    """Deterministic socket-option x destination-class matrix: SO_BROADCAST on/off on the
    sender, IP(V6)_MULTICAST_LOOP on/off on the local receiver and on the remote receiver
    (the sender gets the opposite of the local receiver's flag when it is a separate
    socket), crossed with broadcast / multicast / remote / same-host / 127.0.0.1 sends, the
    sender being the local receiver itself or a separate socket; local + remote receivers
    are drained, so the oracle counts every copy."""
    out = []
    classes = [("bcast", "bcast"), ("mcast", {"m": 1}), ("remote", {"h": 1}), ("same", {"h": 0}), ("lo", {"lo": 1})]
    for v6 in (False, True):
        for cname, dst in classes:
            if v6 and cname == "bcast":
                continue
            for bc in ((False, True) if not v6 else (True,)):
                for ml_local in (False, True):
                    for ml_remote in (False, True):
                        for self_send in (False, True):
                            h0 = [["bind", 2, "any", 9000], ["join", 2, 1], ["set_mloop", 2, ml_local]]
                            if self_send:
                                sender = 2
                                h0.append(["set_broadcast", 2, bc])
                            else:
                                sender = 1
                                h0 += [["bind", 1, "any", 9001], ["set_broadcast", 1, bc], ["set_mloop", 1, not ml_local]]
                            h1 = [["bind", 1, "any", 9000], ["join", 1, 1], ["set_mloop", 1, ml_remote]]
                            sends = [["send", sender, dst, 9000, [7, 1, 3], "send_to"],
                                     ["send", sender, dst, 9000, [7, 2], "try_send_to"]]
                            drain = {"0": [["recv", 2, 64, "try"]] * 4, "1": [["recv", 1, 64, "try"]] * 4}
                            if not self_send:
                                drain["0"] = drain["0"] + [["recv", 1, 64, "try"]] * 2
                            steps = [{"hosts": {"0": h0, "1": h1}}, {"hosts": {"0": sends}}, {"hosts": {}}, {"hosts": {}},
                                     {"hosts": drain}]
                            out.append({"cfg": {"nhosts": 2, "v6": v6, "cap": 16, "seed": 1, "min_ms": 0, "max_ms": 0,
                                                "random_order": False}, "steps": steps, "flavour": "udp-option-matrix"})
    return out


def case_signature(case):
    return json.dumps([case["cfg"]["nhosts"], case["cfg"]["cap"], case["cfg"]["v6"], case["steps"]], sort_keys=True)


def histogram(cases):
    h = {"cases": len(cases), "hosts": {}, "caps": {}, "v6": 0, "random_order": 0, "max_latency_ms": {},
         "cmds": {}, "send_classes": {}, "recv_modes": {}, "bind_kinds": {}, "flavours": {},
         "payload_lengths": {}, "recv_buffers": {}}
    for c in cases:
        cfg = c["cfg"]
        h["hosts"][str(cfg["nhosts"])] = h["hosts"].get(str(cfg["nhosts"]), 0) + 1
        h["caps"][str(cfg["cap"])] = h["caps"].get(str(cfg["cap"]), 0) + 1
        h["v6"] += 1 if cfg.get("v6") else 0
        h["random_order"] += 1 if cfg.get("random_order") else 0
        h["max_latency_ms"][str(cfg["max_ms"])] = h["max_latency_ms"].get(str(cfg["max_ms"]), 0) + 1
        h["flavours"][c.get("flavour", "")] = h["flavours"].get(c.get("flavour", ""), 0) + 1
        for st in c["steps"]:
            for cmds in st.get("hosts", {}).values():
                for cmd in cmds:
                    h["cmds"][cmd[0]] = h["cmds"].get(cmd[0], 0) + 1
                    if cmd[0] == "send":
                        a = cmd[2]
                        cl = a if isinstance(a, str) else list(a)[0]
                        h["send_classes"][cl] = h["send_classes"].get(cl, 0) + 1
                        pl = str(len(cmd[4])) if len(cmd[4]) < 3 else "3+"
                        h["payload_lengths"][pl] = h["payload_lengths"].get(pl, 0) + 1
                    elif cmd[0] == "recv":
                        h["recv_modes"][cmd[3]] = h["recv_modes"].get(cmd[3], 0) + 1
                        bl = str(cmd[2]) if cmd[2] < 3 else "3+"
                        h["recv_buffers"][bl] = h["recv_buffers"].get(bl, 0) + 1
                    elif cmd[0] == "bind":
                        key = cmd[2] + (":0" if cmd[3] == 0 else "")
                        h["bind_kinds"][key] = h["bind_kinds"].get(key, 0) + 1
    return h
