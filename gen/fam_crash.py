"""Family `crash` (harness bin `crash`): the fixed four-host network workload with
Sim::crash / Sim::bounce injected at scripted step indices; rendering of the
victim's socket tables as TV.SimCore.Tables terms.  Serves C04."""
import json
import re

MS = 1000000
NH = 4
GROUP_ID = 1          # 239.1.1.1:9100

HEADER = ("From TV.Lib Require Import Base.\nFrom TV.SimCore Require Import Tables.\n"
          "Open Scope N_scope.\n")


def sel_hosts(s):
    if "h" in s:
        return [s["h"]]
    if "ip" in s:
        return [s["ip"]]
    rx = re.compile(s["re"])
    return [i for i in range(NH) if rx.search("n%d" % i)]


def coq_list(xs):
    return "[" + "; ".join(xs) + "]"


def coq_pair(p):
    return "{| lport := %d; rhost := %d; rport := %d |}" % tuple(p)


# ---- what the peers of a victim saw -------------------------------------------------

def peer_end(obs, task, inc=None):
    """(kind, detail, event index) of the `end` record of client task A/C/D (of the
    given client incarnation), or None."""
    for e in obs["log"]:
        if e[0] == 1 and e[2] == task and e[3] == "end" and (inc is None or e[1] == inc):
            return e[4], e[5], e[6]
    return None


def c_data_in_flight(case, obs, cinc, crash_time):
    """Known-finding class WriterBlockedFullWindow (residual after fix df5434b): the records client task C
    wrote right after its connect (logged at sim time tc, i.e. in step floor(tc/tick)) are stamped with the
    end of that step and become deliverable `lat` later; they have reached the server iff a step that
    delivers them was completed before the crash. True = still in flight (or C not connected at all)."""
    tick = case["cfg"]["tick_ms"] * MS
    lat = case["cfg"]["lat_ms"] * MS
    conn = [e for e in obs["log"] if e[0] == 1 and e[1] == cinc and e[2] == "C" and e[3] == "connect" and e[4] == "ok"]
    if not conn or conn[0][7] is None:
        return True
    k = conn[0][7] // tick
    delivered_by = (k + -(-lat // tick) + 1) * tick
    return crash_time < delivered_by


def task_lport(obs, task, inc):
    """Local port of the stream of client task A / C / D of the given client incarnation, or None."""
    for e in obs["log"]:
        if e[0] == 1 and e[1] == inc and e[2] == task and e[3] == "connect" and e[4] == "ok":
            return e[5]
    return None


def delivered_by(case, t_sent):
    """Sim time by which a segment written by host code at sim time t_sent has been handed to its
    destination host (see c_data_in_flight)."""
    tick = case["cfg"]["tick_ms"] * MS
    lat = case["cfg"]["lat_ms"] * MS
    return (t_sent // tick + -(-lat // tick) + 1) * tick


def fault_events(case, obs):
    """[(event index, name, victims, before, after)] of the executed crash/bounce events."""
    out = []
    for k, ev in enumerate(case["events"]):
        if k >= len(obs["evs"]):
            break
        if ev[0] in ("crash", "bounce"):
            o = obs["evs"][k]
            out.append((k, ev[0], sel_hosts(ev[1]), o.get("before"), o.get("after"), o.get("r")))
    return out


def victim_term(v, before, obs, unread_hint):
    """Tables term of host v before the call + the live objects of its tasks."""
    h = before["hosts"][v]
    objs = []
    for d in h["objs"]:
        if d[0] == "udp":
            objs.append("SUdp %d" % d[1])
        elif d[0] == "listener":
            objs.append("SListener %d" % d[1])
    streams = []
    for p in h["streams"]:
        mine = [d for d in h["objs"] if d[0] == "stream" and d[1:4] == p]
        kinds = [d[4] for d in mine]
        cp = coq_pair(p)
        rc = 0
        for kd in kinds:
            if kd == "whole":
                objs += ["SRead %s false false" % cp, "SWrite %s false" % cp]
                rc += 2
            elif kd == "whole-unread":
                objs += ["SRead %s true false" % cp, "SWrite %s false" % cp]
                rc += 2
            elif kd == "whole-noread":
                objs += ["SRead %s %s false" % (cp, "true" if unread_hint else "false"), "SWrite %s false" % cp]
                rc += 2
            elif kd == "read":
                objs.append("SRead %s false false" % cp)
                rc += 1
            elif kd == "write":
                objs.append("SWrite %s false" % cp)
                rc += 1
        if not kinds:
            objs.append("SConnGuard %s" % cp)      # a connect still waiting for its SYN-ACK
            rc = 2
        streams.append("(%s, %d%%nat)" % (cp, rc))
    mc = []
    for hh in range(NH):
        for m in before["hosts"][hh]["mcast"]:
            mc.append("(%d, %d, %d)" % (GROUP_ID, hh, m[1]))
    t = "{| self := %d; udp := %s; tcp := %s; streams := %s; mcast := %s |}" % (
        v, coq_list(str(x) for x in h["udp"]), coq_list("(%d, [])" % x for x in h["tcp"]),
        coq_list(streams), coq_list(mc))
    return "release_enc %s %s" % (t, coq_list(objs))


def to_model(case, obs):
    terms, probes, problems = [], [], []
    for (k, name, victims, before, after, r) in fault_events(case, obs):
        if before is None or r != "ok":
            continue
        # whether the peer that never reads already holds unread data is not visible in the
        # tables (it sits in the stream's receive channel): taken from what its client then saw
        c_end = peer_end(obs, "C", before["hosts"][1]["starts"] - 1)
        unread_hint = not (c_end is not None and c_end[0] == "eof")
        for v in victims:
            if not before["hosts"][v]["running"]:
                continue
            terms.append(victim_term(v, before, obs, unread_hint))
            probes.append((k, name, v))
    return coq_list(terms), probes, problems


PEER_TASK = {9000: "A", 9002: "C", 9003: "D"}
# client tasks holding an established stream to a server port: (task, port, style)
PEER_TASKS = [("A", 9000, "write_all / read_exact"), ("C", 9002, "write_all then read"), ("D", 9003, "read"),
              ("W", 9002, "writable().await + try_write")]
# server tasks writing to an accepted stream whose client never reads: (log name, port, style)
PUSH_TASKS = [("push", 9005, "write_all"), ("pushw", 9007, "writable().await + try_write")]


def compare(case, obs, model, probes):
    if obs.get("panic"):
        return "harness panicked outside a scripted call: %s" % obs["panic"]
    if isinstance(model, tuple) and model and model[0] == "error":
        return "model evaluation failed: %s" % str(model[1])[-400:]
    if len(model) != len(probes):
        return "model produced %d results for %d crash/bounce victims" % (len(model), len(probes))
    nev = len(obs["evs"])
    faults = {k: (victims, after) for (k, name, victims, before, after, r) in fault_events(case, obs)}
    for (k, name, v), (tabs, msgs) in zip(probes, model):
        victims, after = faults[k]
        h = after["hosts"][v]
        m_udp, m_tcp, m_streams, m_mc = tabs
        if list(m_udp) != h["udp"] or list(m_tcp) != h["tcp"]:
            return "event %d (%s n%d): binds after the call: implementation udp %s tcp %s, model udp %s tcp %s" % (
                k, name, v, h["udp"], h["tcp"], list(m_udp), list(m_tcp))
        ms = [list(m_streams[i:i + 3]) for i in range(0, len(m_streams), 3)]
        if sorted(ms) != sorted(h["streams"]):
            return "event %d (%s n%d): stream entries after the call: implementation %s, model %s" % (k, name, v, h["streams"], ms)
        # (several victims in one call: the snapshots are taken around the whole call,
        # so memberships of the other victims are not comparable)
        others = [x for x in victims if x != v]
        mm = sorted([m_mc[i + 1], m_mc[i + 2]] for i in range(0, len(m_mc), 3) if m_mc[i + 1] not in others)
        im = sorted([hh, m[1]] for hh in range(NH) if hh not in others for m in after["hosts"][hh]["mcast"])
        if mm != im:
            return "event %d (%s n%d): multicast members after the call: implementation %s, model %s" % (k, name, v, im, mm)
        # messages: what the client's tasks must observe when the server's sockets die
        if v == 0 and 1 not in victims and after["hosts"][1]["running"] and nev - k >= 8:
            later_client_fault = any(kk > k and 1 in faults[kk][0] for kk in faults)
            if later_client_fault:
                continue
            want = {}
            before = [b for (kk, _, _, b, _, _) in fault_events(case, obs) if kk == k][0]
            cinc = before["hosts"][1]["starts"] - 1
            cobjs = [d[1:4] for d in before["hosts"][1]["objs"] if d[0] == "stream"]
            for m in msgs:
                # m = [kind, from, lport, rhost, rport]; the client's end of that stream must be alive
                if m[0] in (1, 2) and [m[4], 0, m[2]] in cobjs:
                    for (tk, port, _) in PEER_TASKS:
                        if port == m[2] and task_lport(obs, tk, cinc) == m[4]:
                            want.setdefault(tk, []).append("fin" if m[0] == 1 else "rst")
            for task, kinds in want.items():
                e = peer_end(obs, task, cinc)
                if e is None:
                    return "event %d (%s n0): model sends %s for the stream of client task %s, the task never saw its stream end" % (k, name, kinds, task)
                if e[2] < k:
                    continue      # ended before the call for another reason
                # a writer sees the reset as BrokenPipe (the socket entry is gone), a reader as ConnectionReset
                got = "rst" if e[0] in ("ConnectionReset", "BrokenPipe") else ("fin" if e[0] in ("eof", "UnexpectedEof") else e[0])
                if task == "W" and got == "rst":
                    continue      # a pure writer cannot see a FIN: its next segment is answered with a RST by the dead host
                if kinds[0] != got:
                    return "event %d (%s n0): client task %s saw %s, model's first message for its stream is %s" % (k, name, task, e[0], kinds[0])
    return None


# ---- generators ------------------------------------------------------------------------

def mk_case(events, tick=1, lat=1, seed=1, random_order=False, twin=True, flavour="crash", mc=(), cap=64, busy=6):
    return {"cfg": {"tick_ms": tick, "lat_ms": lat, "seed": seed, "random_order": random_order, "mc_members": list(mc),
                    "tcp_capacity": cap, "busy_ticks": busy},
            "events": events, "twin": twin, "fam": "crash", "flavour": flavour}


def bg_panic_points():
    """A background task (spawn_local) of host n2 or n3 panics in its first, second or third incarnation: Sim::step
    must surface that panic whatever the incarnation (turmoil builds every host LocalSet with
    unhandled_panic(ShutdownRuntime); seed C04-A8: the replacement LocalSet of a crashed / bounced host lost it)."""
    out = []
    for h in (2, 3):
        for inc in (0, 1, 2):
            for how in ("bounce", "crash-bounce"):
                for gap in (0, 2):
                    ev = [["step"]] * 4
                    for _ in range(inc):
                        if how == "bounce":
                            ev += [["bounce", {"h": h}]]
                        else:
                            ev += [["crash", {"h": h}]] + [["step"]] * gap + [["bounce", {"h": h}]]
                        ev += [["step"]] * 2
                    ev += [["step"]] * 8 + [["probe"]]
                    c = mk_case(ev, 1, 1, 7 + inc, False, twin=False, flavour="bg-panic")
                    c["cfg"]["bg_panic"] = [h, inc, 3]
                    out.append(c)
    return out


def bg_panic_oracle(case, obs):
    out = []
    if not case["cfg"].get("bg_panic"):
        return out
    h, inc, ticks = case["cfg"]["bg_panic"]
    evs = obs["evs"]
    hit = [x for x in obs["log"] if x[2] == "bgp" and x[3] == "panic"]
    for x in hit:
        k = x[6]
        r = evs[k].get("r") if 0 <= k < len(evs) else None
        if not (isinstance(r, str) and r.startswith("panic:")):
            out.append(("event %d (step): a background task (spawn_local) of host n%d, incarnation %d, panicked during this step but "
                        "Sim::step returned %s - the panic was swallowed and the half-dead host keeps running (a first incarnation "
                        "surfaces such a panic from Sim::step: the restarted host does not run on an equivalent fresh runtime)"
                        % (k, x[0], x[1], r), None))
    return out


def crash_points(tick, lat, who, total=22, bounce_after=(None, 0, 1, 4), seed=1, mc=(), flavour="crash-points"):
    """Crash `who` after i steps for every i, optionally bounce after j more steps."""
    out = []
    for i in range(0, 16):
        for j in bounce_after:
            ev = [["step"]] * i + [["crash", who]]
            if j is not None:
                ev += [["step"]] * j + [["bounce", who]]
            ev += [["step"]] * (total - i) + [["probe"]]
            out.append(mk_case(ev, tick, lat, seed + i, (i + (j or 0)) % 3 == 0, flavour=flavour, mc=mc))
    return out


def burst_points():
    """Small receive windows (tcp_capacity 1, 2, 4): the server writes a full window to the burst
    port and idles, the clients drain it (peek + read_exact / plain reads) after being busy;
    the server is crashed at every step index."""
    out = []
    for cap in (1, 2, 4):
        for busy in (5, 9):
            for i in range(0, 16):
                for j in (None, 3):
                    ev = [["step"]] * i + [["crash", {"h": 0}]]
                    if j is not None:
                        ev += [["step"]] * j + [["bounce", {"h": 0}]]
                    ev += [["step"]] * (30 - i) + [["probe"]]
                    out.append(mk_case(ev, 1, 1, 70 + i, False, flavour="crash-burst", cap=cap, busy=busy))
    return out


def repeated_crash_points():
    """The server is crashed, and crashed again while it is down (same name twice; name, then a
    regex set containing it; the regex set twice), at every step index; peers keep connecting
    and writing to it afterwards; sometimes it is bounced at the end."""
    out = []
    pairs = [({"h": 0}, {"h": 0}), ({"h": 0}, {"re": "^n[03]$"}), ({"re": "^n[03]$"}, {"re": "^n[03]$"}),
             ({"ip": 0}, {"re": "^n0$"})]
    for pi, (first, second) in enumerate(pairs):
        for i in range(0, 16):
            for gap in (0, 2):
                for cap, lat in ((64, 1), (2, 2)):
                    if (i + gap + pi) % 2 and cap == 2:
                        continue
                    ev = [["step"]] * i + [["crash", first]] + [["step"]] * gap + [["crash", second]] + [["step"]] * 16
                    if (i + pi) % 3 == 0:
                        ev += [["bounce", {"h": 0}]] + [["step"]] * 8
                    ev += [["probe"]]
                    out.append(mk_case(ev, 1, lat, 90 + i, False, flavour="crash-repeated", cap=cap))
    return out


def multicast_points():
    """One, two and three members of the group 239.1.1.1:9100 (n0 always, n2 / n3
    optionally): crash / bounce ONE member at every step index; bounce without crash too."""
    out = []
    for mc in ((2,), (2, 3), ()):
        victims = [{"h": 0}] + ([{"re": "^n2$"}] if 2 in mc else [])
        for who in victims:
            out += crash_points(1, 1, who, bounce_after=(None, 2), mc=mc, flavour="crash-multicast")
            for i in range(0, 16, 3):       # bounce without crash
                ev = [["step"]] * i + [["bounce", who]] + [["step"]] * (22 - i) + [["probe"]]
                out.append(mk_case(ev, 1, 2, 40 + i, False, flavour="crash-multicast", mc=mc))
    return out


def rand_sel(rng, hs):
    if len(hs) == 1:
        h = hs[0]
        r = rng.random()
        return {"h": h} if r < 0.5 else ({"ip": h} if r < 0.75 else {"re": "^n%d$" % h})
    return {"re": "^n[%s]$" % "".join(str(h) for h in hs)}


def gen_random(rng):
    tick = rng.choice([1, 1, 2, 3])
    lat = rng.choice([1, 1, 2, 3, 5])
    ev = []
    n = rng.randrange(18, 40)
    down = set()
    for _ in range(n):
        r = rng.random()
        if r < 0.1:
            hs = rng.choice([[0], [0], [1], [0, 1], [2], [0, 1, 2], [3]])
            ev.append(["crash", rand_sel(rng, hs)])
            down.update(hs)
        elif r < 0.2:
            hs = rng.choice([[0], [0], [1], [0, 1], sorted(down) or [0]])
            ev.append(["bounce", rand_sel(rng, hs)])
            down.difference_update(hs)
        elif r < 0.24:
            ev.append(["probe"])
        else:
            ev.append(["step"])
    ev += [["step"]] * 10 + [["probe"]]
    return mk_case(ev, tick, lat, rng.randrange(1 << 30), rng.random() < 0.4, flavour="crash-random",
                   mc=rng.choice([(), (2,), (2,), (2, 3), (3,)]), cap=rng.choice([64, 64, 4, 2, 1]), busy=rng.choice([3, 6, 9]))


def histogram(cases):
    h = {"cases": len(cases), "events": {}, "victims": {}, "ticks_ms": {}, "lat_ms": {}, "flavours": {}, "selectors": {"h": 0, "ip": 0, "re": 0},
         "multicast_members": {}, "tcp_capacity": {}}
    for c in cases:
        nm = str(1 + len(c["cfg"].get("mc_members", [])))
        h["multicast_members"][nm] = h["multicast_members"].get(nm, 0) + 1
        cp = str(c["cfg"].get("tcp_capacity", 64))
        h["tcp_capacity"][cp] = h["tcp_capacity"].get(cp, 0) + 1
        h["flavours"][c.get("flavour", "?")] = h["flavours"].get(c.get("flavour", "?"), 0) + 1
        h["ticks_ms"][str(c["cfg"]["tick_ms"])] = h["ticks_ms"].get(str(c["cfg"]["tick_ms"]), 0) + 1
        h["lat_ms"][str(c["cfg"]["lat_ms"])] = h["lat_ms"].get(str(c["cfg"]["lat_ms"]), 0) + 1
        for ev in c["events"]:
            h["events"][ev[0]] = h["events"].get(ev[0], 0) + 1
            if ev[0] in ("crash", "bounce"):
                key = ",".join(str(x) for x in sel_hosts(ev[1]))
                h["victims"][key] = h["victims"].get(key, 0) + 1
                for kk in ev[1]:
                    h["selectors"][kk] += 1
    return h


def case_signature(case):
    return json.dumps([case["cfg"]["tick_ms"], case["cfg"]["lat_ms"], case["cfg"].get("mc_members", []), case["cfg"].get("tcp_capacity", 64),
                       case["cfg"].get("busy_ticks", 6), case["events"]], sort_keys=True)
