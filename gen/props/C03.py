"""C03 - nothing sent across an explicitly partitioned direction is ever delivered."""
import fam_link as F
from pipeline import PropSpec

LINK_ANCHORS = [("crates/turmoil/src/top.rs", f) for f in (
    "enqueue_message", "enqueue", "tick", "process_deliverables", "deliver_messages",
    "rand_partition_or_repair", "hold", "release", "explicit_partition", "partition_oneway",
    "repair_oneway", "explicit_repair", "delay", "latency", "get_state_for_message")] + [
    ("crates/turmoil/src/lib.rs", "for_pairs"), ("crates/turmoil/src/top.rs", "tick_by")]

LINK_CONSTS = [
    ("default_min_latency_ms", "crates/turmoil/src/config.rs", r"min_message_latency: Duration::from_millis\((\d+)\)", "N"),
    ("default_max_latency_ms", "crates/turmoil/src/config.rs", r"max_message_latency: Duration::from_millis\((\d+)\)", "N"),
    ("default_fail_rate_x1000", "crates/turmoil/src/config.rs", r"fail_rate: (\d+)\.\d+,\s*repair_rate", "N"),
    # structure of the state machine: the model's inductives must have the same variants
    ("link_state_variants", "crates/turmoil/src/top.rs", "State", "enum"),
    ("delivery_status_variants", "crates/turmoil/src/top.rs", "DeliveryStatus", "enum"),
]

HEADER = "From TV.Lib Require Import Base.\nFrom TV.Link Require Import Model.\nOpen Scope N_scope.\n"


def c03_oracle(case, obs):
    """Returns [(text, class)] for violations of C03 on the implementation trace."""
    tl = F.timeline(case, obs)
    explicit = {}
    inflight = {}     # id -> (src, dst, mature_at)
    forbidden = {}    # id -> reason
    expected = {}     # id -> dst, must be received exactly once (fail_rate 0 only)
    got = {}
    out = []
    fail0 = case["cfg"]["fail"] == 0.0
    for ev in tl:
        if ev[0] == "call":
            _, name, a, b, t = ev
            dirs = [(a, b), (b, a)] if name in ("partition", "repair") else [(a, b)]
            if name in ("hold", "release"):
                continue
            val = name.startswith("partition")
            for d in dirs:
                explicit[d] = val
                if val:
                    for i, (s, dd, mat) in list(inflight.items()):
                        if (s, dd) == d and mat > t:
                            forbidden[i] = "in flight (matures at %d ns) when %s(%d,%d) was called at %d ns" % (mat, name, a, b, t)
                            expected.pop(i, None)
                            del inflight[i]
        elif ev[0] == "send":
            _, src, dst, i, step, t, delay, rnd, rep = ev
            if explicit.get((src, dst)):
                forbidden[i] = "sent from h%d to h%d at step %d while that direction was explicitly partitioned" % (src, dst, step)
            elif delay is not None:
                inflight[i] = (src, dst, t + delay)
                if fail0:
                    expected[i] = dst
            elif fail0:
                out.append(("message %d (h%d->h%d, step %d) was dropped at send although the direction is not partitioned and fail_rate is 0" % (i, src, dst, step), None))
        elif ev[0] == "recv":
            _, h, i, step, el, frm = ev
            got[i] = got.get(i, 0) + 1
            if i in forbidden:
                out.append(("message %d delivered to h%d at step %d although it was %s" % (i, h, step, forbidden[i]), None))
            if got[i] > 1:
                out.append(("message %d delivered %d times" % (i, got[i]), None))
            if i in expected and expected[i] != h:
                out.append(("message %d for h%d delivered to h%d" % (i, expected[i], h), None))
    for i, dst in expected.items():
        if got.get(i, 0) != 1:
            out.append(("message %d to h%d sent on an unpartitioned direction (fail_rate 0) was received %d times by the end of the run" % (i, dst, got.get(i, 0)), None))
    return out


def c03_nontrivial(case, obs):
    tl = F.timeline(case, obs)
    explicit = {}
    for ev in tl:
        if ev[0] == "call" and ev[1] in ("partition", "partition_oneway", "repair", "repair_oneway"):
            dirs = [(ev[2], ev[3]), (ev[3], ev[2])] if ev[1] in ("partition", "repair") else [(ev[2], ev[3])]
            for d in dirs:
                explicit[d] = ev[1].startswith("partition")
        elif ev[0] == "send" and explicit.get((ev[1], ev[2])):
            return True
    return False


class Spec(PropSpec):
    pid = "C03"
    subsys = "Link"
    props_file = "C03.v"
    theorems = ["c03_never_delivered", "c03_inflight_dropped", "c03_state_invariant",
                "c03_reverse_untouched", "c03_other_links_untouched", "c03_topology_refines_link",
                "c03_topology_projects", "c03_topology_never_delivered", "c03_topology_only_sent", "c03_fresh_after_registration", "c03_topology_nonvacuous",
                "c03_flows_again", "c03_model_matches_enums", "c03_nonvacuous"]
    consts = LINK_CONSTS
    anchors = LINK_ANCHORS
    harness_bins = ["link"]
    coq_header = HEADER
    model_name = "TV.Link.Model"
    rule = ("scripts = controller/host API calls (partition, partition_oneway, repair, repair_oneway by name/ip/regex) "
            "interleaved with uniquely numbered UDP datagrams on 2-4 hosts; random fail/repair rates, latencies, host order; "
            "a case is non-trivial when at least one datagram is sent across a direction that is explicitly partitioned at that moment; "
            "distinct = distinct (hosts, script)")
    assumptions = [
        "sampled latency multiplier and the two link coins are inputs of the model (read from the verif-hooks decision log); the theorems quantify over all their values",
        "TCP RST push-back inside Link::deliver_messages is not modelled in the Link model (UDP carriers only)",
        "per-link fail-rate overrides only change coin probabilities, which the model does not contain",
    ]

    def gen_cases(self, ctx):
        n = 350 if ctx.tier == "quick" else 2500
        if ctx.escalate:
            n *= 2
        cases = [F.gen_partition_script(ctx.rng) for _ in range(n)]
        cases += [F.gen_tcp_script(ctx.rng, "partition") for _ in range(n // 4)]
        ex = F.exhaustive_partition_scripts()
        if ctx.tier == "quick":
            ex = ctx.rng.sample(ex, 120)
        return ex + cases

    def to_model(self, case, obs):
        return F.to_model(case, obs)

    def compare(self, case, obs, model, probes):
        return F.compare(case, obs, model, probes)

    def oracle(self, case, obs):
        if obs.get("panic"):
            return []
        if case["cfg"].get("tcp"):
            return F.tcp_oracle(case, obs, "partition")
        return c03_oracle(case, obs)

    def nontrivial(self, case, obs):
        if case["cfg"].get("tcp"):
            return len(obs.get("tcp_recv", [])) > 0
        return not obs.get("panic") and c03_nontrivial(case, obs)

    def signature(self, case):
        return F.case_signature(case)

    def shrink_range(self, case):
        return F.shrink_range(case)

    def histogram(self, cases):
        return F.histogram(cases)


SPEC = Spec()
