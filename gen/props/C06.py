"""C06 - turmoil-net TCP survives drops, delays, reordering without corruption or stall."""
import fam_nettcp as F
from pipeline import PropSpec
from C16 import stream_addrs

ERRS_ABORT = ("TimedOut", "ConnectionReset")


def pair_streams(case, obs):
    """[(slot x, slot y)] such that x and y are the two ends of one connection (by addresses)."""
    addrs = stream_addrs(case, obs)
    pairs, used = [], set()
    for x, (lx, px) in sorted(addrs.items()):
        if x in used:
            continue
        for y, (ly, py) in sorted(addrs.items()):
            if y != x and y not in used and ly == px and py == lx:
                pairs.append((x, y))
                used.update((x, y))
                break
    return pairs


def stream_log(case, obs):
    """slot -> dict(written=[bytes accepted], read=[bytes returned], ops=[(step, cmd, result)])."""
    log = {}
    for i, (c, o) in enumerate(zip(case["script"], obs["obs"])):
        if c[0] not in ("write", "read", "peek", "shutdown") or o.get("r") == "noslot":
            continue
        L = log.setdefault(c[1], {"written": [], "read": [], "ops": [], "eof": None, "shut": None})
        L["ops"].append((i, c[0], o.get("r")))
        if c[0] == "write" and o["r"] == "ok":
            L["written"].extend(c[2][:o["n"]])
        elif c[0] == "read" and o["r"] == "ok":
            if not o["b"] and c[2] > 0 and L["eof"] is None:
                L["eof"] = i
            L["read"].extend(o["b"])
        elif c[0] == "shutdown" and o["r"] == "ok" and L["shut"] is None:
            L["shut"] = i
    return log


def c06_oracle(case, obs):
    out = []
    script, ob = case["script"], obs["obs"]
    log = stream_log(case, obs)
    pairs = pair_streams(case, obs)
    peer = {}
    for x, y in pairs:
        peer[x], peer[y] = y, x
    # --- safety: prefix, in order, unaltered (also what peek shows) ---
    wr = {s: [] for s in log}
    rd = {s: [] for s in log}
    for i, (c, o) in enumerate(zip(script, ob)):
        if c[0] == "write" and o.get("r") == "ok":
            wr.setdefault(c[1], []).extend(c[2][:o["n"]])
        elif c[0] in ("read", "peek") and o.get("r") == "ok" and c[1] in peer:
            src = wr.get(peer[c[1]], [])
            have = rd.setdefault(c[1], [])
            exp = src[len(have):len(have) + len(o["b"])]
            if list(o["b"]) != exp:
                out.append(("step %d: %s on slot %d returned %s but the peer (slot %d) had written %s at that position "
                            "(bytes read must be a prefix of bytes written)" % (i, c[0], c[1], o["b"], peer[c[1]], exp), None))
            if c[0] == "read":
                have.extend(o["b"])
    # --- EOF never truncates ---
    for s, L in log.items():
        if L["eof"] is not None and s in peer:
            W = log.get(peer[s], {"written": []})["written"]
            if L["read"] != W:
                out.append(("slot %d saw end-of-file at step %d after %d bytes but its peer's writes had %d bytes accepted"
                            % (s, L["eof"], len(L["read"]), len(W)), None))
    # --- retransmit exhaustion is loud ---
    for s, L in log.items():
        dead = None
        for (i, op, r) in L["ops"]:
            if dead is not None and r not in ERRS_ABORT:
                out.append(("step %d: %s on slot %d returned %s although the connection was aborted with %s at step %d"
                            % (i, op, s, r, dead[1], dead[0]), None))
                break
            if r in ERRS_ABORT and dead is None:
                dead = (i, r)
    # --- liveness on the fair family ---
    plan = case.get("plan")
    if plan and "w" in plan:
        out.extend(liveness(case, obs, log, plan))
    if case.get("flavour") == "bidi":
        out.extend(retransmit_deadline(case, obs))
    return out


def retransmit_deadline(case, obs):
    """Bidirectional family: a sender that has unacknowledged data (or an unacknowledged FIN) must re-emit the
    segment that starts at its oldest unacknowledged byte at the retx_threshold-th egress pass after the last
    acknowledgement progress (one pass of slack), whatever the peer sent in between; a peer window of 0 excuses it."""
    cfg = F.full_cfg(case["cfg"])
    th = cfg["retx_threshold"]
    out = []
    una, sent_end, stale, wnd, dead, flagged = {}, {}, {}, {}, set(), set()

    def delivered(p):
        if p[0] != 0:
            return
        K = (p[2], p[4], p[1], p[3])                 # the receiving endpoint as a sender key
        fl = p[7]
        if fl & F.F_RST:
            dead.add(K)
            dead.add(F.conn_key(p))
            return
        if fl & F.F_SYN or not fl & F.F_ACK or K not in una:
            return
        wnd[K] = p[8]
        if una[K] < p[6] <= sent_end.get(K, una[K]):
            una[K] = p[6]
            stale[K] = 0

    for i, (c, o) in enumerate(zip(case["script"], obs["obs"])):
        n = c[0]
        if n == "egress":
            outstanding = {K for K in una if una[K] < sent_end.get(K, una[K])}
            resent = set()
            for p in o["pk"]:
                if p[0] != 0:
                    continue
                K = F.conn_key(p)
                fl = p[7]
                if fl & F.F_RST:
                    dead.add(K)
                    continue
                if fl & F.F_SYN:
                    una[K] = p[5] + 1
                    sent_end[K] = p[5] + 1
                    stale[K] = 0
                    continue
                occ = len(p[9]) + (1 if fl & F.F_FIN else 0)
                if occ and K in una:
                    if K in outstanding and p[5] == una[K]:
                        resent.add(K)
                    sent_end[K] = max(sent_end[K], p[5] + occ)
            for K in outstanding:
                if K in resent or wnd.get(K, 1) == 0:
                    stale[K] = 0
                else:
                    stale[K] = stale.get(K, 0) + 1
                if stale[K] > th and K not in dead and K not in flagged:
                    flagged.add(K)
                    out.append(("step %d: endpoint %s has had bytes from seq %d unacknowledged for %d egress passes without "
                                "acknowledgement progress and has not retransmitted them (retx_threshold %d), although only "
                                "one packet was lost - the peer kept sending" % (i, K, una[K], stale[K], th), None))
        elif n in ("deliver", "dup") and o.get("r") == "ok":
            delivered(o["p"])
        elif n == "flush":
            for p in o["pk"]:
                delivered(p)
    return out


def find_row(rows_obs, local, peer):
    for r in rows_obs["rows"]:
        t = r.get("tcb")
        if t and tuple(r["local"] or ()) == tuple(local) and tuple(t["peer"]) == tuple(peer):
            return t
    return None


def lost_window_updates(case, obs, sender_addr, reader_addr, reader_slot):
    """Replays the wire of the run.  A *window update* is a payload-free plain ACK from the reader to the sender
    that repeats the reader's previous acknowledgement number with a larger window and left the reader at an
    egress that follows a successful non-empty read.  Returns the descriptions of those that were dropped before
    ever being delivered, or that were overtaken (a segment emitted before them was delivered to the sender
    after them)."""
    wire, stamp = [], 0          # wire: [(stamp, pkt)]
    prev = None                  # previous segment the reader emitted on this connection
    read_since = False
    upd, delivered, out = {}, set(), []
    overtaken = set()

    def to_sender(p):
        return p[0] == 0 and (p[1], p[3]) == tuple(reader_addr) and (p[2], p[4]) == tuple(sender_addr)

    def deliver(st, p, i):
        if not to_sender(p):
            return
        for u in upd:
            if u in delivered and st < u and u not in overtaken:
                overtaken.add(u)
                out.append("window update emitted at step %d (window %d) was overtaken: the older segment #%d was "
                           "delivered after it at step %d" % (upd[u][0], upd[u][1], st, i))
        delivered.add(st)

    for i, (c, o) in enumerate(zip(case["script"], obs["obs"])):
        n = c[0]
        if n == "read" and c[1] == reader_slot and o.get("r") == "ok" and o["b"]:
            read_since = True
        elif n == "egress":
            for p in o["pk"]:
                if to_sender(p):
                    plain = p[7] == 2 and not p[9]
                    if plain and read_since and prev is not None and p[6] == prev[6] and p[8] > prev[8]:
                        upd[stamp] = (i, p[8])
                    prev = p
                wire.append((stamp, p))
                stamp += 1
            read_since = False
        elif n in ("deliver", "drop", "dup") and o.get("r") == "ok":
            st, p = wire[c[1]]
            if n != "dup":
                wire.pop(c[1])
            if n == "drop":
                if st in upd and st not in delivered:
                    out.append("window update emitted at step %d (window %d) was dropped at step %d" % (upd[st][0], upd[st][1], i))
            else:
                deliver(st, p, i)
        elif n == "flush":
            for st, p in wire:
                deliver(st, p, i)
            wire = []
    return out


def liveness(case, obs, log, plan):
    """Bounded loss (< retx_max drops in total), then a long fair phase: nothing may be aborted, every accepted
    byte and then EOF must arrive. Failures that show the zero-window signature are the known class."""
    out = []
    script, ob = case["script"], obs["obs"]
    addrs = stream_addrs(case, obs)
    w, r = plan["w"], plan["r"]
    if w not in addrs or r not in addrs:
        return [("the connection of the fair scenario was not established (slots %d/%d) although fewer than retx_max "
                 "handshake packets were dropped" % (w, r), None)]
    rows = {}
    for c, o in zip(script, ob):
        if c[0] == "rows":
            rows[c[1]] = o
    if plan.get("max_drops") is not None:
        # family retx_budget: judged only when at most retx_max copies were really dropped
        nd = sum(1 for c, o in zip(script, ob) if c[0] == "drop" and o.get("r") == "ok")
        if nd > plan["max_drops"]:
            return []
    # Only a run that has come to rest can be judged: the last three egress passes emitted nothing.
    tail = [o for c, o in zip(script, ob) if c[0] == "egress"][-3:]
    if len(tail) < 3 or any(o["pk"] for o in tail):
        return []
    dirs = [(w, r)] + ([(r, w)] if plan["both"] else [])
    for (x, y) in dirs:
        Lx, Ly = log.get(x, {"written": [], "ops": [], "shut": None}), log.get(y, {"read": [], "ops": [], "eof": None})
        fails = []
        for s in (x, y):
            for (i, op, res) in log.get(s, {"ops": []})["ops"]:
                if res in ERRS_ABORT or res in ("NotConnected", "BrokenPipe") and not (op == "write" and log[s]["shut"] is not None and i > log[s]["shut"]):
                    fails.append("step %d: %s on slot %d failed with %s" % (i, op, s, res))
                    break
        if Ly["read"] != Lx["written"]:
            fails.append("slot %d read %d of the %d bytes accepted from slot %d" % (y, len(Ly["read"]), len(Lx["written"]), x))
        elif Lx["shut"] is not None and Ly["eof"] is None:
            fails.append("slot %d never saw end-of-file although slot %d shut down its write side at step %d" % (y, x, Lx["shut"]))
        if not fails:
            continue
        # classification by the final state of the sender (verif-hooks rows)
        klass = None
        hx = 0 if addrs[x][0][0] == 2 else 1
        tx = find_row(rows.get(hx, {"rows": []}), addrs[x][0], addrs[x][1])
        if tx and tx["state"] != "Closed" and not tx["reset"] and not tx["timed_out"]:
            inflight = (tx["snd_nxt"] - tx["snd_una"]) % 2 ** 32
            pending = tx["send_q"] > inflight or (tx["fin_seq"] is not None and tx["snd_nxt"] == tx["fin_seq"])
            if pending and tx["snd_wnd"] <= inflight:
                lost = lost_window_updates(case, obs, addrs[x][0], addrs[y][0], y)
                if lost:
                    klass = "ZeroWindowStall"
                    fails.append("sender window %d; %s" % (tx["snd_wnd"], lost[0]))
                else:
                    fails.append("sender is left with window %d although no window update was dropped or overtaken" % tx["snd_wnd"])
        out.append(("fair run (drops=%d <%s retx_max=%d): %s" % (plan["drops"], "=" if plan.get("max_drops") is not None else "", F.full_cfg(case["cfg"])["retx_max"], "; ".join(fails)), klass))
    return out


def c06_nontrivial(case, obs):
    hit = data = False
    for c, o in zip(case["script"], obs["obs"]):
        if c[0] in ("drop", "dup") and o.get("r") == "ok":
            hit = True
        if c[0] == "deliver" and c[1] >= 1 and o.get("r") == "ok":
            hit = True
        if c[0] == "read" and o.get("r") == "ok" and o["b"]:
            data = True
    return hit and data


class Spec(PropSpec):
    pid = "C06"
    subsys = "NetTcp"
    props_file = "C06.v"
    coq_targets = ["C06.vo"]
    theorems = ["c06_prefix", "c06_eof_after_all", "c06_handshake_sync", "c06_abort_is_loud", "c06_dup_reacked",
                "c06_acked_delivered", "c06_sender_progress", "c06_quiescent_complete", "c06_window_update_lost_refuted",
                "c06_no_spurious_abort_partial", "c06_timeout_exact", "c06_retransmit_every_threshold", "c06_kernel_uses_tcb_on_conn", "c06_nonvacuous"]
    consts = F.NET_CONSTS
    anchors = F.NET_ANCHORS
    harness_bins = ["nettcp"]
    coq_header = F.HEADER
    model_name = "TV.NetTcp.Model"
    rule = ("scripts drive the real turmoil-net kernel + tokio shim; the harness is the wire: every packet (SYN, SYN-ACK, "
            "handshake ACK, data, pure ACK, window update, FIN, RST) can be delivered, dropped, overtaken (held) or duplicated; "
            "random KernelConfig (MSS 1..1460, caps 1..70000, retx threshold/max), writes/reads of random sizes on both ends, "
            "half-close, close, loopback and cross-host, IPv4/IPv6; exhaustive single-fault family over a fixed small transfer; "
            "'fair' family: fewer than retx_max drops in total, then a long phase in which everything is delivered and both "
            "applications keep pumping; deterministic 'bidi' family: one lost request / FIN while the opposite direction streams "
            "a heartbeat every round (the lost segment must be retransmitted at the retx_threshold-th pass whatever the peer "
            "sends); deterministic 'fin_ack_lost' family: half-close, the ACK of the FIN lost, the FIN receiver silent for more "
            "than the whole retransmit budget, then answers (every FIN copy must be re-ACKed, nobody aborted); 'blocked_writer': "
            "receive cap 16 < transfer, the writer parked behind the closed window with bytes queued, the peer writes back and "
            "reads only after the whole budget, no loss (loopback and two hosts). Non-trivial = at least one fault hit a real packet and data was read; "
            "distinct = distinct (cfg, script)")
    assumptions = [
        "theorems are stated on the connection-level system `cstep` built from the same per-TCB functions as the kernel model (c06_kernel_uses_tcb_on_conn); the kernel model is what the correspondence checks against the implementation",
        "segments of an earlier incarnation of the same 4-tuple are outside the connection-level system (client ports are never reused before 16384 further connects)",
        "sequence numbers: the theorems are stated on unbounded naturals (side condition: every live sequence distance - in flight, window, send/receive buffer - stays below 2^31; that the code's wrapping_sub/wrapping_add/== then agree with them is PROVED for the whole inbound per-connection handler (handshake states + handle_established), the TCB literals of connect / accept_syn, segment_one and segment_all's filter by tcb_on_conn_wrap, tcb_on_seg_wrap, fresh_tcb_wrap, seg_step_wrap, transmittable_wrap (coq/NetTcp/Wrap.v, WrapTcb.v, checked with C16; tight: wrap_tight), the remaining sites - handshake equalities, probe sequence - by the site lemmas of Wrap.v; caps and windows are at most 65535/70000); the model's wire encoding is mod 2^32 and the deterministic `wrap` family of C06 (ISN = 2^32-k on both hosts via verif hook 71a27bd, k in {1,100,1460,5000}, both roles, both directions, with and without loss) checks model/implementation correspondence and the byte-stream oracle across the wrap", "packet duplication is modelled although the property excludes it",
        "waker delivery is not modelled: the theorems say what a poll returns, the harness polls with a no-op waker",
        "liveness (c06_quiescent_complete) is deadlock-freedom over the schedules `fair_run`: nothing injected, no pure window update (the ACK a read emits) dropped before it was delivered or overtaken by an older segment; everything else may be lost, duplicated, reordered; the timed no-spurious-abort statement is partial (exact abort timing proved, environment derivation not)",
    ]
    partial_note = ("c06_no_spurious_abort_partial: proved for every schedule are the exact timing of the abort "
                    "(c06_timeout_exact: TimedOut <=> retx_threshold*(retx_max+1) consecutive timer passes without an ACK that "
                    "advances snd_una / completes the handshake) and the local counter facts; not proved: that a round-based "
                    "bounded-delay environment with fewer than retx_max drops per segment yields an advancing ACK inside every "
                    "budget window - missing are (M1) receiver room when the retransmission arrives (a reordered older ACK can "
                    "re-open the window beyond the receiver's right edge, tcb_ack has no SND.WL1/WL2 test: needs the right-edge "
                    "invariant over the wire or FIFO delivery), (M2) the ACK arriving "
                    "while ackn <= snd_nxt (rewind and re-segmentation are two events of the connection-level system), (M3) the "
                    "round/drop counting. c06_quiescent_complete is proved for all schedules without a lost/overtaken window "
                    "update; for the others it is refuted on the code as it is (class ZeroWindowStall, "
                    "c06_window_update_lost_refuted: no persist probe)")

    def gen_cases(self, ctx):
        n = 360 if ctx.tier == "quick" else 3000
        if ctx.escalate:
            n *= 2
        cases = list(F.exhaustive_single_faults()) + F.bidi_cases() + F.wrap_cases() + F.fin_ack_lost_cases() + F.blocked_writer_cases() + F.retx_budget_cases()
        if ctx.tier != "quick":
            cases += F.exhaustive_single_faults(retx_threshold=1, retx_max=3)
        for i in range(n):
            r = i % 10
            if r < 4:
                cases.append(F.gen_transfer(ctx.rng))
            elif r < 6:
                cases.append(F.gen_transfer(ctx.rng, dup=True))
            elif r < 9:
                cases.append(F.gen_live(ctx.rng))
            else:
                cases.append(F.gen_caps(ctx.rng))
        return cases

    def to_model(self, case, obs):
        return F.to_model(case, obs)

    def compare(self, case, obs, model, probes):
        return F.compare(case, obs, model, probes)

    def oracle(self, case, obs):
        if obs.get("panic"):
            return []
        return c06_oracle(case, obs)

    def nontrivial(self, case, obs):
        return not obs.get("panic") and c06_nontrivial(case, obs)

    def signature(self, case):
        return F.case_signature(case)

    def histogram(self, cases):
        return F.histogram(cases)


SPEC = Spec()
