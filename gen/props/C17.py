"""C17 - turmoil-net binds and routes packets like a real socket table."""
import fam_netsock as F
from pipeline import PropSpec
from C19 import NETPURE_CONSTS

NET = "crates/turmoil-net/src/"
ANCHORS = [(NET + "kernel/mod.rs", f) for f in ("bind", "close", "is_local", "deliver", "egress", "poll_connect", "poll_accept", "poll_send_to")] + \
          [(NET + "kernel/socket.rs", f) for f in ("insert", "remove", "find_by_bind", "insert_binding", "insert_connection",
                                                    "find_connection", "bindings_on_port", "allocate_port", "allocate")] + \
          [(NET + "kernel/udp.rs", f) for f in ("deliver", "send_to", "auto_bind")] + \
          [(NET + "kernel/tcp.rs", f) for f in ("deliver", "find_listener", "accept_syn", "push_to_listener", "on_close",
                                                 "emit_rst", "auto_bind", "local_endpoint", "handle_on_connection")] + \
          [(NET + "fabric.rs", f) for f in ("deliver", "egress_all", "try_add_host", "host_for_ip")]

EPH = (49152, 65535)


class OSock:
    def __init__(self, host, proto, role, addr, port, handle):
        self.host, self.proto, self.role = host, proto, role
        self.addr, self.port, self.handle = F.norm_ip(addr), port, handle
        self.peer = None          # udp: connected peer; tcp stream: remote endpoint
        self.zombie = False       # closed stream: its binding may linger (FIN path), don't care ...
        self.lossy = False        # ... for good if a segment of the connection was lost or a hand-made one was injected
        self.expected = []        # udp: datagrams that must be received next, in order

    @property
    def fam(self):
        return F.fam(self.addr)


def conflicts(s, proto, addr, port):
    return (s.proto == proto and s.fam == F.fam(addr) and s.port == port and
            (s.addr == F.norm_ip(addr) or F.is_unspec(s.addr) or F.is_unspec(addr)))


def local_to(hosts, h, ip):
    return F.is_loopback(ip) or F.norm_ip(ip) in [F.norm_ip(a) for a in hosts[h]]


def owner(hosts, ip):
    for i, a in enumerate(hosts):
        if F.norm_ip(ip) in [F.norm_ip(x) for x in a]:
            return i
    return None


def udp_src(hosts, s, dst_ip):
    if not F.is_unspec(s.addr):
        return s.addr
    if F.is_loopback(dst_ip):
        return "127.0.0.1" if F.fam(dst_ip) == 4 else "::1"
    for a in hosts[s.host]:
        if F.fam(a) == F.fam(dst_ip):
            return F.norm_ip(a)
    return s.addr


def udp_receiver(socks, h, dst, src):
    """declarative demux: exact address before wildcard, connected socket only from its peer"""
    cands = [s for s in socks if s.host == h and s.proto == "udp" and not s.zombie and s.port == dst[1] and s.fam == F.fam(dst[0])]
    exact = [s for s in cands if s.addr == F.norm_ip(dst[0])]
    wild = [s for s in cands if F.is_unspec(s.addr)]
    t = exact[0] if exact else wild[0] if wild else None
    if t is None:
        return None
    if t.peer is not None and (F.norm_ip(t.peer[0]), t.peer[1]) != (F.norm_ip(src[0]), src[1]):
        return None
    return t


def listener_for(socks, h, dst):
    cands = [s for s in socks if s.host == h and s.role == "lst" and s.port == dst[1] and s.fam == F.fam(dst[0])]
    exact = [s for s in cands if s.addr == F.norm_ip(dst[0])]
    wild = [s for s in cands if F.is_unspec(s.addr)]
    return exact[0] if exact else wild[0] if wild else None


def c17_oracle(case, obs):
    out = []
    hosts = case["cfg"]["hosts"]
    socks = []                  # live sockets known from the trace
    by_handle = {}
    nh = 0                      # next handle index
    pending = {h: [] for h in range(len(hosts))}   # datagrams queued in a host's outbound: (src, dst, tag)
    probes = {}                 # tcp data tag -> (src, dst)
    syn_for = {}                # listener handle -> set of peers whose SYN the declarative demux gives it
    syn_pending = {h: [] for h in range(len(hosts))}   # connects whose SYN has not left yet: (src, dst)

    def deliver_udp(src, dst, tag):
        h = owner(hosts, dst[0])
        if h is None:
            return
        t = udp_receiver(socks, h, dst, src)
        if t is not None:
            t.expected.append([F.norm_ip(src[0]), src[1], tag])

    def deliver_local_or(h, keep_remote):
        rest = []
        for src, dst, tag in pending[h]:
            if local_to(hosts, h, dst[0]):
                t = udp_receiver(socks, h, dst, src)
                if t is not None:
                    t.expected.append([F.norm_ip(src[0]), src[1], tag])
            elif keep_remote:
                rest.append((src, dst, tag))
        return rest

    children = {}               # (local, peer) of a connection still owned by a listener -> listener handle

    def syn_arrives(h, src, dst):
        l = listener_for(socks, h, dst)
        if l is not None and l.handle is not None:
            peer = (F.norm_ip(src[0]), src[1])
            syn_for.setdefault(l.handle, set()).add(peer)
            children[((F.norm_ip(dst[0]), dst[1]), peer)] = l.handle

    for i, cmd in enumerate(case["script"]):
        if i >= len(obs["steps"]):
            break                     # the implementation panicked here: judge what was observed before
        o = obs["steps"][i]
        n = cmd[0]
        where = "cmd %d %s" % (i, cmd)
        if n in ("bind_udp", "listen"):
            h, ip, port = cmd[1], cmd[2], cmd[3]
            proto = "udp" if n == "bind_udp" else "tcp"
            hd = nh
            nh += 1
            if not (F.is_unspec(ip) or local_to(hosts, h, ip)):
                if o["r"] != "AddrNotAvailable":
                    out.append(("%s: %s is not an address of host %d, bind must fail with AddrNotAvailable, got %s" % (where, ip, h, o["r"]), None))
                continue
            live = [s for s in socks if s.host == h]
            if port != 0:
                hard = [s for s in live if conflicts(s, proto, ip, port) and not s.zombie]
                soft = [s for s in live if conflicts(s, proto, ip, port) and s.zombie]
                if hard and o["r"] != "AddrInUse":
                    out.append(("%s: conflicts with the live %s socket %s:%d (handle %s) but bind returned %s" % (where, proto, hard[0].addr, hard[0].port, hard[0].handle, o["r"]), None))
                if not hard and not soft and o["r"] != "ok":
                    out.append(("%s: no live %s socket conflicts on port %d and the address is local, but bind returned %s" % (where, proto, port, o["r"]), None))
            else:
                if o["r"] == "ok":
                    p = o["local"][1]
                    if not (EPH[0] <= p <= EPH[1]):
                        out.append(("%s: ephemeral port %d outside %s" % (where, p, EPH), None))
                    used = [s for s in live if s.proto == proto and s.fam == F.fam(ip) and s.port == p and not s.zombie]
                    if used:
                        out.append(("%s: port 0 yielded %d which is in use by the %s socket at %s (handle %s)" % (where, p, proto, used[0].addr, used[0].handle), None))
                else:
                    out.append(("%s: bind to port 0 failed with %s although the ephemeral range is not exhausted" % (where, o["r"]), None))
            if o["r"] == "ok":
                s = OSock(h, proto, "udp" if proto == "udp" else "lst", ip, o["local"][1], hd)
                socks.append(s)
                by_handle[hd] = s
        elif n == "connect":
            hd = nh
            nh += 1
            h = cmd[1]
            if o["r"] == "pending" and o.get("local"):
                lip, lp = o["local"]
                if not local_to(hosts, h, lip) or F.is_unspec(lip):
                    out.append(("%s: connect chose the local address %s which host %d does not own" % (where, lip, h), None))
                if not (EPH[0] <= lp <= EPH[1]):
                    out.append(("%s: ephemeral port %d outside %s" % (where, lp, EPH), None))
                used = [s for s in socks if s.host == h and s.proto == "tcp" and s.fam == F.fam(lip) and s.port == lp and not s.zombie]
                if used:
                    out.append(("%s: connect got the ephemeral port %d which is in use by the tcp socket at %s (handle %s)" % (where, lp, used[0].addr, used[0].handle), None))
                s = OSock(h, "tcp", "conn", lip, lp, hd)
                s.peer = (F.norm_ip(o["dst"][0]), o["dst"][1])
                socks.append(s)
                by_handle[hd] = s
                syn_pending[h].append(((F.norm_ip(lip), lp), tuple(o["dst"])))
            elif o["r"] == "AddrNotAvailable":
                dst = o["dst"][0]
                if F.is_loopback(dst) or any(F.fam(a) == F.fam(dst) for a in hosts[h]):
                    out.append(("%s: connect failed with AddrNotAvailable although host %d has a source address for %s" % (where, h, dst), None))
        elif n == "poll":
            s = by_handle.get(cmd[1])
            if s is not None and s.role == "conn" and o["r"] in ("ok", "ConnectionRefused") and not s.lossy \
                    and owner(hosts, s.peer[0]) is None and not local_to(hosts, s.host, s.peer[0]):
                out.append(("%s: connect to %s:%d, an address that no host owns and that is not local to host %d, was answered (%s); the SYN must vanish in the fabric"
                            % (where, s.peer[0], s.peer[1], s.host, o["r"]), None))
            if s is not None and o["r"] not in ("ok", "pending", "n/a"):
                socks.remove(s)            # the failed connect closed its fd
                del by_handle[cmd[1]]
        elif n == "accept":
            hd = nh
            nh += 1
            l = by_handle.get(cmd[1])
            if o["r"] == "ok":
                peer = (F.norm_ip(o["peer"][0]), o["peer"][1])
                if l is None or l.role != "lst":
                    out.append(("%s: accept succeeded on a handle that is not a live listener" % where, None))
                    continue
                if peer not in syn_for.get(cmd[1], set()):
                    out.append(("%s: listener %s:%d accepted a connection from %s whose SYN the binding rules (4-tuple, exact address before wildcard) do not give to it" % (where, l.addr, l.port, peer), None))
                else:
                    syn_for[cmd[1]].discard(peer)
                if o.get("local"):
                    children.pop(((F.norm_ip(o["local"][0]), o["local"][1]), peer), None)
                if o.get("local"):
                    s = OSock(l.host, "tcp", "conn", o["local"][0], o["local"][1], hd)
                    s.peer = peer
                    socks.append(s)
                    by_handle[hd] = s
        elif n == "close":
            s = by_handle.pop(cmd[1], None)
            if s is not None:
                if s.role == "conn":
                    s.zombie = True        # may linger through the FIN exchange: neither required nor forbidden to conflict
                    s.handle = None
                else:
                    socks.remove(s)
                    syn_for.pop(cmd[1], None)
                    for key in [k for k, v in children.items() if v == cmd[1]]:
                        del children[key]
        elif n == "udp_connect":
            s = by_handle.get(cmd[1])
            if s is not None and o["r"] == "ok":
                s.peer = (F.norm_ip(o["dst"][0]), o["dst"][1])
        elif n in ("send_to", "send"):
            s = by_handle.get(cmd[1])
            if s is not None and o["r"] == "ok":
                dst = tuple(o["dst"]) if n == "send_to" else s.peer
                tag = cmd[3] if n == "send_to" else cmd[2]
                pending[s.host].append(((udp_src(hosts, s, dst[0]), s.port), dst, tag))
        elif n == "raw_udp":
            if o["r"] == "ok":
                deliver_udp(o["src"], o["dst"], cmd[3])
        elif n == "raw_tcp":
            if o["r"] == "ok":
                a, b = (F.norm_ip(o["src"][0]), o["src"][1]), (F.norm_ip(o["dst"][0]), o["dst"][1])
                for s in socks:
                    if s.role == "conn" and {(s.addr, s.port), s.peer} == {a, b}:
                        s.lossy = True
                if cmd[1] == "data":
                    probes[cmd[4]] = ((F.norm_ip(o["src"][0]), o["src"][1]), (F.norm_ip(o["dst"][0]), o["dst"][1]))
                if cmd[1] == "syn" and not o.get("known"):
                    h = owner(hosts, o["dst"][0])
                    if h is not None:
                        syn_arrives(h, o["src"], o["dst"])
        elif n in ("egress", "pump"):
            if n == "egress":
                for s in socks:
                    if s.role == "conn":
                        s.lossy = True          # whatever it had queued is dropped on the wire
            else:
                # the pump runs until no host has anything left to send: a connection both of whose
                # ends were dropped, and none of whose segments was lost or forged, has finished
                # its FIN exchange (or was reset) and is not a live socket any more
                for z in [s for s in socks if s.role == "conn" and s.zombie and not s.lossy]:
                    c = next((x for x in socks if x.role == "conn" and x is not z and (x.addr, x.port) == z.peer
                              and x.peer == (z.addr, z.port)), None)
                    if c is not None and c.zombie and not c.lossy:
                        socks.remove(z)
                        socks.remove(c)
            # egress_all: every host folds its local packets back first (host order); what left the
            # hosts is delivered afterwards, in the same order
            wire = []
            for h in range(len(hosts)):
                wire += deliver_local_or(h, n == "pump")
                pending[h] = []
            for src, dst, tag in wire:
                deliver_udp(src, dst, tag)
            for h in range(len(hosts)):
                for src, dst in syn_pending[h]:
                    if local_to(hosts, h, dst[0]):
                        syn_arrives(h, src, dst)
                    elif n == "pump":
                        h2 = owner(hosts, dst[0])
                        if h2 is not None:
                            syn_arrives(h2, src, dst)
                syn_pending[h] = []
            # closing one socket must not reset a connection that belongs to another, live listener
            for d in o["out"]:
                if d[2] == 1 and d[5] == 10:
                    key = ((F.norm_ip(d[0]), d[3]), (F.norm_ip(d[1]), d[4]))
                    if key in children:
                        l = by_handle.get(children[key])
                        out.append(("%s: the connection %s <- %s, still owned by the live listener %s:%d (handle %d), was reset although that listener was not closed"
                                    % (where, key[0], key[1], l.addr if l else "?", l.port if l else 0, children[key]), None))
                        del children[key]
            # nothing with a local destination may be seen on the wire
            for d in o["out"]:
                so = owner(hosts, d[0])
                if F.is_loopback(d[1]) or (so is not None and local_to(hosts, so, d[1])):
                    out.append(("%s: packet %s has a destination local to its sender but left the host" % (where, d), None))
        elif n == "recv_all":
            for g in o["got"]:
                s = by_handle.get(g[0])
                if g[1] == 0:
                    got = [[F.norm_ip(x[0]), x[1], x[2]] for x in g[2]]
                    want = s.expected if s is not None else []
                    if got != want:
                        out.append(("%s: UDP socket %s (handle %d) received %s; the binding rules (owner host, exact address before wildcard, connected-peer filter) give it %s"
                                    % (where, (s.addr, s.port) if s else "?", g[0], got, want), None))
                    if s is not None:
                        s.expected = []
                elif g[1] == 1:
                    for tag in g[2]:
                        pr = probes.get(tag)
                        if pr is None or s is None:
                            out.append(("%s: stream handle %d read tag %s that no probe carried to it" % (where, g[0], tag), None))
                        elif (s.addr, s.port) != pr[1] or s.peer != pr[0]:
                            out.append(("%s: segment %s -> %s (tag %d) was read by the stream %s <- %s: not its 4-tuple" % (where, pr[0], pr[1], tag, (s.addr, s.port), s.peer), None))
            for hd, s in by_handle.items():
                if s.role == "udp" and s.expected and not any(g[0] == hd for g in o["got"]):
                    out.append(("%s: UDP handle %d was not drained" % (where, hd), None))
    return out


def exhaust_oracle(case, obs):
    """port spaces are per (family, type): UDP/IPv4 may use up its whole range, the next UDP/IPv4 :0 bind
    fails with AddrInUse, and TCP or IPv6 :0 binds still succeed"""
    out = []
    ports = set()
    n = EPH[1] - EPH[0] + 1
    for i, (cmd, o) in enumerate(zip(case["script"], obs["steps"])):
        if i < n:
            if o["r"] != "ok" or not (EPH[0] <= o["local"][1] <= EPH[1]) or o["local"][1] in ports:
                out.append(("cmd %d %s: %s; expected a fresh ephemeral port (%d handed out so far)" % (i, cmd, o, len(ports)), None))
                return out
            ports.add(o["local"][1])
        elif i == n:
            if o["r"] != "AddrInUse":
                out.append(("cmd %d %s: every ephemeral port is held by a live UDP/IPv4 socket but bind returned %s" % (i, cmd, o["r"]), None))
        elif o["r"] != "ok":
            out.append(("cmd %d %s: no live socket of this (family, type) holds any ephemeral port, but bind to port 0 returned %s" % (i, cmd, o["r"]), None))
    return out


def alloc_oracle(case, obs):
    """a result is a port of the range that is not in use; None only when every port is in use"""
    out = []
    lo, hi = case["cfg"]["lo"], case["cfg"]["hi"]
    for i, (used, r) in enumerate(zip(case["script"], obs["res"])):
        if r == 0:
            if len(set(used)) < hi - lo + 1:
                out.append(("PortAllocator(%d..=%d) step %d: returned None although %s are free" % (lo, hi, i, sorted(set(range(lo, hi + 1)) - set(used))), None))
        elif r in used or not (lo <= r <= hi):
            out.append(("PortAllocator(%d..=%d) step %d: returned %d which is in use or outside the range (in use: %s)" % (lo, hi, i, r, used), None))
    return out


def c17_nontrivial(case, obs):
    if case["mode"] == "alloc":
        return True
    steps = obs.get("steps", [])
    rs = [s.get("r") for s in steps]
    return ("AddrInUse" in rs or "AddrNotAvailable" in rs) or any(s.get("got") and any(g[2] for g in s["got"]) for s in steps)


class Spec(PropSpec):
    pid = "C17"
    subsys = "NetPure"
    props_file = "C17.v"
    coq_targets = ["C17.vo"]
    theorems = ["bind_ok_iff", "overlap_is_the_conflict_check", "port0_free_everywhere", "port0_none_iff_exhausted",
                "port0_first_free_from_cursor", "close_frees", "close_releases", "close_listener_spares_others", "udp_demux", "tcp_demux_rule", "fabric_route",
                "egress_keeps_local_traffic_inside", "table_describes_live_sockets",
                "bind_conflict_is_with_a_live_socket", "bind_ok_iff_live", "c17_nonvacuous"]
    consts = NETPURE_CONSTS
    anchors = ANCHORS
    harness_bins = ["netsock"]
    coq_header = F.HEADER
    model_name = "TV.NetPure.SockRun"
    rule = ("scripts = bind / listen / connect / accept / close / udp connect / send over wildcard, loopback, several local and "
            "foreign addresses (IPv4+IPv6) and ports incl. 0 on 1-3 multi-address hosts, interleaved with uniquely tagged "
            "raw UDP datagrams and hand-made TCP segments (syn/synack/ack/data/rst) injected through Fabric::deliver, "
            "egress_all and a pump; plus the exhaustive two-bind matrix and the exact/wildcard demux matrix; "
            "a case is non-trivial when a bind was refused or a probe was received; distinct = distinct (hosts, script)")
    assumptions = [
        "TCP sequence numbers are abstracted: the harness builds acceptable segments from the verif-hooks socket listing; retransmission is switched off (retx_threshold = u32::MAX); streams carry no application data besides the probes",
        "a clean close (FIN exchange) of an established stream is outside this model (C13); scripts close streams abortively (unread data) and a case is compared only up to the first clean close",
        "SO_REUSEADDR / SO_REUSEPORT are not settable through the shim (set_option panics), so every overlap is a conflict",
        "the oracle treats a dropped stream as neither live nor dead until both ends are dropped, no segment of it was lost or forged and a pump ran to silence; observations made before an implementation panic are kept and judged",
    ]

    def gen_cases(self, ctx):
        rng = ctx.rng
        q = ctx.tier == "quick"
        n = 1 if q else 8
        if ctx.escalate:
            n *= 2
        bm = F.gen_bind_matrix()
        dm = F.gen_demux_matrix()
        cases = (rng.sample(bm, 120) if q else bm) + dm
        cases += [F.gen_net(rng) for _ in range(260 * n)]
        cases += [F.gen_wrap(rng) for _ in range(40 * n)]
        cases += [F.gen_dualstack(rng) for _ in range(40 * n)]
        cases += [F.gen_passive_close(rng, variant=v) for v in (0, 1, 2, 3) for _ in range(8 * n)]
        cases += [F.gen_dst_classes(rng) for _ in range(6 * n)]
        cases += [F.gen_failed_connect(rng) for _ in range(24 * n)]
        cases += [F.gen_addr_order(rng) for _ in range(12 * n)]
        cases += [F.gen_port_spaces(rng) for _ in range(20 * n)]
        cases += [F.gen_exhaust(rng)]
        cases += F.gen_alloc_exhaustive() + [F.gen_alloc(rng) for _ in range(60 * n)]
        return cases

    def to_model(self, case, obs):
        return F.to_model(case, obs)

    def compare(self, case, obs, model, probes):
        return F.compare(case, obs, model, probes)

    def oracle(self, case, obs):
        if obs.get("panic") and "steps" not in obs:
            return []
        if case["mode"] == "alloc":
            return [] if obs.get("panic") else alloc_oracle(case, obs)
        if "steps" not in obs:
            return []
        if case["cfg"].get("oracle_only"):
            return exhaust_oracle(case, obs)
        return c17_oracle(case, obs)

    def nontrivial(self, case, obs):
        return not obs.get("panic") and c17_nontrivial(case, obs)

    def signature(self, case):
        return F.case_signature(case)

    def histogram(self, cases):
        return F.histogram(cases)


SPEC = Spec()
