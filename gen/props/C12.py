"""C12 - turmoil::net pairs every connect with exactly one accept, or refuses it."""
import fam_conn as F
from pipeline import PropSpec

CONN_ANCHORS = [("crates/turmoil/src/net/tcp/stream.rs", f) for f in ("connect", "drop", "new")] + [
    ("crates/turmoil/src/net/tcp/listener.rs", f) for f in ("bind", "accept", "drop")] + [
    ("crates/turmoil/src/host.rs", f) for f in (
        "assign_ephemeral_port", "bind", "new_stream", "flow_control", "stream_count", "accept",
        "receive_from_network", "reset_stream", "close_stream_half", "unbind", "matches", "is_same",
        "is_port_assigned")] + [
    ("crates/turmoil/src/top.rs", "enqueue_message"), ("crates/turmoil/src/top.rs", "deliver_messages")]

CONN_CONSTS = [
    ("default_eph_lo", "crates/turmoil/src/config.rs", r"ephemeral_ports: (\d+)\.\.=\d+,", "N"),
    ("default_eph_hi", "crates/turmoil/src/config.rs", r"ephemeral_ports: \d+\.\.=(\d+),", "N"),
    ("default_tcp_capacity", "crates/turmoil/src/config.rs", r"tcp_capacity: (\d+),", "N"),
]

HEADER = ("From TV.Lib Require Import Base.\nFrom TV.Conn Require Import Model.\n"
          "Close Scope N_scope.\n")


def ok(r, n):
    return isinstance(r, list) and r and r[0] == "ok" and len(r) == n


LINK_CALLS = ("hold", "release", "partition", "repair", "partition_oneway", "repair_oneway")


def fault_calls(case):
    """every fault call of the script in the order the simulation sees it: [(step, via, name, a, b)];
    via 0 = the Sim handle before the step, via 1 = host code during the step"""
    out = []
    for k, st in enumerate(case["steps"]):
        for act in st["ctl"]:
            if act[0] in LINK_CALLS:
                out.append((k, 0, act[0], act[1], act[2]))
        for h in sorted(st.get("hosts", {}), key=int):
            for cmd in st["hosts"][h]:
                if cmd[0] == "link":
                    out.append((k, 1, cmd[1], cmd[2], cmd[3]))
    return out


def c12_oracle(case, obs):
    """The property stated on the implementation's observations alone."""
    out = []
    cfg = case["cfg"]
    n = cfg["nhosts"]
    res = {(r[0], r[1], r[2]): r[3] for r in obs["res"]}
    small_eph = bool(cfg.get("eph"))
    # ---- time line of what the script did and what came back -------------------------------
    conn = {}          # cid -> dict(host, dst, port, step, state, local, results)
    accepts = []       # dict(step, host, lid, sid, local, peer)
    listeners = {}     # (host, lid) -> dict(port, kind, from, to)
    nonces = {}        # sid -> bytes read
    live_streams = {h: set() for h in range(n)}      # stream ids the program holds
    pending = {h: set() for h in range(n)}           # connect futures still held and unresolved
    rst_seen = False
    loop_used = False
    bg_by_step = {}
    for b in obs.get("bg", []):
        bg_by_step.setdefault(b[0], []).append(b)
    bg_lid = {}
    for k, st in enumerate(case["steps"]):
        links, counts = obs["post"][k]
        for h in range(n):
            for i, cmd in enumerate(st.get("hosts", {}).get(str(h), [])):
                if cmd[0] == "accept_bg":
                    bg_lid[(h, cmd[2])] = cmd[1]
        for h in range(n):
            for i, cmd in enumerate(st.get("hosts", {}).get(str(h), [])):
                r = res.get((k, h, i))
                nm = cmd[0]
                if nm == "bind" and ok(r, 2):
                    listeners[(h, cmd[1])] = {"port": r[1], "kind": cmd[2], "from": k, "to": None}
                elif nm == "drop_listener" and r == "none" and (h, cmd[1]) in listeners:
                    listeners[(h, cmd[1])]["to"] = k
                elif nm in ("connect", "connect_t"):
                    c = {"host": h, "dst": cmd[2], "port": cmd[3], "step": k, "results": [(k, r)], "local": None,
                         "done": None}
                    conn[cmd[1]] = c
                    if not isinstance(cmd[2], dict) or cmd[2].get("h", cmd[2].get("name")) == h:
                        loop_used = True
                    if r == "pending":
                        pending[h].add(cmd[1])
                    else:
                        c["done"] = (k, r)
                        if ok(r, 3):
                            c["local"] = r[1]
                            live_streams[h].add(cmd[1])
                elif nm == "poll" and cmd[1] in conn and cmd[1] in pending[h]:
                    c = conn[cmd[1]]
                    c["results"].append((k, r))
                    if r != "pending":
                        pending[h].discard(cmd[1])
                        c["done"] = (k, r)
                        if ok(r, 3):
                            c["local"] = r[1]
                            live_streams[h].add(cmd[1])
                elif nm == "cancel" and r == "none":
                    pending[h].discard(cmd[1])
                    conn[cmd[1]]["done"] = (k, "cancelled")
                elif nm == "accept" and ok(r, 4):
                    accepts.append({"step": k, "idx": i, "host": h, "lid": cmd[1], "sid": cmd[2], "local": r[1], "peer": r[2]})
                    live_streams[h].add(cmd[2])
                    if r[2] != r[3]:
                        out.append(("accept at step %d returned peer %s but origin %s" % (k, r[2], r[3]), None))
                elif nm == "drop" and r == "none":
                    live_streams[h].discard(cmd[1])
                elif nm == "read" and ok(r, 2) and r[1]:
                    nonces.setdefault(cmd[1], []).extend(r[1])
                elif nm == "count" and ok(r, 2):
                    # ---- no residue: never more entries than sockets the program can still use
                    limit = len(live_streams[h]) + len(pending[h])
                    if r[1] > limit:
                        out.append(("host %d counts %d established streams at step %d but holds only %d streams and %d "
                                    "pending connects" % (h, r[1], k, len(live_streams[h]), len(pending[h])), None))
        for b in bg_by_step.get(k, []):           # parked accepts that completed in this step
            if ok(b[3], 4):
                accepts.append({"step": k, "idx": 999, "host": b[1], "lid": bg_lid.get((b[1], b[2])), "sid": b[2],
                                "local": b[3][1], "peer": b[3][2]})
                live_streams[b[1]].add(b[2])
        for a, b, msgs in links:
            if any(m[1] == "rst" for m in msgs):
                rst_seen = True
        for h in range(n):
            limit = len(live_streams[h]) + len(pending[h])
            if counts[h][1] > limit:
                out.append(("after step %d host %d has %d stream entries but holds only %d streams and %d pending "
                            "connects" % (k, h, counts[h][1], len(live_streams[h]), len(pending[h])), None))
                break
    # ---- pairing -----------------------------------------------------------------------------
    for cid, c in conn.items():
        if c["done"] and ok(c["done"][1], 3):
            _, local, remote = c["done"][1]
            t_ok = c["done"][0]
            dsth = c["host"] if not isinstance(c["dst"], dict) else c["dst"].get("h", c["dst"].get("name"))
            m = [a for a in accepts if a["peer"] == local and a["host"] == dsth and c["step"] <= a["step"] <= t_ok]
            if len(m) != 1:
                out.append(("connect %d (local %s) returned Ok at step %d but %d accepts name it as peer"
                            % (cid, local, t_ok, len(m)), None))
            else:
                a = m[0]
                if a["local"] != remote:
                    out.append(("connect %d: accepted stream's local %s is not the connector's peer %s"
                                % (cid, a["local"], remote), None))
                got = nonces.get(a["sid"])
                if got and got[:4] != F.nonce(cid)[:len(got[:4])]:
                    out.append(("connect %d: the stream accepted for it carries another connector's nonce %s" % (cid, got), None))
    for a in accepts:
        l = listeners.get((a["host"], a["lid"]))
        if l and l["kind"] == "loop" and a["peer"][0] != "loop":
            out.append(("listener %d on host %d is bound to localhost but accepted a connection from %s"
                        % (a["lid"], a["host"], a["peer"]), None))
        if a["local"][0] == "unspec":
            out.append(("accepted stream at step %d has the unspecified address as its local address" % a["step"], None))
    if not small_eph:
        seen = {}
        for a in accepts:
            key = str((a["host"], a["peer"]))
            if key in seen:
                out.append(("peer %s accepted twice (steps %d and %d)" % (a["peer"], seen[key], a["step"]), None))
            seen[key] = a["step"]
    # ---- refusal ---------------------------------------------------------------------------------
    for cid, c in conn.items():
        first = c["results"][0][1]
        if c["dst"] == "none" and first != ["err", "ConnectionRefused"]:
            out.append(("connect %d to an address no host owns returned %s" % (cid, first), None))
        for (k, r) in c["results"]:
            if isinstance(r, list) and r[0] == "err" and r[1] not in ("ConnectionRefused", "TimedOut"):
                out.append(("connect %d failed with %s at step %d" % (cid, r[1], k), None))
    # a SYN that reached a host where nobody listens on its port must be refused at the next poll
    syn_seen = {}        # (src host, sport, dport) -> last step it was on a link
    for k, (links, _) in enumerate(obs["post"]):
        for a, b, msgs in links:
            for m in msgs:
                if m[1] == "syn":
                    syn_seen[(m[0], m[4], m[5], a, b)] = k
    calls = fault_calls(case)
    parts = {}
    for (k, via, nm, a, b) in calls:
        if nm.startswith("partition"):
            parts.setdefault((min(a, b), max(a, b)), []).append(k)
    for (k, src, dst, rp, rr) in obs.get("coins", []):
        if rp and isinstance(src, int) and isinstance(dst, int):
            # the fail_rate coin came up at an enqueue of step k: healthy directions of the link break and
            # drop what is in flight, like a partition imposed in that step
            parts.setdefault((min(src, dst), max(src, dst)), []).append(k)
    for (src, sport, dport, a, b), last in syn_seen.items():
        if last + 1 >= len(obs["post"]) or any(p == last + 1 for p in parts.get((a, b), [])):
            continue
        dst = b if src == a else a
        arrive = last + 1
        bound = [l for (h, lid), l in listeners.items()
                 if h == dst and l["port"] == dport and l["from"] <= arrive and (l["to"] is None or l["to"] > arrive)
                 and l["kind"] == "unspec"]
        cands = [c for c in conn.values() if c["host"] == src and c["port"] == dport and c["step"] <= last]
        if not bound:
            for c in cands:
                later = [(k, r) for (k, r) in c["results"] if k > arrive]
                if len(cands) == 1 and later and later[0][1] == "pending" and not any(
                        l["port"] == dport and h == dst for (h, lid), l in listeners.items()):
                    out.append(("connect from host %d to %d:%d still pends at step %d although its SYN arrived at step %d "
                                "where nobody listens" % (src, dst, dport, later[0][0], arrive), None))
    # ---- which SYN on the links belongs to which connector -----------------------------------------
    syn_of = {}          # cid -> (src host, sport, dport, a, b, first step seen)
    prev_syns = set()
    for k, st in enumerate(case["steps"]):
        cur = []
        for a, b, msgs in obs["post"][k][0]:
            for m in msgs:
                if m[1] == "syn":
                    cur.append((m[0], m[4], m[5], a, b))
        fresh = [x for x in cur if x not in prev_syns]
        for h in range(n):
            for i, cmd in enumerate(st.get("hosts", {}).get(str(h), [])):
                if cmd[0] in ("connect", "connect_t") and isinstance(cmd[2], dict):
                    d = cmd[2].get("h", cmd[2].get("name"))
                    if d == h:
                        continue
                    cand = [x for x in fresh if x[0] == h and x[2] == cmd[3] and {x[3], x[4]} == {h, d}]
                    if cand:
                        syn_of[cmd[1]] = cand[0] + (k,)
                        fresh.remove(cand[0])
        prev_syns = set(cur)
    # ---- partitioned direction: refused, not a hang ---------------------------------------------------
    cut = set()
    cut_at = {}          # step -> set of cut directions after the controller phase of that step
    for k, st in enumerate(case["steps"]):
        # calls of the Sim handle before step k and of host code in earlier steps (the scripts issue no
        # connect in a step in which host code partitions or repairs)
        for (k2, via, nm, a, b) in calls:
            if not ((via == 0 and k2 == k) or (via == 1 and k2 == k - 1)):
                continue
            if nm == "partition":
                cut |= {(a, b), (b, a)}
            elif nm == "partition_oneway":
                cut.add((a, b))
            elif nm in ("hold", "release", "repair"):
                cut -= {(a, b), (b, a)}
            elif nm == "repair_oneway":
                cut.discard((a, b))
        cut_at[k] = set(cut)
    for cid, c in conn.items():
        if isinstance(c["dst"], dict):
            d = c["dst"].get("h", c["dst"].get("name"))
            if d != c["host"] and (c["host"], d) in cut_at.get(c["step"], set()):
                first = c["results"][0][1]
                if first != ["err", "ConnectionRefused"]:
                    out.append(("connect %d from host %d to host %d across a partitioned direction returned %s instead "
                                "of ConnectionRefused" % (cid, c["host"], d, first), None))
    # a partition imposed on the SYN's direction while the SYN is still on the link (in flight or
    # parked by a hold) drops it: it must leave the link and the connect must be refused
    part_events = []            # (step, src, dst) directions cut by a controller action of that step
    for (k, via, nm, a, b) in calls:
        if nm == "partition":
            part_events += [(k, a, b), (k, b, a)]
        elif nm == "partition_oneway":
            part_events.append((k, a, b))
    for cid, sy in syn_of.items():
        src, sport, dport, a, b, k0 = sy
        c = conn[cid]
        dst = b if src == a else a
        key = [src, "syn", 0, 0, sport, dport]

        def on_link(k):
            return any(list(m) == key for (a2, b2, msgs) in obs["post"][k][0] if (a2, b2) == (a, b) for m in msgs)
        for (p, ps, pd) in part_events:
            if (ps, pd) != (src, dst) or p <= k0 or p >= len(obs["post"]) or not on_link(p - 1):
                continue
            if on_link(p):
                out.append(("connect %d: its SYN (host %d port %d) was on the link when %d->%d was partitioned at "
                            "step %d, but it is still there afterwards" % (cid, src, sport, src, dst, p), None))
                break
            later = [(k, r) for (k, r) in c["results"] if k > p]
            if later and later[0][1] == "pending":
                out.append(("connect %d: its SYN was on the link when the direction %d->%d was partitioned at step %d, "
                            "but it still pends at step %d" % (cid, src, dst, p, later[0][0]), None))
                break
    # ---- listener dropped before accepting: refused ----------------------------------------------------
    for cid, sy in syn_of.items():
        src, sport, dport, a, b, k0 = sy
        c = conn[cid]
        last = syn_seen.get((src, sport, dport, a, b))
        if last is None or last + 1 >= len(obs["post"]) or any(p == last + 1 for p in parts.get((a, b), [])):
            continue
        arrive = last + 1
        dst = b if src == a else a
        inst = [(lid, l) for (h, lid), l in listeners.items()
                if h == dst and l["port"] == dport and l["from"] < arrive and (l["to"] is None or l["to"] >= arrive)]
        if len(inst) != 1:
            continue
        lid, l = inst[0]
        if l["to"] is None or l["kind"] != "unspec":
            continue
        taken = [x for x in accepts if x["host"] == dst and x["lid"] == lid and x["peer"] == [src, sport]
                 and x["step"] <= l["to"]]
        if taken:
            continue
        later = [(k, r) for (k, r) in c["results"] if k > l["to"]]
        if later and later[0][1] != ["err", "ConnectionRefused"] and not (
                isinstance(later[0][1], list) and later[0][1][0] == "err" and later[0][1][1] == "TimedOut"):
            out.append(("connect %d was queued at listener %d of host %d, which was dropped at step %d without accepting "
                        "it, but the next poll (step %d) returned %s" % (cid, lid, dst, l["to"], later[0][0], later[0][1]),
                        None))
    # ---- a connector queued at a listener that stays bound is not refused -------------------------------
    for cid, sy in syn_of.items():
        src, sport, dport, a, b, k0 = sy
        c = conn[cid]
        last = syn_seen.get((src, sport, dport, a, b))
        if last is None or last + 1 >= len(obs["post"]) or parts.get((a, b)):
            continue
        arrive = last + 1
        dst = b if src == a else a
        inst = [(lid, l) for (h, lid), l in listeners.items()
                if h == dst and l["port"] == dport and l["from"] < arrive and (l["to"] is None or l["to"] >= arrive)]
        if len(inst) != 1 or inst[0][1]["kind"] != "unspec":
            continue
        lid, l = inst[0]
        for (k, r) in c["results"]:
            if k > arrive and r == ["err", "ConnectionRefused"] and (l["to"] is None or l["to"] > k):
                out.append(("connect %d (host %d port %d) was refused at step %d although its request reached listener %d "
                            "of host %d at step %d and that listener is still bound" % (cid, src, sport, k, lid, dst, arrive),
                            None))
                break
    # ---- loopback connectors and a listener that is dropped / stays -------------------------------------
    for cid, c in conn.items():
        own = (not isinstance(c["dst"], dict) and c["dst"] == "loop") or (
            isinstance(c["dst"], dict) and c["dst"].get("h", c["dst"].get("name")) == c["host"])
        if not own:
            continue
        h = c["host"]
        arrive = c["step"] + 1              # the delivery task runs at the end of the next step
        inst = [(lid, l) for (hh, lid), l in listeners.items()
                if hh == h and l["port"] == c["port"] and l["from"] <= arrive and (l["to"] is None or l["to"] > arrive)
                and (l["kind"] == "unspec" or c["dst"] == "loop")]
        if len(inst) != 1:
            continue
        lid, l = inst[0]
        acc_here = [x for x in accepts if x["host"] == h and x["lid"] == lid and x["step"] > arrive]
        if l["to"] is not None and not [x for x in acc_here if x["step"] <= l["to"]]:
            later = [(k, r) for (k, r) in c["results"] if k > l["to"]]
            if later and later[0][1] == "pending":
                out.append(("connect %d (same host %d) was queued at listener %d, which was dropped at step %d without "
                            "accepting anything, but it still pends at step %d" % (cid, h, lid, l["to"], later[0][0]), None))
        if l["to"] is None:
            for (k, r) in c["results"]:
                if k > arrive + 1 and r == ["err", "ConnectionRefused"]:
                    out.append(("connect %d (same host %d) was refused at step %d although listener %d is bound since "
                                "step %d and is never dropped" % (cid, h, k, lid, l["from"]), None))
                    break
    # ---- an abandoned connect resets the peer that had already accepted it (fix 48e101e) ---------------
    # per-step sets of what each program holds
    hold_live, hold_pend = [], []
    lv = {h: set() for h in range(n)}
    pd = {h: set() for h in range(n)}
    for k, st in enumerate(case["steps"]):
        for h in range(n):
            for i, cmd in enumerate(st.get("hosts", {}).get(str(h), [])):
                r = res.get((k, h, i))
                nm = cmd[0]
                if nm in ("connect", "connect_t"):
                    if r == "pending":
                        pd[h].add(cmd[1])
                    elif ok(r, 3):
                        lv[h].add(cmd[1])
                elif nm == "poll" and cmd[1] in pd[h] and r != "pending":
                    pd[h].discard(cmd[1])
                    if ok(r, 3):
                        lv[h].add(cmd[1])
                elif nm == "cancel" and r == "none":
                    pd[h].discard(cmd[1])
                elif nm == "accept" and ok(r, 4):
                    lv[h].add(cmd[2])
                elif nm == "drop" and r == "none":
                    lv[h].discard(cmd[1])
        for b in bg_by_step.get(k, []):
            if ok(b[3], 4):
                lv[b[1]].add(b[2])
        hold_live.append({h: set(v) for h, v in lv.items()})
        hold_pend.append({h: set(v) for h, v in pd.items()})
    for cid, c in conn.items():
        if c["done"] is None or ok(c["done"][1], 3) or c["done"][1] == ["err", "ConnectionRefused"]:
            continue
        kc = c["done"][0]                      # cancelled, or timed out (the future was dropped) at step kc
        if not isinstance(c["dst"], dict) or cid not in syn_of:
            continue
        src, sport, dport, a, b, k0 = syn_of[cid]
        dst = b if src == a else a
        if (src, dst) in cut_at.get(kc, set()) or any(p >= kc for p in parts.get((a, b), [])):
            continue
        acc = [x for x in accepts if x["host"] == dst and x["peer"] == [src, sport] and x["step"] <= kc]
        if not acc:
            continue
        key = [src, "rst", 0, 0, sport, dport]
        seen = [k for k in range(kc, len(obs["post"]))
                if any(list(m) == key for (a2, b2, msgs) in obs["post"][k][0] if (a2, b2) == (a, b) for m in msgs)]
        if seen and seen[-1] == len(obs["post"]) - 1:
            continue                           # the RST is still parked on the held link
        arrive = (seen[-1] + 1) if seen else kc + 1
        sid = acc[0]["sid"]
        for k in range(arrive + 1, len(obs["post"])):
            if sid not in hold_live[k][dst]:
                break
            limit = len(hold_live[k][dst]) + len(hold_pend[k][dst]) - 1
            if obs["post"][k][1][dst][1] > limit:
                out.append(("connect %d (host %d port %d) was accepted by host %d and then abandoned at step %d; its RST "
                            "%s, but after step %d host %d still counts the accepted stream %d as established (%d entries, "
                            "%d other sockets held)" % (cid, src, sport, dst, kc,
                                                         "arrived at step %d" % arrive if seen else "was never put on the link",
                                                         k, dst, sid, obs["post"][k][1][dst][1], limit), None))
                break
        for k, st in enumerate(case["steps"]):
            if k <= arrive:
                continue
            for i, cmd in enumerate(st.get("hosts", {}).get(str(dst), [])):
                if cmd[0] == "read" and cmd[1] == sid and res.get((k, dst, i)) == "pending":
                    out.append(("connect %d was accepted by host %d (stream %d) and abandoned at step %d, but a read at step "
                                "%d still waits instead of seeing the reset" % (cid, dst, sid, kc, k), None))
                    break
    # ---- the same for a connector on the listener's own host (own address or 127.0.0.1): no link carries its RST,
    # the loopback queue does (seed C12-A8) ----------------------------------------------------------------
    def same_host(c):
        d = c["dst"]
        return (not isinstance(d, dict)) or d.get("h", d.get("name")) == c["host"]
    for cid, c in conn.items():
        if c["done"] is None or c["done"][1] != "cancelled" or not same_host(c):
            continue
        h, kc = c["host"], c["done"][0]
        # attribute an accept to this connect only when it was the host's only pending same-host connect then
        mine = []
        for x in accepts:
            if x["host"] != h or not (c["step"] <= x["step"] <= kc) or x["local"][1] != c["port"]:
                continue
            ph = x["peer"][0]
            if ph != "loop" and ph != h:
                continue
            others = [o for oid, o in conn.items() if oid != cid and o["host"] == h and same_host(o) and o["step"] <= x["step"]
                      and (o["done"] is None or o["done"][0] >= x["step"])]
            if not others:
                mine.append(x)
        if len(mine) != 1:
            continue
        sid = mine[0]["sid"]
        for k in range(kc + 3, len(obs["post"])):
            if sid not in hold_live[k][h]:
                break
            limit = len(hold_live[k][h]) + len(hold_pend[k][h]) - 1
            if obs["post"][k][1][h][1] > limit:
                out.append(("connect %d of host %d to its own listener (port %d) was accepted (stream %d) and then abandoned at "
                            "step %d, but after step %d the host still counts the accepted stream as established (%d entries, "
                            "%d other sockets held): an accepted stream with no successful connect behind it was never reset"
                            % (cid, h, c["port"], sid, kc, k, obs["post"][k][1][h][1], limit), None))
                break
    # ---- a task parked in accept() is woken when a request is queued ---------------------------------------
    bg_issue = {}
    for k, st in enumerate(case["steps"]):
        for h in range(n):
            for i, cmd in enumerate(st.get("hosts", {}).get(str(h), [])):
                if cmd[0] == "accept_bg" and res.get((k, h, i)) == "none":
                    bg_issue[(h, cmd[2])] = (k, cmd[1])
    bg_done_at = {(b[1], b[2]): b[0] for b in obs.get("bg", [])}
    for cid, sy in syn_of.items():
        src, sport, dport, a, b, k0 = sy
        c = conn[cid]
        last = syn_seen.get((src, sport, dport, a, b))
        if last is None or last + 1 >= len(obs["post"]) or parts.get((a, b)):
            continue
        arrive = last + 1
        dst = b if src == a else a
        inst = [(lid, l) for (h, lid), l in listeners.items()
                if h == dst and l["port"] == dport and l["from"] < arrive and l["to"] is None and l["kind"] == "unspec"]
        if len(inst) != 1:
            continue
        lid = inst[0][0]
        taken = [x["step"] for x in accepts if x["host"] == dst and x["peer"] == [src, sport]]
        if taken and min(taken) <= arrive:
            continue                      # accepted in the step it arrived
        if c["done"] is not None and not ok(c["done"][1], 3) and c["done"][0] <= arrive:
            continue                      # the connector had given up by then
        # the request is queued from step `arrive` on and nobody took it in that step: a task that was
        # parked in accept() before must have been woken and must have taken it
        for (h, sid), (ki, l2) in bg_issue.items():
            if h == dst and l2 == lid and ki < arrive and arrive < len(obs["post"]) - 1 \
                    and ((h, sid) not in bg_done_at or bg_done_at[(h, sid)] > arrive):
                out.append(("a task is parked in accept() on listener %d of host %d since step %d; the request of connect "
                            "%d (host %d port %d) was queued there in step %d, yet the task was not woken in that step "
                            "(request accepted %s)" % (lid, dst, ki, cid, src, sport, arrive,
                                                       "at step %d" % min(taken) if taken else "never"), None))
                break
    # ---- exact table sizes while nothing can have been reset ---------------------------------------------
    if not loop_used:
        held_all = False
        live2 = {h: set() for h in range(n)}
        pend2 = {h: set() for h in range(n)}
        dirty = False
        for k, st in enumerate(case["steps"]):
            for act in st["ctl"]:
                if act[0] in ("release", "partition", "partition_oneway", "repair", "repair_oneway"):
                    dirty = True
                if act[0] == "deliver":
                    # delivering anything but a SYN may reset an entry
                    for a, b, msgs in (obs["post"][k - 1][0] if k else []):
                        if {a, b} == {act[1], act[2]} and act[3] < len(msgs) and msgs[act[3]][1] != "syn":
                            dirty = True
            if any(c2[0] == "link" for cmds in st.get("hosts", {}).values() for c2 in cmds):
                dirty = True
            if k == 0:
                pairs_held = {(min(a[1], a[2]), max(a[1], a[2])) for a in st["ctl"] if a[0] == "hold"}
                held_all = len(pairs_held) == n * (n - 1) // 2
            for h in range(n):
                for i, cmd in enumerate(st.get("hosts", {}).get(str(h), [])):
                    r = res.get((k, h, i))
                    nm = cmd[0]
                    if nm in ("connect", "connect_t"):
                        if r == "pending":
                            pend2[h].add(cmd[1])
                        elif ok(r, 3):
                            live2[h].add(cmd[1])
                    elif nm == "poll" and cmd[1] in pend2[h] and r != "pending":
                        pend2[h].discard(cmd[1])
                        if ok(r, 3):
                            live2[h].add(cmd[1])
                    elif nm == "cancel" and r == "none":
                        pend2[h].discard(cmd[1])
                    elif nm == "accept" and ok(r, 4):
                        live2[h].add(cmd[2])
                    elif nm == "drop" and r == "none":
                        live2[h].discard(cmd[1])
            for b in bg_by_step.get(k, []):
                if ok(b[3], 4):
                    live2[b[1]].add(b[2])
            if held_all and not dirty:
                for h in range(n):
                    want = len(live2[h]) + len(pend2[h])
                    if obs["post"][k][1][h][1] != want:
                        out.append(("after step %d host %d has %d stream entries but its program holds %d streams and %d "
                                    "pending connects (links held, nothing but SYNs delivered)"
                                    % (k, h, obs["post"][k][1][h][1], len(live2[h]), len(pend2[h])), None))
                        dirty = True
                        break
    # ---- random link failure: a request in flight on a direction that breaks is never accepted ----------
    # Direction states by the documented meaning of the calls and of the fail_rate / repair_rate coins (the
    # coins themselves are read from the decision log): the partition coin breaks the directions that are
    # healthy -- a held or explicitly partitioned direction keeps its state -- and drops what is in flight
    # on them; otherwise the repair coin repairs what the random process broke.
    coins = [c for c in obs.get("coins", []) if isinstance(c[1], int) and isinstance(c[2], int)]
    if any(c[3] for c in coins):
        dstate = {}
        touched = {}           # pair -> steps with a fault call or a manual delivery
        for (k, via, nm, a, b) in calls:
            touched.setdefault((min(a, b), max(a, b)), set()).add(k)
        for k, st in enumerate(case["steps"]):
            for act in st["ctl"]:
                if act[0] == "deliver":
                    touched.setdefault((min(act[1], act[2]), max(act[1], act[2])), set()).add(k)
        breaks = []            # (step, broken directions, directions that stayed held)

        def apply_call(nm, a, b):
            if nm == "hold":
                dstate[(a, b)] = dstate[(b, a)] = "hold"
            elif nm in ("release", "repair"):
                dstate[(a, b)] = dstate[(b, a)] = "ok"
            elif nm == "partition":
                dstate[(a, b)] = dstate[(b, a)] = "cut"
            elif nm == "partition_oneway":
                dstate[(a, b)] = "cut"
            elif nm == "repair_oneway":
                dstate[(a, b)] = "ok"
        unsure = set()
        for k in range(len(case["steps"])):
            for (k2, via, nm, a, b) in calls:
                if k2 == k and via == 0:
                    apply_call(nm, a, b)
            ck = [c for c in coins if c[0] == k]
            for (k2, via, nm, a, b) in calls:
                if k2 == k and via == 1 and any({c[1], c[2]} == {a, b} for c in ck):
                    unsure.add((min(a, b), max(a, b)))      # host-code call and enqueues in one step: order unknown
            for (_, src, dst, rp, rr) in ck:
                dirs = [(src, dst), (dst, src)]
                healthy = [d for d in dirs if dstate.get(d, "ok") == "ok"]
                if rp and healthy:
                    for d in healthy:
                        dstate[d] = "rand"
                    breaks.append((k, healthy, [d for d in dirs if dstate.get(d) == "hold"]))
                elif rr and any(dstate.get(d) == "rand" for d in dirs):
                    for d in dirs:
                        if dstate.get(d) == "rand":
                            dstate[d] = "ok"
            for (k2, via, nm, a, b) in calls:
                if k2 == k and via == 1:
                    apply_call(nm, a, b)
        for (k, broken, held_dirs) in breaks:
            if k == 0 or k >= len(obs["post"]):
                continue
            pr = (min(broken[0]), max(broken[0]))
            if pr in unsure or touched.get(pr, set()) & {k - 1, k}:
                continue
            for cid, sy in syn_of.items():
                src, sport, dport, a, b, k0 = sy
                if (a, b) != pr or k0 >= k:
                    continue
                dst = b if src == a else a
                key = [src, "syn", 0, 0, sport, dport]

                def there(kk):
                    return any(list(m) == key for (a2, b2, msgs) in obs["post"][kk][0] if (a2, b2) == (a, b) for m in msgs)
                if not there(k - 1):
                    continue
                c = conn[cid]
                if (src, dst) in broken:
                    if there(k):
                        out.append(("connect %d: its SYN (host %d port %d) was in flight on %d->%d when that direction "
                                    "failed at step %d (fail_rate coin), but it is still on the link afterwards"
                                    % (cid, src, sport, src, dst, k), None))
                    acc = [x for x in accepts if x["host"] == dst and x["peer"] == [src, sport] and x["step"] >= k]
                    later = [(kk, r) for (kk, r) in c["results"] if kk > k]
                    if acc or (later and ok(later[0][1], 3)):
                        out.append(("connect %d: its SYN was in flight on %d->%d when that direction failed at step %d, "
                                    "yet it was accepted / completed afterwards" % (cid, src, dst, k), None))
                        break
                    if later and later[0][1] == "pending":
                        out.append(("connect %d: its SYN was dropped when the direction %d->%d failed at step %d, but it "
                                    "still pends at step %d" % (cid, src, dst, k, later[0][0]), None))
                        break
                elif (src, dst) in held_dirs and not there(k):
                    out.append(("connect %d: its SYN (host %d port %d) is parked on the held direction %d->%d, which did "
                                "not fail, but it disappeared from the link when the other direction failed at step %d"
                                % (cid, src, sport, src, dst, k), None))
                    break
    # ---- after the last release every connect is decided ---------------------------------------------
    # The fault calls by their documented meaning: hold parks what is and what will be sent; repair makes
    # the link healthy "without releasing any held messages"; release makes it healthy and schedules every
    # parked message; a partition drops what is on the link.  Once every pair that was held has been
    # released (or fully partitioned) after its last hold and no direction is cut, nothing is parked any
    # more: requests reach their listener within a step, so a connect cannot hang in front of a listener
    # whose queue is empty, and no request stays on a link.
    parked = set()
    cutd = set()
    T = -1
    for (k, via, nm, a, b) in calls:
        pr = (min(a, b), max(a, b))
        T = max(T, k)
        if nm == "hold":
            parked.add(pr)
            cutd -= {(a, b), (b, a)}
        elif nm == "release":
            parked.discard(pr)
            cutd -= {(a, b), (b, a)}
        elif nm == "partition":
            parked.discard(pr)
            cutd |= {(a, b), (b, a)}
        elif nm == "partition_oneway":
            cutd.add((a, b))
        elif nm == "repair":
            cutd -= {(a, b), (b, a)}
        elif nm == "repair_oneway":
            cutd.discard((a, b))
    for k, st in enumerate(case["steps"]):
        if any(act[0] == "deliver" for act in st["ctl"]):
            T = max(T, k)
    if not parked and not cutd and any(c[2] in ("hold", "release") for c in calls):
        for k in range(T + 2, len(obs["post"])):
            left = [(a, b, m) for (a, b, msgs) in obs["post"][k][0] for m in msgs if m[1] == "syn"]
            if left:
                a, b, m = left[0]
                out.append(("the connect request of host %d port %d is still parked on the link %d-%d after step %d "
                            "although the link was released at step %d and is healthy" % (m[0], m[4], a, b, k, T), None))
                break
        empty_at = {}          # (host, lid) -> steps >= T + 2 at which an accept found the queue empty
        for k, st in enumerate(case["steps"]):
            if k < T + 2:
                continue
            for h in range(n):
                for i, cmd in enumerate(st.get("hosts", {}).get(str(h), [])):
                    if cmd[0] == "accept" and res.get((k, h, i)) == "pending":
                        empty_at.setdefault((h, cmd[1]), []).append(k)
        for cid, c in conn.items():
            if c["done"] is not None or not c["results"]:
                continue
            p, r = c["results"][-1]
            if r != "pending":
                continue
            if isinstance(c["dst"], dict):
                d = c["dst"].get("h", c["dst"].get("name"))
            elif c["dst"] == "loop":
                d = c["host"]
            else:
                continue
            for (h, lid), l in listeners.items():
                if h != d or l["port"] != c["port"] or l["to"] is not None or l["from"] > c["step"]:
                    continue
                if l["kind"] != "unspec" and c["dst"] != "loop":
                    continue
                qs = [q for q in empty_at.get((h, lid), []) if c["step"] + 3 <= q < p]
                if qs:
                    out.append(("connect %d (host %d, issued at step %d) is neither accepted nor refused: it still pends "
                                "at step %d although every link is released and healthy since step %d and listener %d "
                                "of host %d found its queue empty at step %d" % (cid, c["host"], c["step"], p, T, lid, h,
                                                                                 qs[0]), None))
                    break
    # ---- accept order (FIFO among connectors that still wait) --------------------------------------
    arrival = {}         # (dst host, dport) -> list of (arrive step, link order, position, src, sport)
    prev = None
    for k, (links, _) in enumerate(obs["post"]):
        if prev is not None:
            for li, (a, b, msgs) in enumerate(prev):
                now = [tuple(m) for (a2, b2, ms2) in links if (a2, b2) == (a, b) for m in ms2]
                for pos, m in enumerate(msgs):
                    if m[1] == "syn" and tuple(m) not in now and k not in parts.get((a, b), []):
                        dst = b if m[0] == a else a
                        arrival.setdefault((dst, m[5]), []).append((k, li, pos, m[0], m[4]))
        prev = links
    for key in arrival:
        arrival[key].sort()
    by_listener = {}
    for a in accepts:
        by_listener.setdefault((a["host"], a["lid"]), []).append(a)
    for (h, lid), accs in by_listener.items():
        l = listeners.get((h, lid))
        if not l:
            continue
        arr = [x for x in arrival.get((h, l["port"]), []) if x[0] >= l["from"] and (l["to"] is None or x[0] <= l["to"])]
        order = {(x[3], x[4]): i for i, x in enumerate(arr)}
        last = -1
        for a in accs:
            p = a["peer"]
            if not isinstance(p[0], int) or p[0] == h:
                continue               # loopback connectors are not visible on a link
            i = order.get((p[0], p[1]))
            if i is None:
                continue
            if i < last:
                out.append(("listener %d on host %d accepted %s (arrival #%d) after a connector that arrived later (#%d)"
                            % (lid, h, p, i, last), None))
            last = max(last, i)
    return out


def c12_nontrivial(case, obs):
    nacc = sum(1 for r in obs["res"] if ok(r[3], 4))
    nconn = sum(1 for st in case["steps"] for cmds in st.get("hosts", {}).values() for c in cmds
                if c[0] in ("connect", "connect_t"))
    return nconn >= 1 and (nacc >= 1 or any(r[3] == ["err", "ConnectionRefused"] for r in obs["res"]))


class Spec(PropSpec):
    pid = "C12"
    subsys = "Conn"
    props_file = "C12.v"
    theorems = []
    consts = CONN_CONSTS
    anchors = CONN_ANCHORS
    harness_bins = ["conn"]
    coq_header = HEADER
    model_name = "TV.Conn.Model"
    rule = ("scripts = 1-4 connectors on 2-3 hosts (remote, the listener's own host through its address and through "
            "127.0.0.1, by name, v4/v6) racing for one or two listeners (wildcard and localhost binds) with scripted SYN "
            "delivery order on held links or zero-latency healthy links, fault-call sequences (hold, repair, repair_oneway, "
            "partition, release from the Sim handle and from host code) with SYNs and data parked meanwhile, random link failure "
            "(fail_rate / repair_rate, set_fail_rate / set_link_fail_rate mid-run; the coins are read from the verif-hooks "
            "decision log) with one direction held or explicitly partitioned, accepts, polls, cancels by drop and by "
            "tokio::time::timeout before/after SYN delivery, listener drop and re-bind, partitions around the handshake, a "
            "nonce written by each connector and read by its acceptor, stream drops, established_tcp_stream_count and the "
            "verif-hooks table sizes after every step; a case is non-trivial when a connect was accepted or refused; "
            "distinct = distinct (hosts, capacity, script)")
    assumptions = [
        "tokio oneshot / Notify / mpsc are replaced by flags and bounded FIFOs (modelled, not verified)",
        "SYN delivery order, loss (partitions, the coins of the random link failure) and cancellation points are inputs of the "
        "model; theorems quantify over all of them; message latency is zero in the scripts (in flight = parked by a hold)",
        "connections are identified by ghost ids; a stale segment of a closed connection reaching a new connection that "
        "reuses the same port pair (ephemeral range wrapped around) is not modelled",
        "the 'server socket buffer full' panic (more pending SYNs than tcp_capacity) is an explicit RPanic outcome; the "
        "property's quantifier excludes it",
    ]

    def gen_cases(self, ctx):
        quick = ctx.tier == "quick"
        n = 360 if quick else 5000
        if ctx.escalate:
            n *= 2
        cases = []
        for i in range(n):
            r = i % 10
            if r < 2:
                cases.append(F.gen_handshake(ctx.rng))
            elif r < 3:
                cases.append(F.gen_parked_accepts(ctx.rng) if (i // 10) % 2 else F.gen_abandon(ctx.rng))
            elif r < 4:
                cases.append([F.gen_partition, F.gen_linkcalls, F.gen_randfail][(i // 10) % 3](ctx.rng))
            elif r < 5:
                cases.append(F.gen_backlog(ctx.rng))
            elif r < 7:
                cases.append(F.gen_fifo(ctx.rng))
            elif r < 9:
                cases.append(F.gen_listener_drop(ctx.rng))
            else:
                cases.append(F.gen_residue(ctx.rng))
        return cases

    def to_model(self, case, obs):
        return F.to_model(case, obs)

    def compare(self, case, obs, model, probes):
        return F.compare(case, obs, model, probes)

    def oracle(self, case, obs):
        if obs.get("panic"):
            msg = str(obs["panic"])
            if "server socket buffer full" in msg:
                return []          # documented: more pending requests than tcp_capacity
            return [("the implementation panicked during connect/accept/teardown: %s" % msg[:200], None)]
        return c12_oracle(case, obs)

    def nontrivial(self, case, obs):
        return not obs.get("panic") and c12_nontrivial(case, obs)

    def signature(self, case):
        return F.case_signature(case)

    def histogram(self, cases):
        return F.histogram(cases)


THEOREMS = ["c12_pairing", "c12_syn_token_unique", "c12_poll_decided", "c12_fifo", "c12_accept_first_alive", "c12_accept_result",
            "c12_refused_unowned", "c12_refused_partitioned", "c12_refused_random_break", "c12_random_break_drops_syn", "c12_refused_no_listener", "c12_refused_listener_dropped",
            "c12_refused_removes_entry", "c12_no_residue", "c12_cancel_removes_entry", "c12_abandon_resets_acceptor", "c12_nonvacuous",
            "c12_repair_keeps_parked", "c12_release_unparks", "c12_release_then_tick_empties", "c12_repair_release_example", "c12_random_break_example"]
Spec.theorems = THEOREMS
SPEC = Spec()
