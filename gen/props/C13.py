"""C13 - turmoil-net connections open, close and are reclaimed like TCP."""
import json
import fam_nettcp as F
from pipeline import PropSpec
from C16 import stream_addrs


def listeners_timeline(case, obs):
    """[(host, ia, port, from_step, to_step or None, slot)] for every successful listen."""
    out, live = [], {}
    for i, (c, o) in enumerate(zip(case["script"], obs["obs"])):
        if c[0] == "listen" and o.get("r") == "ok":
            live[c[1]] = [c[2], o["local"][0], o["local"][1], i, None, c[1]]
            out.append(live[c[1]])
        elif c[0] == "close" and c[1] in live and o.get("r") == "ok":
            live.pop(c[1])[4] = i
    return out


def listener_alive(tl, host, ia, port, a, b):
    """some listener on `host` matching (ia or wildcard, port) alive at some step in [a, b]"""
    for (h, lia, lport, t0, t1, _) in tl:
        if h == host and lport == port and lia in (ia, 0) and t0 <= b and (t1 is None or t1 >= a):
            return True
    return False


def listener_always(tl, host, ia, port, a, b):
    for (h, lia, lport, t0, t1, _) in tl:
        if h == host and lport == port and lia in (ia, 0) and t0 <= a and (t1 is None or t1 >= b):
            return True
    return False


def c13_oracle(case, obs):
    cfg = F.full_cfg(case["cfg"])
    out = []
    script, ob = case["script"], obs["obs"]
    tl = listeners_timeline(case, obs)
    nh = cfg["hosts"]
    # --- which client port belongs to which connect: the k-th connect of a host that reaches the wire
    #     is the k-th new SYN source port of that host ---
    syn_ports, synack_count = {}, {}
    for c, o in zip(script, ob):
        if c[0] == "egress":
            for p in o["pk"]:
                if p[0] == 0 and p[7] & F.F_SYN and not p[7] & F.F_ACK:
                    lst = syn_ports.setdefault(p[1], [])
                    if p[3] not in lst:
                        lst.append(p[3])
                if p[0] == 0 and p[7] & F.F_SYN and p[7] & F.F_ACK:
                    key = (p[2], p[4], p[1], p[3])        # client ia, client port, server ia, server port
                    synack_count[key] = synack_count.get(key, 0) + 1
    nth_wire_connect = {}
    # --- connect outcomes ---
    conn = {}          # slot -> dict(start, host, ia, port)
    for i, (c, o) in enumerate(zip(script, ob)):
        if c[0] == "connect":
            conn[c[1]] = {"start": i, "host": c[2], "ia": c[3], "port": c[4], "res": None, "cport": None}
            if c[3] != 1 and o.get("r") == "pending":
                n = nth_wire_connect.get(c[2], 0)
                nth_wire_connect[c[2]] = n + 1
                ports = syn_ports.get(c[2] + 2, [])
                conn[c[1]]["cport"] = ports[n] if n < len(ports) else None
            r = o.get("r")
        elif c[0] == "poll_connect" and c[1] in conn:
            r = o.get("r")
        else:
            continue
        k = conn[c[1]]
        if k["res"] is not None or r in ("pending", "noslot"):
            continue
        k["res"] = (i, r)
        th = k["ia"] - 2 if 2 <= k["ia"] < 2 + nh else (k["host"] if k["ia"] == 1 else None)
        if r == "ok":
            if th is None or not listener_alive(tl, th, k["ia"], k["port"], k["start"], i):
                out.append(("step %d: connect of slot %d to (%d,%d) succeeded although no listener for that address existed "
                            "between steps %d and %d" % (i, c[1], k["ia"], k["port"], k["start"], i), None))
        elif r == "ConnectionRefused":
            if th is None:
                out.append(("step %d: connect to the unowned address %d was refused (nobody can have answered)" % (i, k["ia"]), None))
            elif (listener_always(tl, th, k["ia"], k["port"], k["start"], i) and k["cport"] is not None
                  and synack_count.get((k["host"] + 2, k["cport"], k["ia"], k["port"]), 0) == 1):
                # refused although a listener was there all the time and the server answered the SYN exactly once
                # (its child cannot have been reset by a listener close nor have exhausted its SYN-ACK retransmits)
                out.append(("step %d: connect of slot %d to (%d,%d) was refused although a listener for it existed during the "
                            "whole attempt (steps %d..%d)" % (i, c[1], k["ia"], k["port"], k["start"], i), None))
    # --- nothing listens there: the SYN must be answered with a RST at the host's next egress ---
    def ever_listened(host, ia, port, upto):
        return any(h == host and lport == port and lia in (ia, 0) and t0 <= upto for (h, lia, lport, t0, t1, _) in tl)
    pending_rst = []          # (step of delivery, host, client ia, client port, server ia, server port)
    for i, (c, o) in enumerate(zip(script, ob)):
        pk = []
        if c[0] in ("deliver", "dup") and o.get("r") == "ok":
            pk = [o["p"]]
        elif c[0] == "flush":
            pk = o["pk"]
        for p in pk:
            if p[0] == 0 and p[7] & F.F_SYN and not p[7] & (F.F_ACK | F.F_RST) and 2 <= p[2] < 2 + nh:
                if not ever_listened(p[2] - 2, p[2], p[4], i):
                    pending_rst.append((i, p[2] - 2, p[1], p[3], p[2], p[4]))
        if c[0] == "egress" and pending_rst:
            rsts = {(q[2], q[4], q[1], q[3]) for q in o["pk"] if q[0] == 0 and q[7] & F.F_RST}
            for (j, h, cia, cport, sia, sport) in pending_rst:
                if (cia, cport, sia, sport) not in rsts:
                    out.append(("step %d: a SYN from (%d,%d) was delivered to (%d,%d) at step %d where nothing has ever listened, "
                                "but the host's next egress carries no RST for it (the connect cannot be refused)"
                                % (i, cia, cport, sia, sport, j), None))
            pending_rst = []
    # --- backlog bound and accept-once / mirrored addresses ---
    addrs = stream_addrs(case, obs)
    seen_from = {}
    syn_src = set()
    for i, (c, o) in enumerate(zip(script, ob)):
        if c[0] == "egress":
            for p in o["pk"]:
                if p[0] == 0 and p[7] & F.F_SYN and not p[7] & F.F_ACK:
                    syn_src.add(((p[1], p[3]), (p[2], p[4])))
        if c[0] == "netstat":
            rows = o["ns"]
            for e in rows:
                if e[0] == 0 and e[5] == "Listen":
                    half = sum(1 for x in rows if x[0] == 0 and x[5] == "SynReceived" and x[3][1] == e[3][1]
                               and (e[3][0] == 0 or x[3][0] == e[3][0]))
                    if e[1] + half > e[2]:
                        out.append(("step %d: listener %s has %d established-unaccepted + %d handshaking children, backlog %d"
                                    % (i, e[3], e[1], half, e[2]), None))
        if c[0] in ("accept", "accept_w") and o.get("r") == "ok":
            frm = tuple(o["from"])
            loc, peer = o["a"]["local"], o["a"]["peer"]
            key = (frm, tuple(loc) if isinstance(loc, list) else None)
            if key in seen_from:
                out.append(("step %d: accept returned the connection from %s a second time (first at step %d)" % (i, frm, seen_from[key]), None))
            seen_from[key] = i
            if not isinstance(peer, list) or tuple(peer) != frm:
                out.append(("step %d: accepted stream reports peer %s but accept returned %s" % (i, peer, frm), None))
            if isinstance(loc, list) and frm[0] != 1 and (frm, tuple(loc)) not in syn_src:     # loopback never reaches the wire
                out.append(("step %d: accepted connection %s -> %s matches no SYN that was ever sent" % (i, frm, loc), None))
    for s, (loc, peer) in addrs.items():
        pass
    # --- a free ephemeral port is found as long as one exists (scripts hold far fewer than 16384 sockets) ---
    for i, (c, o) in enumerate(zip(script, ob)):
        auto = (c[0] == "connect") or (c[0] in ("listen", "udp_bind") and c[4] == 0) or c[0] == "udp_send"
        if auto and o.get("r") == "AddrInUse" and not (c[0] in ("listen", "udp_bind") and c[4] != 0):
            out.append(("step %d: %s needed an ephemeral port and failed with AddrInUse although the script holds only a handful "
                        "of sockets (the 16384-port range cannot be exhausted)" % (i, json.dumps(c)), None))
    # --- wake-up delivery: a task parked in accept() is woken once a connection sits in the ready queue ---
    parked = {}        # task -> (step of its pending accept_w, listener slot)
    lports = {}        # listener slot -> (host, port)
    ready_seen = {}    # listener slot -> step of a netstat showing an established-unaccepted connection
    for i, (c, o) in enumerate(zip(script, ob)):
        if c[0] == "listen" and o.get("r") == "ok":
            lports[c[1]] = (c[2], c[4])
        elif c[0] == "accept_w":
            if o.get("r") == "pending":
                parked[c[3]] = (i, c[1])
                ready_seen.pop(c[1], None)
            else:
                parked.pop(c[3], None)
        elif c[0] == "netstat":
            for lsl, (h, port) in lports.items():
                if h == c[1] and any(e[0] == 0 and e[5] == "Listen" and e[3][1] == port and e[1] >= 1 for e in o["ns"]):
                    ready_seen.setdefault(lsl, i)
        elif c[0] == "woken" and c[1] in parked:
            j, lsl = parked[c[1]]
            if lsl in ready_seen and ready_seen[lsl] > j and not o.get("woken"):
                out.append(("step %d: task %d has been parked in accept() on slot %d since step %d and a connection has been in the "
                            "listener's ready queue since step %d at the latest, but the task's waker was never woken: its accept() "
                            "never returns although connect succeeded" % (i, c[1], lsl, j, ready_seen[lsl]), None))
    # --- connect succeeded and losses stayed within the retransmit budget: accept hands the connection out ---
    plan = case.get("plan") or {}
    ea = plan.get("expect_accept")
    if ea and ea["drops"] < cfg["retx_max"]:
        ok_at = conn.get(ea["cs"], {}).get("res")
        cl = addrs.get(ea["cs"])
        if ok_at and ok_at[1] == "ok" and cl:
            got = [i for i, (c, o) in enumerate(zip(script, ob))
                   if c[0] == "accept" and c[1] == ea["ls"] and o.get("r") == "ok" and tuple(o["from"]) == tuple(cl[0])]
            tries = [i for i, (c, o) in enumerate(zip(script, ob)) if c[0] == "accept" and c[1] == ea["ls"]]
            if not got:
                out.append(("connect of slot %d returned Ok at step %d and only %d packet(s) were lost (retx_max %d), but none "
                            "of the %d accepts on slot %d (last at step %d) handed out the connection from %s: the client is "
                            "ESTABLISHED to nobody" % (ea["cs"], ok_at[0], ea["drops"], cfg["retx_max"], len(tries), ea["ls"],
                                                       tries[-1] if tries else -1, cl[0]), None))
            elif len(got) > 1:
                out.append(("accept handed out the connection from %s %d times (steps %s)" % (cl[0], len(got), got), None))
    # --- reclamation ---
    if plan.get("closed_all") and plan.get("settled"):
        out.extend(reclaimed(case, obs, plan))
    return out


def orphan_linger(r):
    """The known class: a socket the application has dropped, not aborted, with nothing in flight and nothing it
    could still do by itself: FIN_WAIT2 (our FIN is acknowledged, the peer's never came), or our FIN (and possibly
    data) still unsent behind a zero window.  A socket whose FIN has been sent AND acknowledged is in FinWait2 or
    Closed - anything else (e.g. Closing with the FIN acknowledged) is not in the class."""
    t = r["tcb"]
    if not (r["fd_closed"] and t and not t["reset"] and not t["timed_out"]):
        return False
    if t["state"] == "FinWait2":
        return True
    return (t["state"] in ("FinWait1", "Closing", "LastAck") and t["fin_seq"] is not None
            and t["snd_una"] == t["snd_nxt"] and t["snd_nxt"] <= t["fin_seq"] and t["snd_wnd"] == 0)


def fin_below_rcv_nxt(case, obs, r):
    """A FIN of the peer was delivered to this socket at a position BELOW its final rcv_nxt although the socket has
    not taken any FIN: its receive sequence ran past the peer's FIN - impossible for a correct receiver, so such a
    leftover is not the OrphanLinger class (whose sockets wait for a FIN / RST that never arrived)."""
    t = r["tcb"]
    if not t or t["peer_fin"] or not r.get("local"):
        return None
    loc, peer = tuple(r["local"]), tuple(t["peer"])
    for i, (c, o) in enumerate(zip(case["script"], obs["obs"])):
        pk = [o["p"]] if c[0] in ("deliver", "dup") and o.get("r") == "ok" else (o["pk"] if c[0] == "flush" else [])
        for p in pk:
            if p[0] == 0 and p[7] & F.F_FIN and (p[2], p[4]) == loc and (p[1], p[3]) == peer:
                fin_pos = (p[5] + len(p[9])) % 2 ** 32
                if 0 < (t["rcv_nxt"] - fin_pos) % 2 ** 32 < 2 ** 31:
                    return i
    return None


def rst_delivered(case, obs, r):
    """A RST of the peer was delivered to this socket: a correct receiver tears the connection down, so a leftover
    that got one is not the OrphanLinger class (which is about a RST that was lost)."""
    t = r["tcb"]
    if not t or not r.get("local"):
        return None
    loc, peer = tuple(r["local"]), tuple(t["peer"])
    for i, (c, o) in enumerate(zip(case["script"], obs["obs"])):
        pk = [o["p"]] if c[0] in ("deliver", "dup") and o.get("r") == "ok" else (o["pk"] if c[0] == "flush" else [])
        for p in pk:
            if p[0] == 0 and p[7] & F.F_RST and (p[2], p[4]) == loc and (p[1], p[3]) == peer:
                return i
    return None


def reclaimed(case, obs, plan):
    out = []
    script, ob = case["script"], obs["obs"]
    # every handle the script created was closed? (connect futures that completed with an error are gone by themselves)
    counts, rows = {}, {}
    for c, o in zip(script, ob):
        if c[0] == "counts":
            counts.setdefault(c[1], o["c"])           # first probe after the settle phase is what we judge
        if c[0] == "rows":
            rows[c[1]] = o
    # only the probes after the teardown matter: take the last `counts` before the final listen
    last = {}
    for i, (c, o) in enumerate(zip(script, ob)):
        if c[0] == "listen" and c[1] == plan["final_listen"]:
            break
        if c[0] == "counts":
            last[c[1]] = (i, o["c"])
    for h, (i, cnt) in sorted(last.items()):
        if cnt != [0, 0, 0, 0]:
            klass = None
            rs = rows.get(h, {"rows": []})["rows"]
            leftovers = [r for r in rs]
            past = [(r["fd"], fin_below_rcv_nxt(case, obs, r)) for r in leftovers]
            past = [(fd, j) for (fd, j) in past if j is not None]
            rsts = [(r["fd"], rst_delivered(case, obs, r)) for r in leftovers]
            rsts = [(fd, j) for (fd, j) in rsts if j is not None]
            if leftovers and all(orphan_linger(r) for r in leftovers) and not past and not rsts:
                klass = "OrphanLinger"
            out.append(("step %d: after both sides dropped everything and %d quiet rounds host %d still holds %s "
                        "(sockets, binding keys, bound fds, 4-tuples); leftovers: %s%s"
                        % (i, 1, h, cnt, [(r["fd"], r["fd_closed"], r["tcb"] and r["tcb"]["state"]) for r in leftovers],
                           "".join("; the peer's FIN delivered at step %d lies below rcv_nxt of fd %d but was never taken" % (j, fd)
                                   for (fd, j) in past)
                           + "".join("; the peer's RST was delivered to fd %d at step %d and the socket is still there" % (fd, j)
                                     for (fd, j) in rsts)), klass))
    # the port can be bound again
    for i, (c, o) in enumerate(zip(script, ob)):
        if c[0] == "listen" and c[1] == plan["final_listen"] and o.get("r") != "ok":
            h = c[2]
            if last.get(h, (0, None))[1] == [0, 0, 0, 0]:
                out.append(("step %d: re-bind of port %d failed with %s although the table was empty" % (i, c[4], o.get("r")), None))
            else:
                pass   # already reported above with its class
    return out


def c13_nontrivial(case, obs):
    kinds = set()
    for c, o in zip(case["script"], obs["obs"]):
        if c[0] in ("connect", "poll_connect") and o.get("r") in ("ok", "ConnectionRefused", "TimedOut"):
            kinds.add(o["r"])
        if c[0] == "accept" and o.get("r") == "ok":
            kinds.add("accept")
        if c[0] == "cancel" and o.get("r") == "ok":
            kinds.add("cancel")
    return len(kinds) >= 2


class Spec(PropSpec):
    pid = "C13"
    subsys = "NetTcp"
    props_file = "C13.v"
    coq_targets = ["C13.vo"]
    theorems = ["c13_index_coherent", "c13_remove_clears", "c13_connect_iff", "c13_connect_result", "c13_synsent_outcomes",
                "c13_accept_pops", "c13_accept_once", "c13_accept_logs", "c13_owned", "c13_listeners_held",
                "c13_world_projects", "c13_world_owned", "c13_world_accept_once", "c13_reclaimed_partial", "c13_close_open", "c13_reclaimed_refuted", "c13_nonvacuous"]
    consts = F.NET_CONSTS
    anchors = F.NET_ANCHORS
    harness_bins = ["nettcp"]
    coq_header = F.HEADER
    model_name = "TV.NetTcp.Model"
    rule = ("scripts interleave connect / poll / cancel / accept / write / read / shutdown / drop on both ends and listener "
            "drop / re-listen, with every handshake and close packet deliverable, droppable and overtakable; backlog 1..3; "
            "targets with and without listener, unowned addresses; after the teardown both hosts are probed (netstat, "
            "verif-hooks table counts and rows) and the port is bound again; deterministic family: the bare ACK of the handshake "
            "is lost and the client does not speak first (accept must still hand the connection out, once); exactly the first "
            "SYN / the first SYN-ACK is lost, then data, close, quiet rounds, table probes and re-bind; 'accept_wakers': several "
            "simulated tasks (own wakers) park in accept() on one listener, the earlier ones abandon it, then connections "
            "arrive - the live acceptor's waker must be woken; 'port_wrap': the ephemeral scan wraps with the top (or the first) ports "
            "occupied (cursor hook); 'rst_after_lost_data': a delivered RST ahead of rcv_nxt must tear the lingering peer down. Non-trivial = at least two of "
            "{connect ok, refused, timed out, accept, cancel} occurred; distinct = distinct (cfg, script)")
    assumptions = [
        "c13_index_coherent quantifies over every syscall sequence with arbitrary arguments and every inbound packet sequence (kreach)",
        "c13_connect_iff is the decision taken when the SYN / the reply is processed; reachability of the listener's host is the wire's business (the harness is the wire)",
        "c13_owned / c13_accept_once are stated on `ostep` (one host's kernel with the fds its application holds) and carried to histories of the whole world model (hosts + wire + handle table, the model the correspondence runs) by the proved simulation c13_world_projects; a handle is never created in an occupied slot (harness and model refuse it), a panicking accept is not a step; wakers are not modelled",
        "sequence numbers: the theorems are stated on unbounded naturals (side condition: every live sequence distance - in flight, window, send/receive buffer - stays below 2^31; that the code's wrapping_sub/wrapping_add/== then agree with them is PROVED for the whole inbound per-connection handler (handshake states + handle_established), the TCB literals of connect / accept_syn, segment_one and segment_all's filter by tcb_on_conn_wrap, tcb_on_seg_wrap, fresh_tcb_wrap, seg_step_wrap, transmittable_wrap (coq/NetTcp/Wrap.v, WrapTcb.v, checked with C16; tight: wrap_tight), the remaining sites - handshake equalities, probe sequence - by the site lemmas of Wrap.v; caps and windows are at most 65535/70000); the model's wire encoding is mod 2^32 and the deterministic `wrap` family of C06 (ISN = 2^32-k on both hosts via verif hook 71a27bd, k in {1,100,1460,5000}, both roles, both directions, with and without loss) checks model/implementation correspondence and the byte-stream oracle across the wrap", "ephemeral-port wrap-around (16384 connects) is not exercised",
    ]
    partial_note = ("c13_reclaimed_partial: proved are the reap post-condition of every egress pass, immediate removal on close of "
                    "sockets without a live connection, linger/RST on close of open ones, and the strictly decreasing retransmit "
                    "measure that bounds how long a lingering socket with something in flight survives; refuted on the code as "
                    "it is: reclamation of a lingering socket that has nothing in flight and whose peer is gone "
                    "(class OrphanLinger, c13_reclaimed_refuted).")

    def gen_cases(self, ctx):
        n = 400 if ctx.tier == "quick" else 3000
        if ctx.escalate:
            n *= 2
        cases = F.handshake_ack_lost_cases() + F.hs_retx_cases() + F.accept_waker_cases() + F.port_wrap_cases() + F.rst_after_lost_data_cases() + F.fin_wrap_cases()
        for i in range(n):
            r = i % 10
            if r < 7:
                cases.append(F.gen_lifecycle(ctx.rng))
            elif r < 9:
                cases.append(F.gen_transfer(ctx.rng))
            else:
                cases.append(F.gen_caps(ctx.rng))
        return cases

    def to_model(self, case, obs):
        return F.to_model(case, obs)

    def compare(self, case, obs, model, probes):
        return F.compare(case, obs, model, probes)

    def oracle(self, case, obs):
        if obs.get("panic"):
            # the scripts are well-formed API calls and packets the peers really sent: a panic inside the kernel
            # (deliver / egress / a syscall) means the connection is neither closed nor reclaimed
            return [("the turmoil-net kernel panicked in the middle of the scripted history (%s, family %s): the host's "
                     "connections are neither closed nor reclaimed" % (str(obs["panic"])[:200], case.get("flavour")), None)]
        return c13_oracle(case, obs)

    def nontrivial(self, case, obs):
        return not obs.get("panic") and c13_nontrivial(case, obs)

    def signature(self, case):
        return F.case_signature(case)

    def histogram(self, cases):
        return F.histogram(cases)


SPEC = Spec()
