"""C07 - after a crash the filesystem holds exactly the durable image."""
import json

import fam_fs as F
from pipeline import PropSpec
from C10 import FS_ANCHORS, FS_CONSTS, KLASS_IDS, KNOWN_IDS, nontrivial as c10_nontrivial

HEADER = ("From TV.Lib Require Import Base.\nFrom TV.Fs Require Import FsImpl FsSpec FsSafe FsDurable FsKnown.\n"
          "Open Scope N_scope.\n")


def durable_expected(case, obs):
    """Observations of the python durable model in enc_out shape + per-step
    'unspecified' flags (a crash met a dangling durable subtree on that host)."""
    n = case["cfg"].get("nhosts", 1)
    hosts = [F.Durable(case["cfg"].get("block_size")) for _ in range(n)]
    uni = case["cfg"].get("universe", F.UNIVERSE)
    decs = obs.get("decisions") or [[] for _ in case["steps"]]
    out, flags = [], []
    for i, st in enumerate(case["steps"]):
        nm = st[0].split("@")[0]
        if nm == "tick":
            out.append((0, 0, [], []))
            flags.append(hosts[0].unspecified)
            continue
        dh = hosts[st[1]]
        if dh.unspecified:
            out.append(None)
            flags.append(True)
            continue
        if nm == "crash":
            dh.crash([d for d in decs[i]])
            out.append((0, 0, [], []))
        elif nm == "dump":
            rows = [[r[0], r[1], r[2], r[1] != "none", len(r[2]) if r[1] == "file" else 0] for r in dh.fs.dump(uni)]
            out.append(F.canon_obs(st, rows))
        else:
            wr = dh.before(st)
            exp = F.spec_step([h.fs for h in hosts], st)
            dh.after(st, exp, decs[i], wr)
            out.append((7, F.ERRNO_CODE[exp[1]], [], []) if exp[0] == "err" else F.canon_obs(st, exp))
        flags.append(dh.unspecified)
    return out, flags


def crash_every_prefix(base, rng):
    """base history (crash-free) -> one case per prefix: prefix, crash, dump, and a
    short continuation (re-open, read, write, second crash)."""
    out = []
    steps = [s for s in base["steps"] if s[0] != "dump"]
    for i in range(1, len(steps) + 1):
        tail = [["crash", 0], ["dump", 0]]
        if rng.random() < 0.3:
            p = rng.choice(F.FILES)
            tail += [["open", 0, 1, p, "rwc"], ["write_at", 0, 1, 0, F.rand_bytes(rng)], ["sync_all", 0, 1],
                     ["sync_dir", 0, F.parent(p)], ["slurp", 0, p], ["crash", 0], ["dump", 0]]
        c = {"cfg": dict(base["cfg"]), "steps": steps[:i] + tail, "flavour": base["flavour"] + "+crash@prefix"}
        out.append(c)
    return out


def has_file_after_crash(case, obs):
    seen = False
    for st, o in zip(case["steps"], obs.get("obs", [])):
        if st[0] == "crash":
            seen = True
        elif seen and st[0] == "dump" and any(r[1] == "file" for r in o):
            return True
    return False


class Spec(PropSpec):
    pid = "C07"
    subsys = "Fs"
    props_file = "C07.v"
    theorems = ["c07_crash_image_partial", "c07_crash_image_renames_partial", "c07_torn", "c07_synced_never_lost", "c07_unsynced_entry_gone", "c07_no_unwritten_bytes", "c07_random_sync",
                "c07_rename_file_refuted", "c07_rename_cross_src_first_refuted", "c07_rename_cross_clean_example",
                "c07_recreate_refuted", "c07_kind_swap_refuted", "c07_nonvacuous", "c07_torn_nonvacuous",
                "c07_renames_nonvacuous"]
    coq_targets = ["C07.vo"]
    consts = FS_CONSTS
    anchors = FS_ANCHORS + [("crates/turmoil/src/sim.rs", "crash")]
    harness_bins = ["fs"]
    coq_header = HEADER
    model_name = "TV.Fs.FsImpl"
    rule = ("histories as for C10 with Fs::crash injected after every prefix of a base history, at random points, and "
            "repeatedly (crash - continue - crash); sync_probability in {0, p} with the coin read from the verif-hooks log, "
            "block_size in {None, 2, 3} with the torn-write draws read from the log; one or two hosts; std and tokio shim; "
            "driven directly against an entered Fs (Fs::crash) and through a running Sim (Sim::crash + Sim::bounce); "
            "io_uring write / read / fsync on descriptors the shims opened are mixed in with sync_probability 0 (data synced through another descriptor / front-end of the same file, crash at every prefix); "
            "a case is non-trivial when a dump after a crash shows at least one regular file; distinct = distinct (hosts, script)")
    assumptions = [
        "the background-sync coin and the torn-write block draws are inputs of the model (verif-hooks decision log); the theorems quantify over all their values",
        "expectations are asserted for entries all of whose ancestors are durable; once a crash meets a dangling durable subtree nothing more is asserted for that host",
        "symlinks, hard links, permissions, timestamps are outside the property; ring scheduling / completion order is C18's business (here a ring op is reaped at once)",
        "the io_uring front-end draws its own background-sync coin that is not in the decision log: cases with ring operations run with sync_probability 0",
    ]
    partial_note = ("two crash-image theorems, both for every history, block size, coin and draw sequence: c07_crash_image_partial "
                    "(alphabet without create_dir_all / remove_dir_all; hypothesis: no class of FsSafe.v - which excludes every "
                    "successful rename of a regular file and every creation of a file at a name a file left - and no KindSwap) and "
                    "c07_crash_image_renames_partial (the same alphabet plus renames of regular files, onto a "
                    "fresh name or over an existing file, with crashes before and after the flushing sync_dir; hypothesis: no KNOWN "
                    "class - the narrow classes of known_findings.txt as gen/fam_fs.py decides them, mirrored by FsKnown.v and "
                    "cross-checked on every generated history). Still excluded by the second theorem beyond the known classes: "
                    "create_dir_all / remove_dir_all, a sync of exactly one of the two directories of an unflushed rename between different directories (the flush from the new directory's side: oracle + narrow class RenameCrossDir only; unflushed and rolled back by a crash: covered), "
                    "any creation of a file at a name a file left since the last crash (the known finding Recreate is narrower; the "
                    "re-creations outside it are asserted by the oracle), a rename of a file still under an unflushed rename (chains within one directory are asserted by the oracle), a rename onto a name a directory was removed from since "
                    "the last crash, a crash on a dangling durable subtree")

    def gen_cases(self, ctx):
        rng = ctx.rng
        q = ctx.tier == "quick"
        k = 1 if q else 8
        if ctx.escalate:
            k *= 2
        cases = []
        for _ in range(12 * k):
            b = F.gen_safe(rng, stale=0.0, nsteps=rng.randrange(8, 16), setup_sync=rng.choice([1, 2, 2]), syncs=0.3)
            cases += crash_every_prefix(b, rng)
        cases += [F.gen_safe(rng, stale=0.0, crash=0.1, setup_sync=rng.choice([0, 1, 2, 2])) for _ in range(220 * k)]
        cases += [F.gen_safe(rng, stale=0.0, crash=0.1, setup_sync=2, sync_prob=rng.choice([0.3, 0.6])) for _ in range(90 * k)]
        cases += [F.gen_safe(rng, stale=0.0, crash=0.12, setup_sync=2, syncs=0.15, block_size=rng.choice([2, 3]),
                             sync_prob=rng.choice([0.0, 0.0, 0.3])) for _ in range(120 * k)]
        cases += [F.gen_history(rng, 3, stale=0.1, crash=0.1, setup_sync=rng.choice([1, 2]),
                                block_size=rng.choice([None, 2])) for _ in range(100 * k)]
        cases += [F.gen_safe(rng, stale=0.0, crash=0.1, nhosts=2, setup_sync=2) for _ in range(40 * k)]
        for _ in range(40 * k):
            c = F.gen_safe(rng, stale=0.0, crash=0.1, tokio=0.5, setup_sync=2, sync_prob=rng.choice([0.0, 0.4]))
            c["flavour"] += "+tokio"
            cases.append(c)
        # renames of files whose data is synced (outside every known class; not covered by the theorem):
        # within a directory, across directories, out of never-synced directories, onto existing files,
        # followed by directory syncs in every order and a crash
        sc = F.rename_scenarios(rng)
        cases += sc if not q else rng.sample(sc, 140)
        cases += [F.gen_clean_rename(rng, crash=0.1, setup_sync=rng.choice([1, 2, 2]), syncs=0.2,
                                     block_size=rng.choice([None, None, 2]), sync_prob=rng.choice([0.0, 0.0, 0.3]))
                  for _ in range(110 * k)]
        # an entry removed and created again at the same path (directory; file outside the narrow class
        # Recreate), the removal flushed before or together with the creation, then a crash
        rc = F.recreate_scenarios(rng)
        cases += rc if not q else rng.sample(rc, 120)
        # chained unflushed renames of a data-synced file within one directory, then flush / crash
        ch = F.rename_chain_scenarios(rng)
        cases += ch if not q else rng.sample(ch, 50)
        # torn writes inside / at the end of / across the end of the data-synced contents
        tc = F.torn_scenarios(rng)
        cases += tc if not q else rng.sample(tc, 60)
        for _ in range(30 * k):
            c = F.gen_clean_rename(rng, crash=0.12, setup_sync=rng.choice([1, 2]), syncs=0.2)
            c["cfg"]["via"] = "sim"
            c["flavour"] += "+Sim::crash"
            if rng.random() < 0.5:
                # the host's program has returned before the crash (a finished host, not a parked one)
                c["cfg"]["host_returns"] = True
                c["flavour"] += "+host-returned"
            cases.append(c)
        # the same scripts inside a running turmoil::Sim, crash = Sim::crash + Sim::bounce
        for _ in range(70 * k):
            c = F.gen_safe(rng, stale=0.0, crash=0.12, setup_sync=rng.choice([1, 2, 2]), nhosts=rng.choice([1, 1, 2]),
                           sync_prob=rng.choice([0.0, 0.0, 0.4]), block_size=rng.choice([None, None, 2]))
            c["cfg"]["via"] = "sim"
            c["flavour"] += "+Sim::crash"
            if rng.random() < 0.5:
                c["cfg"]["host_returns"] = True
                c["flavour"] += "+host-returned"
            cases.append(c)
        # io_uring mixed in (sync_probability 0: the ring's coin is not in the decision log, none is drawn):
        # data syncs through another descriptor / front-end of the same file, then a crash; random histories
        # with positional writes / reads / fsyncs rerouted through the ring, crash at every prefix
        # several hosts crashed by one Sim::crash call over a regex host set / by repeated single calls
        cases += [F.multi_host_crash(rng) for _ in range(40 * k)]
        # one host whose software writes from a destructor (flusher joined on drop) during Sim::crash: unsynced, rolled back
        for _ in range(30 * k):
            c = F.gen_safe(rng, stale=0.0, crash=0.15, setup_sync=rng.choice([1, 2, 2]), syncs=0.3)
            c["cfg"].update({"via": "sim", "drop_ops": [["spit", p, [200, 201, 202]] for p in rng.sample(F.FILES, 2)]})
            c["flavour"] += "+Sim::crash+destructor-writes"
            cases.append(c)
        us = F.uring_fsync_scenarios(rng)
        cases += us
        for b in rng.sample(us, 6 * k):
            cases += crash_every_prefix(b, rng)
        for _ in range(50 * k):
            c = F.gen_safe(rng, stale=0.0, crash=0.12, setup_sync=rng.choice([1, 2, 2]), syncs=0.3,
                           block_size=rng.choice([None, None, 2]))
            cases.append(F.with_uring(c, rng))
        for _ in range(4 * k):
            b = F.with_uring(F.gen_safe(rng, stale=0.0, nsteps=rng.randrange(8, 14), setup_sync=2, syncs=0.3), rng)
            cases += crash_every_prefix(b, rng)
        return cases

    def to_model(self, case, obs):
        term, probes, problems = F.to_model(case, obs)
        n = case["cfg"].get("nhosts", 1)
        bs = case["cfg"].get("block_size") or 0
        dterm = term.replace("hrun_enc %d%%nat %d%%nat" % (n, bs), "hdrun_enc %d%%nat %d%%nat" % (n, bs), 1)
        cterm = term.replace("hrun_enc", "hdclasses_enc", 1)
        sterm = "dsafe_enc" + term.split("hrun_enc %d%%nat" % n, 1)[1]
        kterm = term.replace("hrun_enc", "hknown_enc", 1)
        ksterm = "ksafe_enc" + term.split("hrun_enc %d%%nat" % n, 1)[1]
        return "(%s, %s, %s, %s, %s, %s)" % (term, dterm, cterm, sterm, kterm, ksterm), probes, problems

    def compare(self, case, obs, model, probes):
        if isinstance(model, tuple) and model and model[0] == "error":
            return "model evaluation failed: %s" % str(model[1])[-400:]
        impl_m, (dur_m, dur_flags), klasses, coq_safe, knowns, coq_ksafe = model
        d = F.compare(case, obs, impl_m, probes)
        if d:
            return d
        feats_all = F.history_features(case, obs)
        py = sorted(KLASS_IDS[k] for k in feats_all if k in KLASS_IDS)
        if not any(dur_flags) and py != sorted(set(klasses)):
            return "known-class predicates disagree: python %s, FsDurable.v %s" % (py, sorted(set(klasses)))
        # the side condition of c07_crash_image_partial (one host): alphabet, no known class, no KindSwap,
        # no crash on a dangling durable subtree -- must be what the generators call "safe"
        if case["cfg"].get("nhosts", 1) == 1:
            feats = feats_all
            alphabet = not any(st[0].split("@")[0] in ("mkdir_all", "rmdir_all") for st in case["steps"])
            py_safe = alphabet and not (feats & set(F.THEOREM_EXCLUDED)) and not any(dur_flags)
            if py_safe != bool(coq_safe):
                return "side condition of c07_crash_image_partial: python says %s, dsafe (Coq) says %s (features %s)" % (
                    py_safe, bool(coq_safe), sorted(feats))
        # ... and the side condition of c07_crash_image_renames_partial (FsKnown.ksafe)
        if case["cfg"].get("nhosts", 1) == 1:
            py_ksafe = F.rename_theorem_side_condition(case, feats_all, any(dur_flags))
            if py_ksafe != bool(coq_ksafe):
                return "side condition of c07_crash_image_renames_partial: python says %s, ksafe (Coq) says %s (features %s)" % (
                    py_ksafe, bool(coq_ksafe), sorted(feats_all))
        pk = sorted(KNOWN_IDS[k] for k in feats_all if k in KNOWN_IDS)
        if not any(dur_flags) and pk != sorted(set(knowns)):
            return "known classes disagree: python %s, FsKnown.v %s" % (pk, sorted(set(knowns)))
        exp, flags = durable_expected(case, obs)
        for i, (a, fl) in enumerate(zip(exp, flags)):
            if bool(dur_flags[i]) != fl:
                return "FsDurable (Coq) and the python durable model disagree on 'unspecified' at step %d" % i
            if a is not None and not fl and a != F.canon_model(dur_m[i]):
                return "FsDurable (Coq) and the python durable model disagree at step %d %s: python %s, Coq %s" % (
                    i, json.dumps(case["steps"][i]), a, F.canon_model(dur_m[i]))
        return None

    def oracle(self, case, obs):
        if obs.get("panic"):
            return [("implementation panicked: %s" % obs["panic"], None)]
        r = F.durable_check(case, obs)
        if not r:
            return []
        step, text, _before = r
        return [(text, F.known_class(case, obs, step))]

    def nontrivial(self, case, obs):
        return not obs.get("panic") and has_file_after_crash(case, obs)

    def signature(self, case):
        return F.case_signature(case)

    def histogram(self, cases):
        h = F.histogram(cases)
        h["crashes"] = h["ops"].get("crash", 0)
        h["with_coin"] = sum(1 for c in cases if c["cfg"].get("sync_prob"))
        h["with_block_size"] = sum(1 for c in cases if c["cfg"].get("block_size"))
        h["in_proved_alphabet_and_class_free"] = sum(
            1 for c in cases
            if not any(st[0].split("@")[0] in ("mkdir_all", "rmdir_all") for st in c["steps"])
            and not (F.history_features(c) & set(F.THEOREM_EXCLUDED)))
        h["class_free_with_clean_rename"] = sum(
            1 for c in cases if "CleanRename" in F.history_features(c)
            and not (F.history_features(c) & set(F.KNOWN_CLASSES)))
        h["with_clean_rename_in_the_rename_theorem"] = sum(
            1 for c in cases if c["cfg"].get("nhosts", 1) == 1 and "CleanRename" in F.history_features(c)
            and F.rename_theorem_side_condition(c, F.history_features(c)))
        return h


SPEC = Spec()
