"""C20 - barriers observe every matching trigger once and suspend only when asked."""
import fam_barriers as F
from pipeline import PropSpec

B = "crates/turmoil/src/barriers.rs"
ANCHORS = [(B, f) for f in ("insert", "drop", "barrier", "trigger", "trigger_noop", "build", "wait", "new")] + [
    ("crates/turmoil/src/lib.rs", "fs_corruption_hook")]

HEADER = "From TV.Lib Require Import Base.\nFrom TV.Barriers Require Import Model.\nOpen Scope N_scope.\n"


class Spec(PropSpec):
    pid = "C20"
    subsys = "Barriers"
    props_file = "C20.v"
    theorems = ["reported_once_in_order", "suspend_until_release", "source_gone_still_reported", "noop_never_blocks", "panic_panics",
                "no_match_immediate", "c20_nonvacuous"]
    consts = []
    anchors = ANCHORS
    harness_bins = ["barriers"]
    coq_header = HEADER
    model_name = "TV.Barriers.Model"
    rule = ("scripts = build/trigger/trigger_noop/wait(one poll)/drop_handle/drop_barrier sequences over 1-4 source tasks "
            "(local tasks of a current-thread runtime, or hosts and clients of a turmoil Sim), two Rust trigger types, "
            "overlapping conditions, all three reactions; a case is non-trivial when a trigger was delivered by wait and a "
            "source was suspended or panicked or a barrier was dropped; distinct = distinct script")
    assumptions = [
        "that a suspended tokio task really does not run (and resumes when its oneshot fires) is runtime behaviour: it is not modelled, it is covered only by the correspondence check through per-source progress counters (trigger calls started / returned)",
        "the unbounded mpsc channel is modelled as a FIFO list, the oneshot release channel as a token naming the source",
        "a source that is blocked, has panicked or was dropped makes no trigger call (such script commands are skipped on both sides); a dropped source is not restarted",
        "a trigger fired by a destructor while its task unwinds (or inside catch_unwind) is an ordinary TriggerNoop of a fresh source number: code that still runs although the task's main code has panicked",
        "a corrupted std-shim read is the event TriggerNoop(FsCorruption) at the position of the read inside the host's tick program",
    ]
    partial_note = ("the logic of barriers.rs (registry, earliest match, FIFO reporting, release tokens) is proved for all "
                    "histories; that a suspended task does not execute is tokio behaviour, checked by correspondence only")

    def gen_cases(self, ctx):
        n = 500 if ctx.tier == "quick" else 5000
        if ctx.escalate:
            n *= 2
        cases = [F.gen_script(ctx.rng, "local") for _ in range(n)]
        cases += [F.gen_script(ctx.rng, "sim") for _ in range(n // 5)]
        nv = 60 if ctx.tier == "quick" else 600
        cases += [F.gen_vanish(ctx.rng, "local") for _ in range(nv)] + [F.gen_vanish(ctx.rng, "sim") for _ in range(nv // 3)]
        nh = 80 if ctx.tier == "quick" else 800
        cases += [F.gen_hook_tick(ctx.rng) for _ in range(nh)]
        cases += [F.gen_tick_empty(ctx.rng) for _ in range(nh // 2)]
        cases += [F.gen_unwind(ctx.rng) for _ in range(nh)]
        nb = 12 if ctx.tier == "quick" else 80
        cases += [F.gen_burst(ctx.rng, "local") for _ in range(nb)] + [F.gen_burst(ctx.rng, "sim") for _ in range(nb // 2)]
        ex = F.exhaustive_small()
        if ctx.tier == "quick":
            ex = ctx.rng.sample(ex, min(len(ex), 60))
        return ex + cases

    def to_model(self, case, obs):
        return F.to_model(case, obs)

    def compare(self, case, obs, model, probes):
        return F.compare(case, obs, model, probes)

    def oracle(self, case, obs):
        if obs.get("panic"):
            return [("the implementation panicked while executing the script: %s" % obs["panic"], None)]
        return F.oracle(case, obs)

    def nontrivial(self, case, obs):
        if obs.get("panic"):
            return False
        f = F.features(case, obs)
        return "delivered" in f and bool(f & {"suspended", "panicked", "drop_barrier"})

    def histogram(self, cases):
        return F.histogram(cases)


SPEC = Spec()
