"""C10 - without a crash the simulated filesystem behaves like a plain POSIX file tree."""
import json

import fam_fs as F
from pipeline import PropSpec

FS_LIB = "crates/turmoil-fs/src/lib.rs"
FS_STD = "crates/turmoil-fs/src/shim/std/fs/mod.rs"
FS_ANCHORS = [(FS_LIB, f) for f in (
    "file_exists", "dir_exists", "file_len", "read_file", "resolve_persisted_path", "path_renamed_to",
    "mkdir_with_mode", "rmdir", "dir_has_children", "unlink", "rename", "sync_file", "sync_file_data",
    "sync_dir", "apply_op_to_persisted", "crash", "apply_torn_writes", "dir_entries", "write_file",
    "set_file_len", "create_file_with_mode", "parent_exists", "enter")] + [(FS_STD, f) for f in (
        "open", "write_at_internal", "read_at_internal", "set_len", "sync_all", "sync_data", "seek",
        "create_dir_all", "remove_dir_all", "remove_dir_contents_recursive", "metadata", "read_dir",
        "remove_file", "exists")] + [
    ("crates/turmoil-fs/src/shim/tokio/fs/mod.rs", "write_at"),
    ("crates/turmoil-fs/src/shim/tokio/fs/mod.rs", "read_at"),
    ("crates/turmoil-fs/src/shim/std/os/unix/fs/mod.rs", "write_at")]

FS_CONSTS = [
    ("default_sync_probability_int", FS_LIB, r"sync_probability: (\d+)\.\d+,\s*capacity: None", "N"),
    ("default_io_error_probability_int", FS_LIB, r"io_error_probability: (\d+)\.\d+,\s*corruption_probability", "N"),
    ("default_short_read_probability_int", FS_LIB, r"short_read_probability: (\d+)\.\d+,\s*noatime", "N"),
    ("sim_fd_base_log2", FS_LIB, r"pub const SIM_FD_BASE: RawFd = 1 << (\d+);", "N"),
]

KLASS_IDS = {"RootOp": 1, "RenameSelf": 2, "RenameFileAny": 3, "RenameDir": 4, "StaleHandle": 5,
             "RecreateAny": 6}

KNOWN_IDS = {"RootOp": 1, "RenameSelf": 2, "RenameDir": 4, "StaleHandle": 5, "Recreate": 6, "RenameFile": 7,
             "RenameCrossDir": 8, "KindSwap": 9}

HEADER = ("From TV.Lib Require Import Base.\nFrom TV.Fs Require Import FsImpl FsSpec FsSafe FsDurable FsKnown.\n"
          "Open Scope N_scope.\n")


def spec_expected(case):
    """Observations of the python POSIX tree in enc_out shape (crash-free cases)."""
    n = case["cfg"].get("nhosts", 1)
    hosts = [F.Posix() for _ in range(n)]
    uni = case["cfg"].get("universe", F.UNIVERSE)
    out = []
    for st in case["steps"]:
        nm = st[0].split("@")[0]
        if nm == "dump":
            rows = [[r[0], r[1], r[2], r[1] != "none", len(r[2]) if r[1] == "file" else 0]
                    for r in hosts[st[1]].dump(uni)]
            out.append(F.canon_obs(st, rows))
            continue
        exp = F.spec_step(hosts, st)
        if exp[0] == "err":
            out.append((7, F.ERRNO_CODE[exp[1]], [], []))
        else:
            out.append(F.canon_obs(st, exp))
    return out


def nontrivial(case, obs):
    """some bytes written and later seen by a read / dump"""
    wrote = any(st[0].split("@")[0] in ("write_at", "write", "spit") for st in case["steps"])
    if not wrote or obs.get("panic"):
        return False
    for st, o in zip(case["steps"], obs["obs"]):
        nm = st[0].split("@")[0]
        if nm in ("read_at", "read", "slurp") and o[0] == "ok" and o[1]:
            return True
        if nm == "dump" and any(r[1] == "file" and r[2] for r in o):
            return True
    return False


class Spec(PropSpec):
    pid = "C10"
    subsys = "Fs"
    props_file = "C10.v"
    theorems = ["c10_refines_partial", "c10_refines_renames_partial", "c10_sync_is_invisible", "c10_nonvacuous", "c10_time_is_invisible", "c10_hosts_isolated",
                "c10_rename_file_refuted", "c10_rename_twice_refuted", "c10_rename_self_refuted",
                "c10_rename_dir_refuted", "c10_rename_cross_resurrect_refuted", "c10_rename_rmdir_refuted",
                "c10_rename_again_refuted", "c10_rename_clean_example", "c10_stale_handle_refuted", "c10_recreate_refuted",
                "c10_root_op_refuted", "c10_renames_nonvacuous"]
    coq_targets = ["C10.vo"]
    consts = FS_CONSTS
    anchors = FS_ANCHORS
    harness_bins = ["fs"]
    coq_header = HEADER
    model_name = "TV.Fs.FsImpl"
    rule = ("histories = open (every std OpenOptions combination) / read / write / seek / write_at / read_at / set_len / "
            "sync_all / sync_data / sync_dir / mkdir(_all) / rmdir(_all) / unlink / rename / stat / exists / read_dir / "
            "fs::read / fs::write over 10 paths in nested directories, through the std shim, the tokio shim and io_uring "
            "(write / read / fsync submitted on the raw fd of handles the shims opened, every OpenOptions combination), one or two "
            "hosts with identical names, syncs inserted at every position of a base history, ticks; a case is non-trivial "
            "when bytes are written and later observed by a read or a dump; distinct = distinct (hosts, script)")
    assumptions = [
        "symlinks, hard links, permissions, timestamps, page cache, capacity, O_DIRECT and the fault probabilities are outside the model (all faults 0)",
        "the order of directory listings is not compared (sets only; order is C01's business)",
        "ENOTDIR / EISDIR for a lookup that meets the wrong kind of entry may be reported by the implementation as NotFound",
        "io_uring write / read / fsync are issued on descriptors the shims opened and reaped at once; ring scheduling, linking and completion order are C18's business",
    ]
    partial_note = ("two refinement theorems, both for every history of any length: c10_refines_partial (every operation except "
                    "create_dir_all / remove_dir_all; hypothesis: no class of FsSafe.v, which excludes every successful rename of a "
                    "regular file and every creation of a file at a name a file left) and c10_refines_renames_partial (the same "
                    "alphabet plus renames of regular files, onto a fresh name or over an existing file; "
                    "hypothesis: no KNOWN class - the narrow classes of known_findings.txt as gen/fam_fs.py decides them, mirrored "
                    "by FsKnown.v and cross-checked on every generated history). Still excluded by the second theorem beyond the "
                    "known classes: create_dir_all / remove_dir_all, a sync of exactly one of the two directories of an unflushed rename between different directories, any creation of a file at a "
                    "name a file left earlier (the known finding Recreate is narrower), a rename onto a name a directory was "
                    "removed from; those are covered by the model, the correspondence and the oracle only. Every known class has a "
                    "_refuted theorem with a witness replayed on the crate")

    def gen_cases(self, ctx):
        rng = ctx.rng
        q = ctx.tier == "quick"
        k = 1 if q else 8
        if ctx.escalate:
            k *= 2
        cases = []
        cases += [F.gen_safe(rng, stale=0.0) for _ in range(260 * k)]
        base = [F.gen_safe(rng, stale=0.0, nsteps=rng.randrange(6, 14), syncs=0.05) for _ in range(10 * k)]
        for b in base:
            cases += F.with_syncs_everywhere(b, rng)
        cases += [F.gen_history(rng, 1) for _ in range(60 * k)]
        cases += [F.gen_history(rng, 3, stale=0.15) for _ in range(160 * k)]
        cases += [F.gen_safe(rng, stale=0.0, nhosts=2) for _ in range(60 * k)]
        cases += [F.gen_history(rng, 3, nhosts=2) for _ in range(30 * k)]
        for _ in range(90 * k):
            c = F.gen_safe(rng, stale=0.0, tokio=0.5, latency=rng.random() < 0.5)
            c["flavour"] += "+tokio"
            cases.append(c)
        # renames of files whose data is synced and that are left alone until the rename is flushed
        # (outside every known class; asserted by the oracle, not covered by c10_refines_partial)
        cases += [F.gen_clean_rename(rng, syncs=0.25, setup_sync=rng.choice([0, 1, 2])) for _ in range(120 * k)]
        # an entry removed and created again at the same path (outside the narrow class Recreate)
        rc = F.recreate_scenarios(rng, crash=False)
        cases += rc if not q else rng.sample(rc, 100)
        # a data-synced file renamed several times with no directory sync in between, within one directory
        # (outside the narrowed RenameFile (d); the persisted data must follow the chain newest-first)
        ch = F.rename_chain_scenarios(rng, crash=False)
        cases += ch if not q else rng.sample(ch, 40)
        # two hosts of a real turmoil::Sim with identical path names (per-host Fs entered by the Sim)
        for _ in range(40 * k):
            c = F.gen_safe(rng, stale=0.0, nhosts=2)
            c["cfg"]["via"] = "sim"
            c["flavour"] += "+Sim"
            cases.append(c)
        # the three front-ends on the same descriptor: io_uring write / read / fsync on fds opened by the std
        # or the tokio shim with every OpenOptions combination (deterministic family), and random histories
        # with some positional operations rerouted through the ring
        cases += F.uring_mix_scenarios(rng)
        for _ in range(60 * k):
            c = F.gen_safe(rng, stale=0.0, tokio=rng.choice([0.0, 0.5]))
            cases.append(F.with_uring(c, rng))
        for _ in range(30 * k):
            cases.append(F.with_uring(F.gen_history(rng, 3, stale=0.1), rng))
        return cases

    def to_model(self, case, obs):
        term, probes, problems = F.to_model(case, obs)
        n = case["cfg"].get("nhosts", 1)
        sterm = term.replace("hrun_enc %d%%nat %d%%nat" % (n, case["cfg"].get("block_size") or 0),
                             "hsrun_enc %d%%nat" % n, 1)
        cterm = "hclasses_enc" + term.split("hrun_enc", 1)[1].replace(" %d%%nat [" % (case["cfg"].get("block_size") or 0), " [", 1)
        kterm = term.replace("hrun_enc", "hknown_enc", 1)
        ksterm = "ksafe_enc" + term.split("hrun_enc %d%%nat" % n, 1)[1]
        return "(%s, %s, %s, %s, %s)" % (term, sterm, cterm, kterm, ksterm), probes, problems

    def compare(self, case, obs, model, probes):
        if isinstance(model, tuple) and model and model[0] == "error":
            return "model evaluation failed: %s" % str(model[1])[-400:]
        impl_m, spec_m, klasses, knowns, coq_ksafe = model
        d = F.compare(case, obs, impl_m, probes)
        if d:
            return d
        # the class predicates of FsSafe.v must be the ones of fam_fs.history_features
        py = sorted(KLASS_IDS[k] for k in F.history_features(case, obs) if k in KLASS_IDS)
        if not any(st[0] == "crash" for st in case["steps"]) and py != sorted(set(klasses)):
            return "known-class predicates disagree: python %s, FsSafe.v %s" % (py, sorted(set(klasses)))
        # ... and so must the known classes of FsKnown.v be those of fam_fs.Ghost
        pk = sorted(KNOWN_IDS[k] for k in F.history_features(case, obs) if k in KNOWN_IDS)
        if pk != sorted(set(knowns)):
            return "known classes disagree: python %s, FsKnown.v %s" % (pk, sorted(set(knowns)))
        # ... and the side condition of c10_refines_renames_partial (FsKnown.ksafe; one host, no crash)
        if case["cfg"].get("nhosts", 1) == 1 and not any(st[0] == "crash" for st in case["steps"]):
            feats = F.history_features(case, obs)
            py_ksafe = F.rename_theorem_side_condition(case, feats)
            if py_ksafe != bool(coq_ksafe):
                return "side condition of c10_refines_renames_partial: python says %s, ksafe (Coq) says %s (features %s)" % (
                    py_ksafe, bool(coq_ksafe), sorted(feats))
        # the Coq reference tree must agree with the independent python tree
        if not any(st[0] == "crash" for st in case["steps"]):
            exp = spec_expected(case)
            for i, (a, b) in enumerate(zip(exp, spec_m)):
                if a != F.canon_model(b):
                    return "FsSpec (Coq) and the python POSIX tree disagree at step %d %s: python %s, Coq %s" % (
                        i, json.dumps(case["steps"][i]), a, F.canon_model(b))
        return None

    def oracle(self, case, obs):
        if obs.get("panic"):
            return [("implementation panicked: %s" % obs["panic"], None)]
        r = F.posix_check(case, obs)
        if not r:
            return []
        step, text = r
        return [(text, F.known_class(case, obs, step))]

    def nontrivial(self, case, obs):
        return nontrivial(case, obs)

    def signature(self, case):
        return F.case_signature(case)

    def histogram(self, cases):
        h = F.histogram(cases)
        h["with_clean_rename_in_the_rename_theorem"] = sum(
            1 for c in cases if c["cfg"].get("nhosts", 1) == 1 and "CleanRename" in F.history_features(c)
            and F.rename_theorem_side_condition(c, F.history_features(c)))
        return h


SPEC = Spec()
