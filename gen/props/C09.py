"""C09 - turmoil::net UDP delivers datagrams whole, to the right sockets, at most once."""
import json

import fam_udp as F
from pipeline import PropSpec

ANCHORS = [("crates/turmoil/src/net/udp.rs", f) for f in (
    "send", "send_loopback", "try_recv_from", "readable", "recv_from", "join", "leave", "leave_all",
    "destination_addresses", "contains_destination_address", "destination_address", "drop",
    "join_multicast_v4", "leave_multicast_v4", "set_broadcast", "connect")] + [
    ("crates/turmoil/src/host.rs", f) for f in ("receive_from_network", "matches", "is_same",
                                                 "is_broadcast_enabled", "is_multicast_loop_enabled")] + [
    ("crates/turmoil/src/world.rs", "send_message"), ("crates/turmoil/src/top.rs", "enqueue_message")]

CONSTS = [
    ("default_udp_capacity", "crates/turmoil/src/config.rs", r"udp_capacity: (\d+)", "N"),
]

HEADER = "From TV.Lib Require Import Base.\nFrom TV.Udp Require Import Model.\nOpen Scope N_scope.\n"


# ---------------------------------------------------------------------------
# the property on the implementation's observations

def origin_of(sock, host, dst, v6):
    """the true source address of a datagram sent from `sock` of `host` to `dst`"""
    if isinstance(dst, dict) and "lo" in dst:
        return [[1, 1 if v6 else dst["lo"]], sock["port"]]
    if sock["kind"] == "lo":
        return [[1, 1], sock["port"]]
    return [[2, host], sock["port"]]


def udp_oracle(case, obs):
    cfg = case["cfg"]
    n, v6, cap = cfg["nhosts"], cfg.get("v6", False), cfg["cap"]
    out = []
    live = [dict() for _ in range(n)]        # host -> sid -> socket record
    members = {}                             # (g, port) -> list of socket records
    sends = {}                               # payload id -> send record
    nsends = 0
    dead = []
    drained = mark_drained(case, obs)
    t = 0
    by_sid = {}                              # model send id -> send record
    for item in F.walk(case, obs):
        t += 1
        if item[0] == "deliver":
            # a network copy reaches its destination host now: whether the port is bound is
            # judged at ARRIVAL (as the model and the code do), not when it was sent
            _, k, hd, gid = item
            sr = by_sid.get(gid[0])
            if sr is not None and gid[1] < len(sr["enq"]):
                dst = sr["enq"][gid[1]][1]
                sr["arrived"] += [x for x in live[hd].values() if x["port"] == dst[1]]
                sr["timed"].add((hd, dst[1]))
            continue
        if item[0] == "flush":
            # the loopback copies of host h sent before `bound` arrive (end of its next turn)
            _, k, hh, bound = item
            for sid_, sr in by_sid.items():
                if sr["host"] == hh and sid_ < bound and not sr["flushed"]:
                    sr["flushed"] = True
                    for (ah, ap) in sr["addrs"]:
                        if ah == hh:
                            sr["arrived"] += [x for x in live[hh].values() if x["port"] == ap]
                            sr["timed"].add((ah, ap))
            continue
        if item[0] != "cmd":
            continue
        _, k, h, i, cmd, r, s, send_id = item
        if r is None or "panic" in r:
            if r is not None:
                out.append(("step %d host %d %s panicked: %s" % (k, h, cmd, r["panic"]), None))
            continue
        name, sid = cmd[0], cmd[1]
        where = "step %d host %d %s" % (k, h, cmd)
        if name == "bind":
            if "ok" in r:
                rec = {"host": h, "sid": sid, "port": r["ok"], "kind": cmd[2], "bcast": False, "mloop": True,
                       "peers": [(t, None)], "born": t, "died": None, "got": {}}
                dup = [x for x in live[h].values() if x["port"] == rec["port"]]
                if dup:
                    out.append(("%s: bound port %d although a live socket of the host holds it" % (where, rec["port"]), None))
                live[h][sid] = rec
            continue
        rec = live[h].get(sid)
        if rec is None:
            continue
        if name == "connect" and "ok" in r:
            a = cmd[2]
            peer = None if a == "unspec" and False else (F.enc_ip(a, v6), cmd[3])
            rec["peers"].append((t, peer))
        elif name == "set_broadcast" and "ok" in r:
            if not v6:
                rec["bcast"] = bool(cmd[2])
        elif name == "set_mloop" and "ok" in r:
            rec["mloop"] = bool(cmd[2])
        elif name == "join" and "ok" in r:
            ms = members.setdefault((cmd[2], rec["port"]), [])
            if rec not in ms:
                ms.append(rec)
        elif name == "leave":
            ms = members.get((cmd[2], rec["port"]), [])
            if rec in ms:
                if "ok" not in r:
                    out.append(("%s: leaving a joined group failed: %s" % (where, r), None))
                ms.remove(rec)
            elif "ok" in r:
                out.append(("%s: leaving a group that was not joined succeeded" % where, None))
        elif name == "drop" and "ok" in r:
            rec["died"] = t
            dead.append(rec)
            del live[h][sid]
            for ms in members.values():
                if rec in ms:
                    ms.remove(rec)
        elif name == "send":
            nsends += 1
            dst, port, payload = cmd[2], cmd[3], cmd[4]
            pid = (payload[0], payload[1]) if len(payload) >= 2 else ("short", nsends)
            # --- Targets: written from the property text, not from the code path.
            # `addrs` = the (host, port) addresses the send is aimed at; `targets` = the
            # sockets holding such an address at the time of the send.
            addrs = set()
            if dst == "bcast":
                if rec["bcast"]:
                    addrs = {(hh, port) for hh in range(n) if any(x["port"] == port for x in live[hh].values())}
            elif isinstance(dst, dict) and "m" in dst:
                addrs = {(x["host"], x["port"]) for x in members.get((dst["m"], port), []) if x["host"] != h or x["mloop"]}
            elif isinstance(dst, dict) and "lo" in dst:
                addrs = {(h, port)}
            elif isinstance(dst, dict) and "h" in dst:
                addrs = {(dst["h"], port)}
            if rec["kind"] == "lo" and not (isinstance(dst, dict) and "lo" in dst):
                addrs = set()         # a localhost-bound socket has no route off the loopback interface
            targets = [x for hh in range(n) for x in live[hh].values() if (hh, x["port"]) in addrs]
            if dst == "bcast" and not rec["bcast"] and r.get("err") != "PermissionDenied":
                out.append(("%s: broadcast without SO_BROADCAST returned %s" % (where, r), None))
            by_sid[send_id] = sends[pid] = {"enq": r.get("enq", []), "arrived": [], "timed": set(), "flushed": False,
                                            "pid": pid, "t": t, "where": where, "host": h, "sock": rec, "dst": dst, "port": port, "payload": payload,
                          "targets": targets, "addrs": addrs, "origin": origin_of(rec, h, dst, v6),
                          "loopdst": isinstance(dst, dict) and "lo" in dst and (v6 or dst["lo"] == 1), "ok": "ok" in r}
        elif name == "recv" and cmd[3] != "readable":
            buflen = cmd[2]
            if "ok" not in r:
                continue
            nlen, origin, buf = r["ok"]
            if nlen > buflen:
                out.append(("%s: returned length %d exceeds the buffer of %d bytes (a datagram is cut to the receive buffer length)" % (where, nlen, buflen), None))
                continue
            if any(b != 0xEE for b in buf[nlen:]):
                out.append(("%s: bytes beyond the returned length were written" % where, None))
            data = buf[:nlen]
            cands = [s for s in sends.values() if s["payload"][:nlen] == data and min(len(s["payload"]), buflen) == nlen]
            if nlen >= 2:
                sr = sends.get((data[0], data[1]))
                if sr is None or sr not in cands:
                    out.append(("%s: received (len %d, %s) which is no sent payload cut to the buffer length %d" % (where, nlen, data, buflen), None))
                    continue
            else:
                cands = [s for s in cands if (h, rec["port"]) in s["addrs"] and s["origin"] == origin]
                if not cands:
                    out.append(("%s: received %d bytes %s from %s matching no datagram addressed to this socket" % (where, nlen, data, origin), None))
                rec["nrecv"] = rec.get("nrecv", 0) + 1
                if nlen < buflen:
                    # not cut: the whole (0 or 1 byte) payload is known
                    key = (tuple(data), json.dumps(origin))
                    rec.setdefault("short", {})[key] = rec.setdefault("short", {}).get(key, 0) + 1
                else:
                    rec["unidentified"] = rec.get("unidentified", 0) + 1
                continue
            rec["nrecv"] = rec.get("nrecv", 0) + 1
            what = "%s received datagram %s of [%s]" % (where, list(sr["payload"][:2]), sr["where"])
            if (h, rec["port"]) not in sr["addrs"]:
                out.append(("%s but the socket (host %d port %d, bound %s) is not targeted by that send" % (what, h, rec["port"], rec["kind"]), None))
            if origin != sr["origin"]:
                out.append(("%s with origin %s, the sender's address is %s" % (what, origin, sr["origin"]), None))
            if rec["kind"] == "lo" and not sr["loopdst"]:
                out.append(("%s although it is bound to localhost and the datagram was not sent to its loopback address" % what, None))
            # connected-peer filter: a peer set during the whole flight must match the origin
            peers = [p for (pt, p) in rec["peers"] if pt <= sr["t"]]
            later = [p for (pt, p) in rec["peers"] if pt > sr["t"]]
            if not later and peers and peers[-1] is not None:
                pip, pport = peers[-1]
                ok = (pip == [0, 0] and pport == origin[1]) or [pip, pport] == origin
                if not ok:
                    out.append(("%s although the socket is connected to %s" % (what, peers[-1]), None))
            rec["got"][(data[0], data[1])] = rec["got"].get((data[0], data[1]), 0) + 1
            if rec["got"][(data[0], data[1])] > 1:
                out.append(("%s %d times" % (what, rec["got"][(data[0], data[1])]), None))
    # at most once, by count: a socket never hands out more datagrams than were addressed to its address
    everyone = [x for hh in range(n) for x in live[hh].values()] + dead
    for x in everyone:
        addressed = [sr for sr in sends.values() if (x["host"], x["port"]) in sr["addrs"]]
        if x.get("nrecv", 0) > len(addressed):
            out.append(("host %d port %d returned %d datagrams but only %d were ever addressed to it" % (x["host"], x["port"], x.get("nrecv", 0), len(addressed)), None))
    # exactly once: healthy links, capacity never exceeded, socket alive, unfiltered and drained at the end
    if cap >= nsends:
        for x in everyone:
            if x["died"] is not None or len(x["peers"]) > 1 or (x["host"], x["sid"]) not in drained:
                continue
            # expected = the copies that ARRIVED while x held the address (a copy whose arrival
            # was never seen - nothing entered the network for that address - counts from the send)
            expected = [sr for sr in sends.values()
                        if (any(y is x for y in sr["arrived"]) or
                            (any(y is x for y in sr["targets"]) and (x["host"], x["port"]) not in sr["timed"]))
                        and sr["ok"] and not (x["kind"] == "lo" and not sr["loopdst"])]
            if x.get("nrecv", 0) < len(expected):
                lens = sorted(len(sr["payload"]) for sr in expected)
                out.append(("host %d port %d (alive, unconnected, drained, capacity %d not exceeded) was sent %d datagrams (payload lengths %s) over healthy links but returned only %d" % (x["host"], x["port"], cap, len(expected), lens, x.get("nrecv", 0)), None))
            if x.get("unidentified"):
                continue
            for sr in expected:
                pid = sr["pid"]
                if pid[0] == "short":
                    continue
                if x["got"].get(pid, 0) != 1:
                    out.append(("datagram %s of [%s] was received %d times by host %d port %d (healthy links, capacity %d not exceeded, socket drained at the end)" % (list(pid), sr["where"], x["got"].get(pid, 0), x["host"], x["port"], cap), None))
            want = {}
            for sr in expected:
                if sr["pid"][0] == "short":
                    key = (tuple(sr["payload"]), json.dumps(sr["origin"]))
                    want[key] = want.get(key, 0) + 1
            for key, m in want.items():
                g = x.get("short", {}).get(key, 0)
                if g < m:
                    out.append(("host %d port %d: %d datagram(s) with the %d-byte payload %s from %s were sent to it (healthy links, capacity not exceeded) but %d were received" % (x["host"], x["port"], m, len(key[0]), list(key[0]), key[1], g), None))
    return out


def mark_drained(case, obs):
    """sockets whose last command in the script is a recv that found the queue empty"""
    res = F.results_by_cmd(obs)
    last = {}
    for k, st in enumerate(case["steps"]):
        for h, cmds in st.get("hosts", {}).items():
            for i, cmd in enumerate(cmds):
                r = res.get((k, int(h), i)) or {}
                last[(int(h), cmd[1])] = (cmd[0] == "recv" and cmd[3] == "try" and r.get("err") == "WouldBlock" and k == len(case["steps"]) - 1)
    return {k for k, v in last.items() if v}


class Spec(PropSpec):
    pid = "C09"
    subsys = "Udp"
    props_file = "C09.v"
    theorems = ["c09_reachable_wf", "c09_routes_sound", "c09_at_most_once", "c09_routes_complete", "c09_exact",
                "c09_drop_isolated", "c09_membership_at_send_time", "c09_clip", "c09_readable_keeps_order",
                "c09_sound", "c09_received_at_most_once", "c09_sent_log", "c09_membership", "c09_mloop_only_multicast", "c09_consts", "c09_nonvacuous", "c09_empty_datagram", "c09_broadcast_ignores_mloop"]
    consts = CONSTS
    anchors = ANCHORS
    harness_bins = ["udp"]
    coq_header = HEADER
    model_name = "TV.Udp.Model"
    rule = ("scripts = bind (wildcard / localhost, fixed / ephemeral port) / connect / set_broadcast / set_multicast_loop / join / "
            "leave / send (remote, same host, 127.0.0.x, broadcast, multicast, unowned address; send_to and try_send_to) / "
            "recv (try_recv_from, recv_from polled once, readable) with buffers of 0..64 bytes / drop on 2-4 hosts, IPv4 and IPv6, "
            "a deterministic send-before-bind family (same-host paths and the network reference; the receiver binds in the same tick, the next tick or too late - an unbound port is judged when the datagram ARRIVES); a deterministic option x destination-class matrix (SO_BROADCAST and multicast-loop on/off on sender, local and remote receiver, for broadcast / multicast / remote / same-host / loopback sends); payload lengths from 0; a deterministic boundary family sends payloads of 0, 1, b-1, b, b+1 bytes for buffers b in {0,1,2,5} to every destination class and reads them on each receive path; "
            "udp_capacity 1..64 with slow receivers, latencies 0..6 ms that reorder, random host order; payloads carry a unique id; "
            "a case is non-trivial when some send has two or more targets or a targeted datagram was dropped; "
            "distinct = distinct (hosts, capacity, script)")
    assumptions = [
        "the network (which in-flight datagram is delivered when, or lost) is an input of the model: Deliver / Lose / LoopFlush events, computed for the correspondence from the verif-hooks decision log (sampled delays, host order); theorems quantify over all schedules",
        "ephemeral port numbers are taken from the implementation's local_addr (their allocation is C15)",
        "tokio's mpsc channel is modelled as a bounded FIFO, the rx mutex as always free (one task per socket)",
        "IPv4 interface arguments other than INADDR_ANY and non-multicast group addresses (input validation) are not modelled",
    ]

    def gen_cases(self, ctx):
        nrand = 330 if ctx.tier == "quick" else 4000
        if ctx.escalate:
            nrand *= 2
        ex = F.exhaustive_routing()
        if ctx.tier == "quick":
            ex = ctx.rng.sample(ex, 120)
        cases = ex + F.boundary_cases() + F.send_before_bind_cases() + [F.gen_udp_script(ctx.rng) for _ in range(nrand)]
        ctx.rng.shuffle(cases)
        return cases

    def to_model(self, case, obs):
        return F.to_model(case, obs)

    def compare(self, case, obs, model, probes):
        return F.compare(case, obs, model, probes)

    def oracle(self, case, obs):
        if obs.get("panic"):
            return []
        return udp_oracle(case, obs)

    def nontrivial(self, case, obs):
        if obs.get("panic"):
            return False
        multi = 0
        for r in obs.get("res", []):
            if len(r[3].get("enq", [])) >= 2:
                multi += 1
        return multi > 0 or any(r[3].get("err") in ("PermissionDenied", "ConnectionRefused") for r in obs.get("res", []))

    def signature(self, case):
        return F.case_signature(case)

    def histogram(self, cases):
        return F.histogram(cases)


SPEC = Spec()
