"""C08 - held links deliver nothing until released, then everything exactly once in order."""
import fam_link as F
from pipeline import PropSpec
from C03 import LINK_ANCHORS, LINK_CONSTS, HEADER


def pair(a, b):
    return (min(a, b), max(a, b))


def c08_oracle(case, obs):
    tl = F.timeline(case, obs)
    tick = case["cfg"]["tick_us"] * 1000
    held_link = {}
    st = {}          # id -> dict(src,dst,state,mature,order,batch)
    out = []
    order = 0
    batch = 0
    last_view = {}
    recv_seq = []
    due_step = {}     # id -> step in which a manually delivered message must be handed over
    for ev in tl:
        k = ev[0]
        if k == "call":
            _, name, a, b, t = ev
            p = pair(a, b)
            if name == "hold":
                held_link[(a, b)] = held_link[(b, a)] = True
                for i in [i for i, m in st.items() if pair(m["src"], m["dst"]) == p and m.get("resched") == t]:
                    due_step.pop(i, None)      # re-held before the tick
                for i, m in st.items():
                    # still in `sent`: latency not elapsed, or rescheduled (release / manual
                    # delivery) with no tick or send on the link since
                    if pair(m["src"], m["dst"]) == p and m["state"] == "flight" and (
                            m["mature"] > t or (m.get("resched") == t)):
                        m["state"], m["batch"] = "held", None
            elif name == "release":
                held_link[(a, b)] = held_link[(b, a)] = False
                batch += 1
                for i, m in st.items():
                    if pair(m["src"], m["dst"]) == p and m["state"] == "held":
                        m["state"], m["mature"], m["batch"], m["resched"] = "flight", t, batch, t
            elif name == "repair":
                # "repair the link, without releasing any held messages": new sends flow again,
                # what is parked stays parked until release / manual delivery
                held_link[(a, b)] = held_link[(b, a)] = False
            elif name == "repair_oneway":
                held_link[(a, b)] = False
            elif name in ("partition", "partition_oneway"):
                return []   # outside C08's alphabet
        elif k == "send":
            _, src, dst, i, step, t, delay, rnd, rep = ev
            order += 1
            for m2 in st.values():      # a send runs process_deliverables on that link
                if pair(m2["src"], m2["dst"]) == pair(src, dst):
                    m2["resched"] = None
            m = {"src": src, "dst": dst, "order": order, "batch": None}
            if held_link.get((src, dst)):
                m["state"], m["mature"] = "held", None
            elif delay is None:
                m["state"], m["mature"] = "dropped", None
            else:
                m["state"], m["mature"] = "flight", t + delay
            st[i] = m
        elif k == "view":
            last_view = {}
            for a, b, ids in (ev[1] or []):
                last_view[pair(a, b)] = [x[0] for x in ids]
                # held messages must be listed, listed messages must be sent and not yet received, in send order
                listed = [x[0] for x in ids]
                for i, m in st.items():
                    if pair(m["src"], m["dst"]) == pair(a, b) and m["state"] == "held" and i not in listed:
                        out.append(("links() at step %d does not show held message %d on link (%d,%d)" % (ev[2], i, a, b), None))
                    # released / manually delivered since the last tick and no send on the link since: rescheduled
                    # for "now" but still in flight (nobody received it) until the next tick
                    if (pair(m["src"], m["dst"]) == pair(a, b) and m["state"] == "flight" and len(ev) > 3
                            and m.get("resched") is not None and m.get("resched") == ev[3] and i not in listed):
                        out.append(("links() at step %d does not show message %d on link (%d,%d) which was released / manually "
                                    "delivered in this step and has not been handed to its destination yet" % (ev[2], i, a, b), None))
                for i in listed:
                    if i not in st or st[i]["state"] in ("received", "dropped"):
                        out.append(("links() at step %d shows message %d which is not in flight" % (ev[2], i), None))
                os_ = [st[i]["order"] for i in listed if i in st]
                if os_ != sorted(os_):
                    out.append(("links() at step %d lists link (%d,%d) out of send order: %s" % (ev[2], a, b, listed), None))
        elif k == "manual":
            _, name, a, b, kk, t = ev
            ids = last_view.get(pair(a, b), [])
            batch += 1
            sel = ids if name == "deliver_all" else (ids[kk:kk + 1] if kk is not None else [])
            for i in sel:
                if i in st and st[i]["state"] in ("held", "flight"):
                    st[i]["state"] = "flight"
                    st[i]["mature"] = t if st[i]["mature"] is None else min(t, st[i]["mature"])
                    st[i]["resched"] = t
                    due_step[i] = t // tick        # matures at the tick of this very step
        elif k == "recv":
            _, h, i, step, el, frm = ev
            m = st.get(i)
            now = (step + 1) * tick
            if m is None:
                out.append(("host h%d received unknown message %d" % (h, i), None))
                continue
            if m["state"] == "received":
                out.append(("message %d delivered twice" % i, None))
            elif m["state"] == "held":
                out.append(("message %d (h%d->h%d) delivered to h%d at step %d while its link is held and it was neither released nor manually delivered" % (i, m["src"], m["dst"], h, step), None))
            elif m["state"] == "flight" and m["mature"] > now:
                out.append(("message %d delivered at step %d (link time %d ns) before its latency elapsed (%d ns)" % (i, step, now, m["mature"]), None))
            if i in due_step and step > due_step[i]:
                out.append(("message %d was delivered manually through Sim::links before step %d but was handed to h%d only at step %d" % (i, due_step[i], h, step), None))
            if m["dst"] != h or m["src"] != frm:
                out.append(("message %d from h%d to h%d arrived at h%d reported from h%d" % (i, m["src"], m["dst"], h, frm), None))
            m["state"] = "received"
            recv_seq.append(i)
    for i, m in st.items():
        if m["state"] not in ("received",):
            out.append(("message %d (h%d->h%d) was never delivered although every link was released and drained (state %s)" % (i, m["src"], m["dst"], m["state"]), None))
    # messages released together arrive in send order per direction
    pos = {i: n for n, i in enumerate(recv_seq)}
    by = {}
    for i, m in st.items():
        if m["batch"] is not None and i in pos:
            by.setdefault((m["batch"], m["src"], m["dst"]), []).append(i)
    for key, ids in by.items():
        ids.sort(key=lambda i: st[i]["order"])
        ps = [pos[i] for i in ids]
        if ps != sorted(ps):
            out.append(("messages %s released together on h%d->h%d arrived out of send order" % (ids, key[1], key[2]), None))
    return out


def c08_nontrivial(case, obs):
    n_hold = sum(1 for st in case["steps"] for a in st["ctl"] if a[0] == "hold")
    n_send = sum(1 for st in case["steps"] for cmds in st.get("hosts", {}).values() for c in cmds if c[0] == "send")
    return n_hold > 0 and n_send > 0


class Spec(PropSpec):
    pid = "C08"
    subsys = "Link"
    props_file = "C08.v"
    theorems = ["c08_held_not_delivered", "c08_hold_parks", "c08_send_while_held_parks", "c08_at_most_once",
                "c08_conservation", "c08_exactly_once", "c08_release_order", "c08_links_view", "c08_unheld_links_untouched", "c08_topology_at_most_once", "c08_topology_mass", "c08_topology_held_not_delivered",
                "c08_nonvacuous"]
    consts = LINK_CONSTS
    anchors = LINK_ANCHORS + [("crates/turmoil/src/top.rs", "deliver_all"), ("crates/turmoil/src/top.rs", "deliver")]
    harness_bins = ["link"]
    coq_header = HEADER
    model_name = "TV.Link.Model"
    rule = ("scripts = hold/release (Sim handle and host code, by name/ip/regex), Sim::links inspection and manual "
            "delivery of single messages / whole links, interleaved with uniquely numbered UDP datagrams on 2-4 hosts, "
            "random latencies and host order, final release+drain; non-trivial = at least one hold and one send; "
            "distinct = distinct (hosts, script)")
    assumptions = [
        "sampled latency multiplier is an input of the model (read from the verif-hooks decision log)",
        "TCP traffic (handshake/FIN segments on held links) is covered by the Stream/Conn models (C02, C12), not by the Link correspondence, which uses UDP carriers",
    ]

    def gen_cases(self, ctx):
        n = 400 if ctx.tier == "quick" else 3000
        if ctx.escalate:
            n *= 2
        return ([F.gen_hold_script(ctx.rng) for _ in range(n)] + [F.gen_tcp_script(ctx.rng, "hold") for _ in range(n // 5)]
                + [F.gen_mixed_script(ctx.rng) for _ in range(n // 5)])

    def to_model(self, case, obs):
        return F.to_model(case, obs)

    def compare(self, case, obs, model, probes):
        return F.compare(case, obs, model, probes)

    def oracle(self, case, obs):
        if obs.get("panic"):
            return []
        if case.get("flavour") == "mixed":
            return []       # outside C08's alphabet: correspondence with the model only
        if case["cfg"].get("tcp"):
            return F.tcp_oracle(case, obs, "hold")
        return c08_oracle(case, obs)

    def nontrivial(self, case, obs):
        if case["cfg"].get("tcp"):
            return len(obs.get("tcp_recv", [])) > 0
        return c08_nontrivial(case, obs)

    def signature(self, case):
        return F.case_signature(case)

    def shrink_range(self, case):
        return F.shrink_range(case)

    def histogram(self, cases):
        return F.histogram(cases)


SPEC = Spec()
