"""C04 - a crashed host stops dead, releases everything, and restarts cleanly."""
import fam_crash as FC
import fam_simcore as F
from pipeline import PropSpec

MS = F.MS
NH = FC.NH

ANCHORS = [("crates/turmoil/src/sim.rs", f) for f in ("crash", "bounce", "run_with_hosts", "step", "is_host_running")] + [
    ("crates/turmoil/src/rt.rs", f) for f in ("crash", "bounce", "cancel_tasks", "tick", "is_software_running", "init")] + [
    ("crates/turmoil/src/host.rs", f) for f in ("unbind", "close_stream_half", "reset_stream", "receive_from_network", "new_stream")] + [
    ("crates/turmoil/src/net/udp.rs", f) for f in ("drop", "leave_all")] + [
    ("crates/turmoil/src/net/tcp/listener.rs", f) for f in ("drop", "accept")] + [
    ("crates/turmoil/src/net/tcp/stream.rs", f) for f in ("drop", "connect")]

# (former known-finding classes WriterBlockedFullWindow and AcceptedWhileConnectPending were repaired in
#  /repo by df5434b, 2342d63 and 48e101e: their cases are plain violations now)

HEADER = ("From TV.Lib Require Import Base.\nFrom TV.SimCore Require Import Model TokioClock Tables.\n"
          "Open Scope N_scope.\n")


# ---- oracle for the timer-only scripts (family simcore) ------------------------------

def simcore_oracle(case, obs):
    out = []
    incs, evinfo = F.incarnations(case, obs)
    nreg = 0
    starts_expected = {}
    alive_inc = {}                       # (host, inc) -> guards created - dropped (from drops we only know drops)
    drops_by = {}
    for d in obs.get("drops", []):
        drops_by.setdefault((d[0], d[1]), []).append((d[2], d[3]))
    kinds = []
    for k, ev in enumerate(case["script"]):
        if k >= len(evinfo):
            break
        o = evinfo[k]["o"]
        name = ev[0]
        if name in ("client", "host"):
            starts_expected[nreg] = 1
            kinds.append(name == "client")
            nreg += 1
        elif name in ("crash", "bounce"):
            if o.get("r") != "ok":
                # Rt::crash / Rt::bounce panic for a client; nothing to judge afterwards
                hs = F.sel_hosts(ev[1], nreg)
                if not any(kinds[h] for h in hs if h < len(kinds)):
                    out.append(("event %d (%s) panicked although only hosts were selected: %s" % (k, name, o.get("r")), None))
                break
            if name == "bounce":
                for h in F.sel_hosts(ev[1], nreg):
                    starts_expected[h] += 1
        elif name == "probe":
            for h in range(nreg):
                if o["starts"][h] != starts_expected[h]:
                    out.append(("event %d (probe): software of n%d was started %d times, %d bounce/registration calls named it" % (
                        k, h, o["starts"][h], starts_expected[h]), None))
    # every incarnation ended by crash/bounce: all its guards dropped in that very call,
    # nothing of it runs afterwards
    markers = F.end_markers(obs)
    for d in incs:
        x = d["killed_ev"]
        if x is None or x >= len(evinfo) or evinfo[x]["o"].get("r") != "ok":
            continue
        key = (d["host"], d["inc"])
        m = markers.get(key)
        finished_before = m is not None and m[0] < x
        prog = d["prog"]
        ntasks = 1 + F.n_guarded_tasks(prog) + (1 if prog.get("ticker") else 0)
        polled = any(evinfo[i]["name"] == "step" and evinfo[i]["o"]["r"].startswith("ok")
                     for i in range(d["start_ev"] + 1, x))
        dropped = drops_by.get(key, [])
        late = [t for (t, evi) in dropped if evi > x]
        if late and not finished_before:
            out.append(("n%d incarnation %d: task guards %s were dropped after the crash/bounce call (event %d) returned" % (key[0], key[1], late, x), None))
        if polled and not finished_before:
            at_call = [t for (t, evi) in dropped if evi <= x]
            if len(at_call) != ntasks:
                out.append(("n%d incarnation %d: %d of its %d task destructors had run when crash/bounce (event %d) returned" % (
                    key[0], key[1], len(at_call), ntasks, x), None))
        for e in obs.get("log", []):
            if (e[0], e[1]) == key and e[5] > x:
                out.append(("n%d incarnation %d read a clock in event %d, after it was crashed/bounced in event %d" % (key[0], key[1], e[5], x), None))
                break
    # workers started synchronously by the software factory (spawn_local and tokio::spawn) run in every
    # incarnation that gets at least one step
    lw = {(x[0], x[1]) for x in obs.get("local_worker_runs", [])}
    sw_ = {(x[0], x[1]) for x in obs.get("spawn_worker_runs", [])}
    for d in incs:
        if d["client"] or not d["prog"].get("factory_workers"):
            continue
        x = d["killed_ev"] if d["killed_ev"] is not None else len(evinfo)
        polled = any(evinfo[i]["name"] == "step" and evinfo[i]["o"]["r"].startswith("ok") for i in range(d["start_ev"] + 1, min(x, len(evinfo))))
        if not polled:
            continue
        key = (d["host"], d["inc"])
        for nm, got in (("spawn_local", lw), ("tokio::spawn", sw_)):
            if key not in got:
                out.append(("n%d incarnation %d (started in event %d): the worker its software factory started with %s never ran" % (
                    d["host"], d["inc"], d["start_ev"], nm), None))
    # Builder::enable_tokio_io: every incarnation runs on a runtime configured like the first one
    first = {}
    for x in obs.get("io_probes", []):
        host, inc_, evi, r = x
        if r == "nobind":
            continue
        if host not in first:
            first[host] = (inc_, r)
            if case["cfg"].get("tokio_io") and r != "ok":
                out.append(("n%d incarnation %d: the tokio IO driver is missing although enable_tokio_io() was set" % (host, inc_), None))
        elif r != first[host][1]:
            out.append(("n%d incarnation %d (started in event %d): tokio IO driver %s, but %s in incarnation %d: the software was not restarted "
                        "on a runtime configured like the first one" % (host, inc_, evi, r, first[host][1], first[host][0]), None))
    # probes: a crashed host is not running, has no live guard; others as expected
    dead = {}
    nreg = 0
    for k, ev in enumerate(case["script"]):
        if k >= len(evinfo):
            break
        name = ev[0]
        o = evinfo[k]["o"]
        if name in ("client", "host"):
            nreg += 1
        elif name == "crash" and o.get("r") == "ok":
            for h in F.sel_hosts(ev[1], nreg):
                dead[h] = k
        elif name == "bounce" and o.get("r") == "ok":
            for h in F.sel_hosts(ev[1], nreg):
                dead.pop(h, None)
        elif name == "probe":
            for h, x in dead.items():
                if o["running"][h]:
                    out.append(("event %d (probe): n%d is running although it was crashed in event %d and not bounced" % (k, h, x), None))
                if o["alive"][h] != 0 and not finished_before_crash(incs, obs, h, x):
                    out.append(("event %d (probe): n%d still has %d live task guards after its crash in event %d" % (k, h, o["alive"][h], x), None))
    return out


def finished_before_crash(incs, obs, h, x):
    """Hosts whose main future had already returned are outside the claim."""
    markers = F.end_markers(obs)
    for d in incs:
        if d["host"] == h and d["killed_ev"] == x:
            m = markers.get((h, d["inc"]))
            return m is not None and m[0] < x
    return True


# ---- oracle for the network workload (family crash) -------------------------------------

def crash_oracle(case, obs):
    out = FC.bg_panic_oracle(case, obs)
    evs = obs["evs"]
    tick = case["cfg"]["tick_ms"] * MS
    lat = case["cfg"]["lat_ms"] * MS
    slack = lat // tick + 3                 # steps within which a peer must have been unblocked
    slack2 = 2 * (-(-lat // tick)) + 4      # ... when a segment in flight to the crashed host has to be answered first
    faults = FC.fault_events(case, obs)
    nev = len(evs)
    inc = [0] * NH
    down_since = {}
    log = obs["log"]
    for (k, name, victims, before, after, r) in faults:
        if r != "ok" or before is None or after is None:
            out.append(("event %d (%s %s): %s" % (k, name, victims, r), None))
            break
        crash_time = before["elapsed"]
        for h in range(NH):
            b, a = before["hosts"][h], after["hosts"][h]
            if h not in victims:
                if b != a:
                    out.append(("event %d (%s of %s) changed uninvolved host n%d: %s -> %s" % (k, name, victims, h, b, a), None))
                continue
            # --- the victim -------------------------------------------------------
            if a["alive"] != 0:
                out.append(("event %d (%s): n%d still has %d live task guards when the call returns" % (k, name, h, a["alive"]), None))
            if a["objs"]:
                out.append(("event %d (%s): socket objects of n%d survived the call: %s" % (k, name, h, a["objs"]), None))
            for tab in ("udp", "tcp", "streams", "mcast"):
                if a[tab]:
                    out.append(("event %d (%s): n%d keeps %s entries %s after the call" % (k, name, h, tab, a[tab]), None))
            if name == "crash":
                if a["running"]:
                    out.append(("event %d: n%d is still running after crash" % (k, h), None))
                if a["starts"] != b["starts"]:
                    out.append(("event %d: crash started software of n%d" % (k, h), None))
                if b["running"]:
                    down_since[h] = k
            else:
                if not a["running"]:
                    out.append(("event %d: n%d is not running after bounce" % (k, h), None))
                if a["starts"] != b["starts"] + 1:
                    out.append(("event %d: bounce started the software of n%d %d times" % (k, h, a["starts"] - b["starts"]), None))
                down_since.pop(h, None)
            if b["running"]:
                old = b["starts"] - 1
                late = [e for e in log if e[0] == h and e[1] == old and e[6] > k]
                if late:
                    out.append(("event %d (%s): incarnation %d of n%d still ran afterwards: %s" % (k, name, old, h, late[0]), None))
                ld = [d for d in obs["drops"] if d[0] == h and d[1] == old and d[3] > k]
                if ld:
                    out.append(("event %d (%s): destructors of n%d incarnation %d ran only later: %s" % (k, name, h, old, ld[:2]), None))
        # --- peers of a crashed / bounced server are unblocked ---------------------------
        if 0 in victims and before["hosts"][0]["running"] and 1 not in victims and before["hosts"][1]["running"]:
            later_client_fault = any(kk > k and 1 in vv for (kk, _, vv, _, _, _) in faults)
            steps_after = sum(1 for e in evs[k + 1:] if e["k"] == "step")
            # steps during which the client itself ran: all of them unless it is hit later
            if not later_client_fault and steps_after >= slack + 2:
                cstreams = {tuple(p) for p in before["hosts"][1]["streams"]}
                sports = {p[2]: p for p in cstreams}
                cobjs = [d for d in before["hosts"][1]["objs"] if d[0] == "stream"]
                for (task, port, style) in FC.PEER_TASKS:
                    lp = FC.task_lport(obs, task, before["hosts"][1]["starts"] - 1)
                    est = [d for d in cobjs if d[3] == port and d[1] == lp]
                    sside = [p for p in before["hosts"][0]["streams"] if p[0] == port and p[2] == lp]
                    if est and sside:
                        e = FC.peer_end(obs, task, before["hosts"][1]["starts"] - 1)
                        # (a writer whose data was still in flight at the crash is answered by the crashed host's
                        # stack one latency later, fix 2342d63: allow for the round trip)
                        in_flight = task == "C" and FC.c_data_in_flight(case, obs, before["hosts"][1]["starts"] - 1, crash_time)
                        bound = slack2 if (in_flight or task == "W") else slack
                        if e is None:
                            out.append(("event %d (%s n0): client task %s (%s) was connected to port %d and is still blocked at the end of the run%s" % (
                                k, name, task, style, port, " (its data was in flight at the crash: the crashed host must answer it with a reset)" if in_flight else ""), None))
                        elif e[2] > k and steps_between(evs, k, e[2]) > bound:
                            out.append(("event %d (%s n0): client task %s was unblocked only %d steps later" % (k, name, task, steps_between(evs, k, e[2])), None))
                        elif e[2] > k and e[0] not in ("eof", "UnexpectedEof", "ConnectionReset", "BrokenPipe"):
                            out.append(("event %d (%s n0): client task %s ended with %s" % (k, name, task, e[0]), None))
                # the burst port: both clients (peek + read_exact, plain reads) must reach the end of
                # their stream once they keep reading
                cap = case["cfg"].get("tcp_capacity", 64)
                cinc_b = before["hosts"][1]["starts"] - 1
                for task in ("G", "H"):
                    conn = [x for x in log if x[0] == 1 and x[1] == cinc_b and x[2] == task and x[3] == "connect" and x[4] == "ok" and x[6] < k]
                    if not conn:
                        continue
                    lp = conn[0][5]
                    if [9004, 1, lp] not in before["hosts"][0]["streams"] or [lp, 0, 9004] not in before["hosts"][1]["streams"]:
                        continue
                    drain = [x for x in log if x[0] == 1 and x[1] == cinc_b and x[2] == task and x[3] == "drain"]
                    end = [x for x in log if x[0] == 1 and x[1] == cinc_b and x[2] == task and x[3] == "end"]
                    if not drain:
                        continue
                    start = max(k, drain[0][6])
                    after_start = steps_between(evs, start, nev - 1)
                    if not end and after_start > slack + 2:
                        out.append(("event %d (%s n0): client task %s (%s) drains its stream to the crashed server since event %d and is still "
                                    "blocked %d steps later at the end of the run (tcp_capacity %d)" % (
                                        k, name, task, "peek + read_exact" if task == "G" else "plain reads", drain[0][6], after_start, cap), None))
                    elif end and end[0][6] > start and steps_between(evs, start, end[0][6]) > slack + 2:
                        out.append(("event %d (%s n0): client task %s reached the end of its stream only %d steps after it could" % (
                            k, name, task, steps_between(evs, start, end[0][6])), None))
                    elif end and end[0][4] not in ("eof", "UnexpectedEof", "ConnectionReset", "BrokenPipe"):
                        out.append(("event %d (%s n0): client task %s ended with %s" % (k, name, task, end[0][4]), None))
                # connects queued at the listener that never accepts
                cinc = before["hosts"][1]["starts"] - 1
                for e in log:
                    srv_up_since_try = not any(e[6] <= kk < k and 0 in vv for (kk, _, vv, _, _, _) in faults)
                    if (e[0] == 1 and e[1] == cinc and e[2] == "B" and e[3] == "try" and e[6] < k
                            and e[7] + lat + tick <= crash_time and srv_up_since_try):
                        res = [x for x in log if x[0] == 1 and x[1] == e[1] and x[2] == "B" and x[3] == "connect" and x[4] == e[4]]
                        if not res:
                            out.append(("event %d (%s n0): connect #%d queued at port 9001 is still pending at the end of the run" % (k, name, e[4]), None))
                        elif res[0][5] != "ConnectionRefused":
                            out.append(("event %d (%s n0): connect #%d queued at port 9001 ended with %s" % (k, name, e[4], res[0][5]), None))
                        elif steps_between(evs, k, res[0][6]) > slack:
                            out.append(("event %d (%s n0): connect #%d queued at port 9001 was refused only %d steps later" % (
                                k, name, e[4], steps_between(evs, k, res[0][6])), None))
        # --- mirrored roles: the server (accepting side) is the peer of a crashed / bounced client ----
        if 1 in victims and before["hosts"][1]["running"] and 0 not in victims and before["hosts"][0]["running"]:
            later_server_fault = any(kk > k and 0 in vv for (kk, _, vv, _, _, _) in faults)
            steps_after = sum(1 for e in evs[k + 1:] if e["k"] == "step")
            if not later_server_fault and steps_after >= slack + 3:
                sinc = before["hosts"][0]["starts"] - 1
                cstreams = before["hosts"][1]["streams"]
                # the writers parked on the full window of a client that never reads (ports 9005 and 9007)
                for (pname, pport, pstyle) in FC.PUSH_TASKS:
                  for x in log:
                    if not (x[0] == 0 and x[1] == sinc and x[2] == pname and x[3] == "accepted" and x[6] < k):
                        continue
                    rp = x[4]
                    if [pport, 1, rp] not in before["hosts"][0]["streams"] or [rp, 0, pport] not in cstreams:
                        continue
                    in_flight = crash_time < FC.delivered_by(case, x[7])
                    end = [y for y in log if y[0] == 0 and y[1] == sinc and y[2] == pname and y[3] == "end" and y[5] == rp]
                    if not end:
                        out.append(("event %d (%s n1): the server task writing (%s) to the stream accepted from n1 port %d (a client that never "
                                    "reads, window of %d segments) is still blocked at the end of the run" % (
                                        k, name, pstyle, rp, case["cfg"].get("tcp_capacity", 64)), None))
                    elif end[0][6] > k and steps_between(evs, k, end[0][6]) > (slack2 if in_flight else slack + 1):
                        out.append(("event %d (%s n1): the server task writing (%s) to the stream accepted from n1 port %d was unblocked only %d steps later" % (
                            k, name, pstyle, rp, steps_between(evs, k, end[0][6])), None))
                    elif end[0][4] not in ("BrokenPipe", "ConnectionReset"):
                        out.append(("event %d (%s n1): the server task writing to n1 port %d ended with %s" % (k, name, rp, end[0][4]), None))
                # the readers on accepted streams (echo connection, reader half of the split stream) see the end
                last = None
                for e in evs[k + 1:]:
                    for key in ("after", "snap"):
                        if isinstance(e.get(key), dict):
                            last = e[key]
                if last is not None:
                    for d in before["hosts"][0]["objs"]:
                        if d[0] == "stream" and d[2] == 1 and [d[3], 0, d[1]] in cstreams and (
                                (d[1] == 9000 and d[4] == "whole") or (d[1] == 9003 and d[4] == "read")):
                            if d in last["hosts"][0]["objs"]:
                                # the client's end: a TcpStream object, or only the table entry of a connect() that has
                                # not returned yet (the server accepted in the last step, the client was not polled since)
                                cobj = any(x[0] == "stream" and x[1:4] == [d[3], 0, d[1]] for x in before["hosts"][1]["objs"])
                                out.append(("event %d (%s n1): the server task reading the stream accepted on port %d from n1 port %d still "
                                            "holds it at the end of the run (never saw EOF / reset)%s" % (
                                                k, name, d[1], d[3], "" if cobj else "; the client's connect() had not returned yet (ConnectGuard)"),
                                            None))
    # --- while down: no effect attributable to the host ---------------------------------------
    # replies to datagrams the client sent after the server went down
    down = None
    for k, e in enumerate(evs):
        for (kk, name, victims, before, after, r) in faults:
            if kk == k and 0 in victims and r == "ok":
                if name == "crash":
                    down = (k, before["elapsed"]) if down is None else down
                else:
                    down = None
        if down is not None:
            for x in log:
                if x[0] == 1 and x[2] == "E" and x[3] == "recv" and x[6] == k and x[6] > down[0]:
                    sent_at = (x[4] % 1000) * tick
                    if sent_at >= down[1] + tick:
                        out.append(("event %d: the client received a reply to datagram %d (sent at %d ns) while n0 is down since event %d" % (
                            k, x[4], sent_at, down[0]), None))
    # --- destructors that look for a runtime (async-drop idiom) ---------------------------------------
    # nothing a dying incarnation's destructors spawn may ever run, and the values owned by its local
    # tasks are dropped outside of any runtime (in particular not inside the next incarnation's)
    for g in obs.get("ghost_runs", []):
        out.append(("a task spawned by a destructor of n%d incarnation %d (value owned by a %s task, dropped in event %d) ran in event %d: "
                    "code of a crashed / replaced incarnation executes" % (g[0], g[1], "spawn_local" if g[2] == 0 else "tokio::spawn", g[3], g[4]), None))
    fault_idx = {k: (name, victims) for (k, name, victims, before, after, r) in faults if r == "ok"}
    for d in obs.get("spawn_drops", []):
        host, inc_, owner, evi, present = d
        if evi in fault_idx and owner == 0 and present:
            out.append(("event %d (%s): the destructor of a value owned by a spawn_local task of n%d incarnation %d found a tokio runtime "
                        "(Handle::try_current() is Ok): it runs inside a runtime that outlives the incarnation" % (evi, fault_idx[evi][0], host, inc_), None))
    for (k, name, victims, before, after, r) in faults:
        if r != "ok" or before is None:
            continue
        for h in victims:
            if h in (0, 1) and before["hosts"][h]["running"]:
                old = before["hosts"][h]["starts"] - 1
                polled = any(e[0] == h and e[1] == old for e in log)
                got = {d[2] for d in obs.get("spawn_drops", []) if d[0] == h and d[1] == old and d[3] == k}
                if polled and got != {0, 1}:
                    out.append(("event %d (%s): of the two runtime-seeking values of n%d incarnation %d only those owned by %s were dropped by the call" % (
                        k, name, h, old, sorted(got)), None))
    # --- the loopback connection inside n0 works in every incarnation that lives long enough ---------------
    life = {}
    for x in log:
        if x[0] == 0:
            life.setdefault(x[1], [x[6], x[6]])[1] = x[6]
    ends = {}
    for (k, name, victims, before, after, r) in faults:
        if 0 in victims and r == "ok" and before["hosts"][0]["running"]:
            ends.setdefault(before["hosts"][0]["starts"] - 1, k)
    for inc_, (first, lastev) in life.items():
        until = ends.get(inc_, len(evs) - 1)
        nst = steps_between(evs, first, until)
        lo = [x for x in log if x[0] == 0 and x[1] == inc_ and x[2] == "lo"]
        bad = [x for x in lo if x[3] == "end" or (x[3] in ("bind", "connect") and x[4 if x[3] == "connect" else 5] != "ok")]
        if bad:
            out.append(("n0 incarnation %d: its loopback connection failed: %s" % (inc_, bad[0][2:6]), None))
        elif nst >= 8 and not any(x[3] == "echo" for x in lo):
            out.append(("n0 incarnation %d ran for %d steps without a single echo over its loopback connection (%s)" % (inc_, nst, [x[3] for x in lo]), None))
    # --- multicast: the other members of a group survive the crash / bounce of one member ---------
    members = [0] + list(case["cfg"].get("mc_members", []))
    for (k, name, victims, before, after, r) in faults:
        if r != "ok" or before is None or after is None:
            continue
        for m in members:
            if m in victims:
                continue
            if before["hosts"][m]["mcast"] and after["hosts"][m]["mcast"] != before["hosts"][m]["mcast"]:
                out.append(("event %d (%s of %s): multicast memberships of the untouched member n%d went from %s to %s" % (
                    k, name, victims, m, before["hosts"][m]["mcast"], after["hosts"][m]["mcast"]), None))
    # ... and keeps receiving what is sent to the group (the client sends id 1000+i at i * tick)
    if not any(1 in vv for (_, _, vv, _, _, _) in faults) and evs:
        end_time = 0
        for e in evs:
            for key in ("before", "after", "snap"):
                if isinstance(e.get(key), dict):
                    end_time = max(end_time, e[key]["elapsed"])
        nsteps = sum(1 for e in evs if e["k"] == "step")
        end_time = max(end_time, nsteps * tick)
        for m in members:
            if m == 0 or any(m in vv for (_, _, vv, _, _, _) in faults):
                continue
            joined = [x for x in log if x[0] == m and x[2] == "mc" and x[3] == "join"]
            if not joined or not joined[0][4]:
                continue
            t_join = joined[0][7]
            got = {x[4] for x in log if x[0] == m and x[2] == "mc" and x[3] == "recv"}
            i = 0
            while i * tick + lat + 2 * tick <= end_time:
                if i * tick >= t_join + tick and (1000 + i) not in got:
                    out.append(("member n%d of the multicast group never received datagram %d sent to the group at %d ns "
                                "(it joined at %d ns and was never crashed or bounced; faults: %s)" % (
                                    m, 1000 + i, i * tick, t_join, [(kk, nn, vv) for (kk, nn, vv, _, _, _) in faults]), None))
                    break
                i += 1
    # --- a connection attempt that reaches a crashed host is refused, it does not stay pending ----------
    if not any(1 in vv for (_, _, vv, _, _, _) in faults):
        spans = []                      # [crash elapsed, bounce elapsed or None] of n0
        cur = None
        for (k, name, victims, before, after, r) in faults:
            if 0 in victims and r == "ok":
                if name == "crash" and before["hosts"][0]["running"] and cur is None:
                    cur = before["elapsed"]
                elif name == "bounce" and cur is not None:
                    spans.append((cur, before["elapsed"]))
                    cur = None
        end_time = sum(1 for e in evs if e["k"] == "step") * tick
        if cur is not None:
            spans.append((cur, end_time))
        for (d0, d1) in spans:
            for x in log:
                if x[0] != 1 or x[3] != "try" or x[2] not in ("F", "B"):
                    continue
                t_try = x[7]
                arrive = FC.delivered_by(case, t_try)
                if not (d0 + tick <= t_try and arrive + tick <= d1):
                    continue            # the SYN must leave and arrive while the host is down
                what = "result" if x[2] == "F" else "connect"
                res = [y for y in log if y[0] == 1 and y[1] == x[1] and y[2] == x[2] and y[3] == what and y[4] == x[4]]
                if x[2] == "F" and arrive - t_try + tick > 3 * tick:
                    continue            # F gives up after 3 ticks: too short for this latency
                if not res:
                    if arrive + 2 * tick <= end_time:
                        out.append(("connect attempt %s#%d made at %d ns while n0 is crashed (since %d ns) is still pending at the end of the run: "
                                    "a crashed host must refuse it" % (x[2], x[4], t_try, d0), None))
                elif res[0][5] != "ConnectionRefused":
                    out.append(("connect attempt %s#%d made at %d ns while n0 is crashed (since %d ns) ended with %s instead of ConnectionRefused" % (
                        x[2], x[4], t_try, d0, res[0][5]), None))
                elif res[0][7] > arrive + tick:
                    out.append(("connect attempt %s#%d made at %d ns while n0 is crashed was refused only at %d ns (it reached the host by %d ns)" % (
                        x[2], x[4], t_try, res[0][7], arrive), None))
    # --- what reached the server while it was down is not handed to the new incarnation ----------
    down_from = None
    client_untouched = not any(1 in vv for (_, _, vv, _, _, _) in faults)   # ids / attempts are numbered per client incarnation
    for (k, name, victims, before, after, r) in faults:
        if 0 not in victims or r != "ok" or not client_untouched:
            continue
        if name == "crash" and before["hosts"][0]["running"]:
            down_from = before["elapsed"] if down_from is None else down_from
        elif name == "bounce" and down_from is not None:
            up = before["elapsed"]
            new_inc = after["hosts"][0]["starts"] - 1
            for x in log:
                # datagram id i was sent by the client at i * tick (ids 1000+i: the multicast copy)
                if x[0] == 0 and x[1] == new_inc and x[2] == "udp" and x[3] == "recv":
                    sent = (x[4] % 1000) * tick
                    if down_from + tick <= sent and sent + lat + tick <= up:
                        out.append(("event %d: datagram %d reached n0 while it was down (sent %d ns, down %d..%d ns) and was delivered to its new incarnation" % (
                            k, x[4], sent, down_from, up), None))
                if x[0] == 1 and x[2] == "F" and x[3] == "try" and down_from + tick <= x[7] and x[7] + lat + tick <= up:
                    res = [y for y in log if y[0] == 1 and y[1] == x[1] and y[2] == "F" and y[3] == "result" and y[4] == x[4]]
                    if res and res[0][5] == "ok":
                        out.append(("event %d: connect attempt #%d reached n0 while it was down and was served by its new incarnation" % (k, x[4]), None))
            down_from = None
    # --- after a bounce the fixed ports can be bound again -------------------------------------
    for e in log:
        if e[3] == "bind" and e[5] != "ok":
            out.append(("n%d incarnation %d: bind of port %s failed with %s" % (e[0], e[1], e[4], e[5]), None))
    # --- uninvolved hosts: identical to the crash-free twin run ---------------------------------
    touched = set()
    for (k, name, victims, before, after, r) in faults:
        touched.update(victims)
    # (with random_node_order the shuffle draws depend on how many hosts run, so the
    # interleaving of other hosts legitimately differs; compared for the fixed order only)
    if "twin_log" in obs and not (touched & {2, 3}) and not case["cfg"].get("random_order"):
        # what the multicast members among n2/n3 receive comes from the client n1: comparable
        # only when n1 itself is untouched
        keep = (lambda e: True) if 1 not in touched else (lambda e: e[2] != "mc")
        mine = [e for e in log if e[0] >= 2 and keep(e)]
        twin = [e for e in obs["twin_log"] if keep(e)]
        if mine != twin:
            diff = next((i for i, (a, b) in enumerate(zip(mine, twin)) if a != b), min(len(mine), len(twin)))
            out.append(("the uninvolved pair n2/n3 behaved differently from the crash-free twin run from record %d on: %s vs %s" % (
                diff, mine[diff:diff + 1], twin[diff:diff + 1]), None))
    scripted = {x[6] for x in log if x[2] == "bgp" and x[3] == "panic"} if case["cfg"].get("bg_panic") else set()
    for k, e in enumerate(evs):
        if e["k"] == "step" and not e["r"].startswith("ok"):
            if k in scripted and e["r"].startswith("panic:") and "LocalSet is configured to shutdown on unhandled panic" in e["r"]:
                continue        # the scripted background panic of family bg-panic, surfaced as it must be
            out.append(("event %d: step returned %s" % (k, e["r"]), None))
    return out


def steps_between(evs, a, b):
    return sum(1 for e in evs[a + 1:b + 1] if e["k"] == "step")


# ---- generators for the simcore part ---------------------------------------------------------

def gen_core_case(rng):
    """Timer-only hosts with several tasks, crashed / bounced at random points."""
    cfg = F.base_cfg(rng, odd=0.05, duration_ticks=1000)
    tick = cfg["tick_ns"]
    script = []
    kinds = []
    for _ in range(rng.choice([1, 2, 2, 3, 4])):
        client = rng.random() < 0.2
        kinds.append(client)
        def mk():
            p = F.gen_prog(rng, tick, end=rng.choice(["never", "never", "never", "ok"]), ticker=rng.random() < 0.8,
                           tasks=rng.choice([0, 1, 2, 3]), nops=rng.randrange(0, 6))
            if rng.random() < 0.4:
                p["factory_workers"] = True
            return p
        if client:
            script.append(["client", mk()])
        else:
            script.append(["host", [mk() for _ in range(rng.choice([1, 2]))]])
    hosts = [i for i, c in enumerate(kinds) if not c]
    for _ in range(rng.randrange(8, 24)):
        r = rng.random()
        if r < 0.18 and hosts:
            hs = rng.sample(hosts, rng.choice([1, 1, min(2, len(hosts))]))
            script.append(["crash", core_sel(rng, sorted(hs))])
            script.append(["probe"])
        elif r < 0.34 and hosts:
            hs = rng.sample(hosts, rng.choice([1, 1, min(2, len(hosts))]))
            script.append(["bounce", core_sel(rng, sorted(hs))])
            script.append(["probe"])
        elif r < 0.37 and any(kinds) and rng.random() < 0.3:
            script.append(["crash", {"h": kinds.index(True)}])     # panics: can only crash host's software
        else:
            script.append(["step"])
    script.append(["probe"])
    return {"cfg": cfg, "script": script, "fam": "simcore", "flavour": "core-crash"}


def core_sel(rng, hs):
    if len(hs) == 1:
        h = hs[0]
        r = rng.random()
        return {"h": h} if r < 0.5 else ({"ip": h} if r < 0.7 else {"re": "^n%d$" % h})
    return {"re": "^n(%s)$" % "|".join(str(h) for h in hs)}


def gen_factory_points():
    """Hosts whose software factory closure itself spawns the workers (spawn_local + tokio::spawn) before it
    returns the async block: first start, bounce without crash, crash + bounce, repeated cycles."""
    out = []
    for tick in (1 * MS, 2 * MS):
        for i in range(0, 5):
            for what in ("none", "bounce", "crash-bounce", "cycles", "regex-both"):
                p = {"main": [["obs"], ["sleep", 2 * MS], ["obs"]], "end": "never", "ticker": True, "factory_workers": True,
                     "tasks": [{"ops": [["sleep", 3 * MS], ["obs"]], "end": "never"}]}
                q = dict(p, factory_workers=False)
                script = [["host", [p]], ["host", [q, p]]] + [["step"]] * i
                if what == "bounce":
                    script += [["bounce", {"h": 0}], ["probe"]]
                elif what == "crash-bounce":
                    script += [["crash", {"ip": 0}], ["step"], ["bounce", {"h": 0}], ["probe"]]
                elif what == "cycles":
                    for _ in range(3):
                        script += [["bounce", {"re": "^n0$"}], ["step"], ["step"], ["crash", {"h": 0}], ["bounce", {"h": 0}], ["step"]]
                    script += [["probe"]]
                elif what == "regex-both":
                    script += [["bounce", {"re": "^n[01]$"}], ["probe"]]
                script += [["step"]] * 4 + [["probe"]]
                cfg = {"tick_ns": tick, "duration_ns": 1000 * MS, "epoch_ns": 17, "random_order": i % 2 == 0, "seed": i}
                out.append({"cfg": cfg, "script": script, "fam": "simcore", "flavour": "core-factory-workers"})
    return out


def gen_io_points():
    """A handful of cases with Builder::enable_tokio_io(): each incarnation registers a real OS socket with
    its runtime's IO driver; bounce, crash + bounce, repeated cycles, and the control without enable_tokio_io."""
    out = []
    p = {"main": [["obs"], ["sleep", 2 * MS], ["obs"]], "end": "never", "ticker": True, "io_probe": True, "tasks": []}
    for io in (True, False):
        for what in ("bounce", "crash-bounce", "cycles"):
            script = [["host", [p]], ["host", [p]], ["step"], ["step"]]
            if what == "bounce":
                script += [["bounce", {"h": 0}], ["step"], ["step"]]
            elif what == "crash-bounce":
                script += [["crash", {"h": 0}], ["step"], ["bounce", {"ip": 0}], ["step"], ["step"]]
            else:
                for _ in range(2):
                    script += [["bounce", {"re": "^n[01]$"}], ["step"], ["crash", {"h": 1}], ["bounce", {"h": 1}], ["step"]]
            script += [["probe"]]
            cfg = {"tick_ns": 1 * MS, "duration_ns": 1000 * MS, "epoch_ns": 19, "random_order": False, "seed": 1, "tokio_io": io}
            out.append({"cfg": cfg, "script": script, "fam": "simcore", "flavour": "core-tokio-io"})
    return out


def gen_core_points():
    """One host with a ticker and two sleeping tasks: crash after every i, bounce after every j."""
    out = []
    for tick in (1 * MS, 3 * MS):
        for i in range(0, 6):
            for j in (None, 0, 1, 3):
                for twice in (False, True):
                    p = {"main": [["obs"], ["sleep", 2 * MS], ["obs"], ["sleep", 100 * MS]], "end": "ok", "ticker": True,
                         "tasks": [{"ops": [["sleep", 3 * MS], ["obs"]], "end": "never"}, {"ops": [["interval", MS, 4]], "end": "ok"}]}
                    script = [["host", [p]], ["host", [p]]] + [["step"]] * i + [["crash", {"h": 0}], ["probe"]]
                    if twice:
                        script += [["crash", {"re": "^n0$"}], ["probe"]]
                    if j is not None:
                        script += [["step"]] * j + [["bounce", {"ip": 0}], ["probe"]]
                    else:
                        script += [["bounce", {"h": 1}], ["probe"]]          # bounce without crash
                    script += [["step"]] * 5 + [["probe"]]
                    cfg = {"tick_ns": tick, "duration_ns": 1000 * MS, "epoch_ms": 5, "random_order": i % 2 == 1, "seed": i}
                    out.append({"cfg": cfg, "script": script, "fam": "simcore", "flavour": "core-points"})
    return out


class Spec(PropSpec):
    pid = "C04"
    subsys = "SimCore"
    props_file = "C04.v"
    theorems = ["c04_crash_stops", "c04_not_polled", "c04_bounce_once", "c04_starts_only_bounce", "c04_isolation",
                "c04_tables_released", "c04_owns_api", "c04_crashed_stack_answers", "c04_crashed_flag", "c04_loopback_silent", "c04_nonvacuous_core", "c04_nonvacuous_tables"]
    coq_targets = ["C04.vo"]
    consts = []
    anchors = ANCHORS
    harness_bins = ["simcore", "crash"]
    coq_header = HEADER
    model_name = "TV.SimCore.Model+Tables"
    rule = ("two families: (a) timer-only hosts with several tasks, each owning a destructor-counting guard, crashed and bounced "
            "(by name, address, regex over several hosts, twice, bounce without crash, crash of a client) at every / random step "
            "indices, compared with the core model; (b) a fixed four-host network workload (echo, listener with queued SYNs, peer "
            "that never reads, split stream with reader and writer tasks, full-window burst drained by peek+read_exact / plain reads, "
            "accept-side and connect-side blocked writers in write_all and readiness style, loopback pair, UDP echo + multicast group "
            "with 1-3 members, runtime-seeking destructors, background ticker, a reconnecting client, an uninvolved TCP/UDP pair; "
            "tcp_capacity 1/2/4/64) with crash at every step index, bounce after 0..k steps, repeated crashes of a crashed host, random "
            "crash/bounce sequences on server, client or both; the victim's tables and live socket objects before each call are "
            "fed to the Tables model and its released tables / FIN / RST messages compared with the implementation; a case is "
            "non-trivial when a running host with live sockets or several tasks is crashed or bounced; distinct = distinct script")
    assumptions = [
        "that dropping the tokio Runtime/LocalSet inside Sim::crash runs every task destructor synchronously and that no code of the "
        "host runs afterwards is runtime behaviour outside the models: checked by correspondence only",
        "the ownership relation `owns` between table entries and live socket objects is proved to be kept by the modelled socket API "
        "operations; that the real API keeps it is checked by comparing released tables and messages with the implementation",
        "hosts whose main future has already returned are outside the claim",
    ]
    partial_note = ("runtime part (task destructors run synchronously on crash, nothing of the host runs afterwards) is checked by "
                    "correspondence only; fs / io_uring state of crashed hosts is covered by C07 / C18")

    def gen_cases(self, ctx):
        rng = ctx.rng
        quick = ctx.tier == "quick"
        n = 120 if quick else 1500
        if ctx.escalate:
            n *= 2
        core = gen_core_points() + [gen_core_case(rng) for _ in range(n)]
        if quick:
            core = rng.sample(gen_core_points(), 60) + core[len(gen_core_points()):]
        core = gen_io_points() + gen_factory_points() + core
        net = []
        combos = [(1, 1, {"h": 0}), (2, 1, {"ip": 0}), (1, 3, {"re": "^n0$"}), (1, 1, {"h": 1}), (1, 2, {"re": "^n[01]$"})]
        for (tick, lat, who) in combos:
            net += FC.crash_points(tick, lat, who)
        if quick:
            net = rng.sample(net, 150)
        bp = FC.burst_points()
        net += rng.sample(bp, 120) if quick else bp
        rcp = FC.repeated_crash_points()
        net += rng.sample(rcp, 100) if quick else rcp
        mcp = FC.multicast_points()
        net += rng.sample(mcp, 110) if quick else mcp
        net += FC.bg_panic_points()
        net += [FC.gen_random(rng) for _ in range(60 if quick else 800)]
        return core + net

    def corpus(self, ctx):
        cs = super().corpus(ctx)
        for c in cs:
            c.setdefault("fam", "crash" if "events" in c else "simcore")
        return cs

    def harness_bin(self, case):
        return "crash" if case.get("fam") == "crash" else "simcore"

    def to_model(self, case, obs):
        if case.get("fam") == "crash":
            t, probes, problems = FC.to_model(case, obs)
            return "(%s : list (list (list N) * list (list N)))" % t, probes, problems
        return F.to_model(case, obs)

    def compare(self, case, obs, model, probes):
        if case.get("fam") == "crash":
            return FC.compare(case, obs, model, probes)
        return F.compare(case, obs, model, probes)

    def oracle(self, case, obs):
        if obs.get("panic"):
            return []
        if case.get("fam") == "crash":
            return crash_oracle(case, obs)
        return simcore_oracle(case, obs)

    def nontrivial(self, case, obs):
        if obs.get("panic"):
            return False
        if case.get("fam") == "crash":
            return any(r == "ok" and before and any(before["hosts"][v]["running"] and (before["hosts"][v]["objs"] or before["hosts"][v]["alive"] > 1) for v in victims)
                       for (k, name, victims, before, after, r) in FC.fault_events(case, obs))
        return any(ev[0] in ("crash", "bounce") for ev in case["script"])

    def signature(self, case):
        return FC.case_signature(case) if case.get("fam") == "crash" else F.case_signature(case)

    def histogram(self, cases):
        a = [c for c in cases if c.get("fam") == "crash"]
        b = [c for c in cases if c.get("fam") != "crash"]
        return {"cases": len(cases), "network": FC.histogram(a), "core": F.histogram(b)}


SPEC = Spec()
