"""C02 - turmoil::net TCP delivers an intact, ordered byte stream and then EOF."""
import json
import fam_stream as F
from pipeline import PropSpec

STREAM_ANCHORS = [("crates/turmoil/src/host.rs", f) for f in (
    "buffer", "drain", "drain_buffered", "assign_seq", "receive_from_network", "has_buffered_data",
    "reset_stream", "close_stream_half", "new_stream")] + [
    ("crates/turmoil/src/net/tcp/stream.rs", f) for f in (
        "poll_read_priv", "put_slice", "poll_peek", "try_write", "poll_write_priv", "poll_shutdown_priv",
        "seq", "send", "send_loopback", "try_acquire", "release", "drop")]

STREAM_CONSTS = [
    ("default_tcp_capacity", "crates/turmoil/src/config.rs", r"tcp_capacity: (\d+),", "N"),
    ("first_send_seq", "crates/turmoil/src/host.rs", r"next_send_seq:\s*(\d+)", "N"),
    ("first_recv_seq", "crates/turmoil/src/host.rs", r"recv_seq:\s*(\d+),", "N"),
    ("stream_half_refs", "crates/turmoil/src/host.rs", r"ref_ct:\s*(\d+)", "N"),
]

HEADER = "From TV.Lib Require Import Base.\nFrom TV.Stream Require Import Model.\n"


def flat(xs):
    out = []
    for x in xs:
        out.extend(x)
    return out


def is_prefix(a, b):
    return len(a) <= len(b) and b[:len(a)] == a


def direction_trace(case, obs, wsid, rsid):
    """Implementation-side history of one direction, in execution order:
    list of ("w", data, result) / ("r"|"p", n, result) / ("close", how) / ("rdrop",) / ("wdrop",)."""
    cfg = case["cfg"]
    res = {(r[0], r[1], r[2]): r[3] for r in obs["res"]}
    tl = []
    order = [0, 1] if cfg["mode"] == "remote" else [0]
    offered = F.resolve_offers(case, obs)
    bg_data = {}
    for st in case["steps"]:
        for cmds in st.get("hosts", {}).values():
            for cmd in cmds:
                if cmd[0] == "write_bg":
                    bg_data[cmd[1]] = cmd[2]
    for k, st in enumerate(case["steps"]):
        for a in st["ctl"]:
            if a[0] in ("partition", "partition_oneway"):
                tl.append(("partition", k))
        for h in order:
            for i, cmd in enumerate(st.get("hosts", {}).get(str(h), [])):
                r = res.get((k, h, i))
                nm = cmd[0]
                if nm in ("try_write", "write") and cmd[1] == wsid:
                    tl.append(("w", F.expand(cmd[2]), r, nm, k))
                elif nm in ("try_write_rest", "write_rest") and cmd[1] == wsid and (k, h, i) in offered:
                    tl.append(("w", F.expand(offered[(k, h, i)]), r, nm, k))
                elif nm == "shutdown" and cmd[1] == wsid:
                    tl.append(("shutdown", r, k))
                elif nm in ("drop", "drop_w") and cmd[1] == wsid and r == "none":
                    tl.append(("wdrop", k))
                if nm == "read" and cmd[1] == rsid:
                    tl.append(("r", cmd[2], r, k))
                elif nm == "peek" and cmd[1] == rsid:
                    tl.append(("p", cmd[2], r, k))
                elif nm in ("drop", "drop_r") and cmd[1] == rsid and r == "none":
                    tl.append(("rdrop", k))
                if nm in ("drop", "drop_r") and cmd[1] == wsid and r == "none":
                    tl.append(("peer_rdrop", k))       # the writer's own read half went away
            # a task awaiting write_all completes at the end of its host's turn
            for b in obs.get("bg", []):
                if b[0] == k and b[1] == h and b[2] == wsid and b[2] in bg_data:
                    tl.append(("w", F.expand(bg_data[b[2]]), [b[3][0], len(F.expand(bg_data[b[2]]))] if b[3][0] == "ok" else b[3],
                               "write_bg", k))
    return tl


def c02_oracle_dir(case, obs, wsid, rsid, label):
    """The property, stated on what the implementation did (one direction)."""
    out = []
    cap = case["cfg"]["cap"]
    tl = direction_trace(case, obs, wsid, rsid)
    accepted = []            # bytes accepted so far
    seg_starts = []          # offset of each accepted data segment
    got = []                 # bytes returned by reads
    high = 0                 # bytes the reader has seen (read or peeked)
    broken = False           # writer saw an error other than WouldBlock
    closed_w = False         # writer shut down / dropped its write half (FIN stamped)
    eof = False
    lossy = False
    reset_seen = False
    rdropped = False
    reads_after_close = []
    last_w_step = 0
    for e in tl:
        if e[0] in ("w", "shutdown", "wdrop"):
            last_w_step = e[-1]
        if e[0] == "partition":
            lossy = True
        elif e[0] == "w":
            _, data, r, nm, k = e
            if isinstance(r, list) and r[0] == "ok":
                if r[1] > len(data):
                    out.append(("%s: write of %d bytes accepted %s" % (label, len(data), r[1]), None))
                if data:
                    pulled = sum(1 for s0 in seg_starts if s0 < high)
                    if len(seg_starts) - pulled >= cap and not broken:
                        out.append(("%s step %d: write accepted although %d data segments are unread (tcp_capacity %d)"
                                    % (label, k, len(seg_starts) - pulled, cap), None))
                    seg_starts.append(len(accepted))
                    accepted.extend(data[:r[1]])
            elif r == "pending" or (isinstance(r, list) and r[0] == "err" and r[1] == "WouldBlock"):
                pulled = sum(1 for s0 in seg_starts if s0 < high)
                if len(seg_starts) - pulled < cap and not broken:
                    out.append(("%s step %d: writer blocked (%s) with only %d of %d segments unread"
                                % (label, k, r, len(seg_starts) - pulled, cap), None))
            elif isinstance(r, list) and r[0] == "err":
                broken = True
        elif e[0] == "shutdown":
            if e[1] == ["ok"]:
                closed_w = True
            elif isinstance(e[1], list) and e[1][0] == "err" and e[1][1] != "NotConnected":
                broken = True
        elif e[0] == "wdrop":
            closed_w = True
        elif e[0] == "rdrop":
            rdropped = True
        elif e[0] in ("r", "p"):
            kind, n, r, k = e
            if isinstance(r, list) and r[0] == "ok":
                bs = r[1]
                if len(bs) > n:
                    out.append(("%s step %d: %s of %d returned %d bytes" % (label, k, kind, n, len(bs)), None))
                if not is_prefix(got + bs, accepted):
                    out.append(("%s step %d: bytes %s after %d read bytes are not what the peer wrote (%s)"
                                % (label, k, bs, len(got), accepted[len(got):len(got) + len(bs) + 2]), None))
                if kind == "r":
                    got.extend(bs)
                    if n > 0 and not bs:
                        if eof is False and len(got) != len(accepted):
                            out.append(("%s step %d: EOF after %d of %d accepted bytes" % (label, k, len(got), len(accepted)), None))
                        eof = True
                    elif bs and eof:
                        out.append(("%s step %d: data after EOF" % (label, k), None))
                high = max(high, len(got) + (len(bs) if kind == "p" else 0), len(got))
                if kind == "p" and bs:
                    high = max(high, len(got) + 1)
            elif isinstance(r, list) and r[0] == "err":
                reset_seen = True
            if closed_w and kind == "r" and n > 0:
                reads_after_close.append((k, r))
    return out, dict(accepted=accepted, got=got, eof=eof, lossy=lossy, reset=reset_seen, closed_w=closed_w,
                     rdropped=rdropped, broken=broken, reads_after_close=reads_after_close,
                     last_w_step=last_w_step)


def any_rst(obs):
    for links, _ in obs["post"]:
        for a, b, msgs in links:
            if any(m[1] == "rst" for m in msgs):
                return True
    return False


def in_flight_at_end(case, obs, whost):
    links, _ = obs["post"][-1]
    for a, b, msgs in links:
        if any(m[0] == whost and m[1] in ("data", "fin") for m in msgs):
            return True
    return False


def script_has_abort(case):
    """Any drop of a read half / whole stream (a possible abortive close) in the script."""
    for st in case["steps"]:
        for cmds in st.get("hosts", {}).values():
            for cmd in cmds:
                if cmd[0] in ("drop", "drop_r"):
                    return True
    return False


def has_abort(case, obs):
    """A drop of a read half / whole stream that may be abortive.  A side that has already READ the
    peer's EOF (a read with room returned 0 bytes) has no unread inbound data and none can come: its
    drop is graceful whatever is dropped."""
    res = {(r[0], r[1], r[2]): r[3] for r in obs["res"]}
    eof_read = set()
    for k, st in enumerate(case["steps"]):
        for h in sorted(st.get("hosts", {}), key=int):
            for i, cmd in enumerate(st["hosts"][h]):
                r = res.get((k, int(h), i))
                if cmd[0] == "read" and cmd[2] > 0 and isinstance(r, list) and r[0] == "ok" and r[1] == []:
                    eof_read.add(cmd[1])
                elif cmd[0] in ("drop", "drop_r") and cmd[1] not in eof_read:
                    return True
    return False


def c02_oracle(case, obs):
    out = []
    cfg = case["cfg"]
    _, chost, shost = F.prologue(cfg)
    for wsid, rsid, whost, label in ((F.CLIENT_SID, F.SERVER_SID, chost, "client->server"),
                                     (F.SERVER_SID, F.CLIENT_SID, shost, "server->client")):
        o, st = c02_oracle_dir(case, obs, wsid, rsid, label)
        out.extend(o)
        # delivery half: graceful close, nothing lost, everything delivered, reader kept reading
        # without any drop of a read half / whole stream and without partitions no socket entry is
        # ever removed, so no RST exists: an error on the reader's side is then itself the failure
        graceful = (st["closed_w"] and not st["lossy"] and not st["rdropped"]
                    and not st["broken"] and not has_abort(case, obs))
        if graceful and cfg["mode"] == "remote" and in_flight_at_end(case, obs, whost):
            graceful = False
        if graceful and st["reads_after_close"]:
            # reads issued after the writer's last action and after the last step at
            # which a segment of this direction was still in flight (plus the one-tick
            # loopback delay) must not wait any more
            last_w = st["last_w_step"]
            flight = 0
            for k, (links, _) in enumerate(obs["post"]):
                for a, b, msgs in links:
                    if any(m[0] == whost and m[1] in ("data", "fin") for m in msgs):
                        flight = k + 1
            settle = max(last_w + 3, flight + 2)
            late = [r for r in st["reads_after_close"] if r[0] >= settle]
            if late:
                k, r = late[-1]
                if r == "pending" or (isinstance(r, list) and r[0] == "err"):
                    out.append(("%s: every segment was delivered and the writer closed gracefully, but the reader "
                                "%s at step %d (read %d of %d bytes, no EOF)"
                                % (label, "still waits" if r == "pending" else "got %s" % r[1], k,
                                   len(st["got"]), len(st["accepted"])), None))
                elif st["eof"] and len(st["got"]) != len(st["accepted"]):
                    out.append(("%s: EOF after %d of %d bytes" % (label, len(st["got"]), len(st["accepted"])), None))
    out.extend(graceful_drop_rule(case, obs))
    out.extend(no_abort_no_reset_rule(case, obs))
    out.extend(blocked_writer_rule(case, obs))
    out.extend(stranded_rule(case, obs))
    return out


def no_abort_no_reset_rule(case, obs):
    """No read half / whole stream is dropped and nothing is partitioned: then no socket entry is
    removed before both halves of its side are gone, so nobody may see ConnectionReset, and a
    write half that was not shut down may not see BrokenPipe."""
    out = []
    if script_has_abort(case):
        return out
    for st in case["steps"]:
        if any(a[0].startswith("partition") for a in st["ctl"]):
            return out
    res = {(r[0], r[1], r[2]): r[3] for r in obs["res"]}
    shut = set()
    for k, st in enumerate(case["steps"]):
        for h in (0, 1):
            for i, cmd in enumerate(st.get("hosts", {}).get(str(h), [])):
                r = res.get((k, h, i))
                nm = cmd[0]
                if nm in ("read", "peek") and isinstance(r, list) and r[0] == "err":
                    out.append(("step %d: %s on stream %d failed with %s although no read half was ever dropped and "
                                "nothing was partitioned (both ends only closed their write sides)"
                                % (k, nm, cmd[1], r[1]), None))
                    return out
                if nm in ("try_write", "write") and cmd[1] not in shut and r == ["err", "BrokenPipe"]:
                    out.append(("step %d: write on stream %d failed with BrokenPipe although its write half was not "
                                "shut down and no read half was ever dropped" % (k, cmd[1]), None))
                    return out
                if nm in ("shutdown", "drop_w") and r in (["ok"], "none"):
                    shut.add(cmd[1])
    return out


def stranded_rule(case, obs):
    """After the last link call of the script was a `release` (which also heals every explicit partition of the
    link), the link is healthy: whatever sits on it must be delivered.  A segment that is still on the link four
    steps later (same head message in every snapshot, nothing else touching the link) is stranded: the byte stream
    behind it - data, FIN or RST - can never arrive (seed C02-A8)."""
    out = []
    cfg = case["cfg"]
    if cfg["mode"] != "remote":
        return out
    last, kind = None, None
    for k, st in enumerate(case["steps"]):
        for a in st["ctl"]:
            if a[0] in ("hold", "release", "partition", "partition_oneway", "repair", "repair_oneway", "deliver"):
                last, kind = k, a[0]
        for h, cmds in st.get("hosts", {}).items():
            if any(c[0] == "link" for c in cmds):
                return out
    if kind != "release" or last is None:
        return out
    post = obs["post"]
    if len(post) < last + 6:
        return out
    heads = []
    for k in range(last + 1, last + 6):
        links = post[k][0]
        hs = [(a, b, json.dumps(msgs[0])) for (a, b, msgs) in links if msgs]
        heads.append(set(hs))
    stuck = set.intersection(*heads) if heads else set()
    for (a, b, m) in sorted(stuck):
        out.append(("the link %s-%s was released at step %d (nothing held or partitioned afterwards) but the segment %s is still "
                    "on it at step %d: it is stranded on a healthy link, so the bytes / end-of-file / reset behind it never arrive"
                    % (a, b, last, m, last + 5), None))
        break
    return out


def blocked_writer_rule(case, obs):
    """A writer blocked on credits must not stay blocked once its connection was reset: when the
    writer's host no longer has the stream entry for three steps, the task awaiting write_all must
    have completed (with an error)."""
    out = []
    cfg = case["cfg"]
    if cfg["mode"] != "remote":
        return out
    _, chost, shost = F.prologue(cfg)
    res = {(r[0], r[1], r[2]): r[3] for r in obs["res"]}
    done = {b[2]: b for b in obs.get("bg", [])}
    for k, st in enumerate(case["steps"]):
        for h in (0, 1):
            for i, cmd in enumerate(st.get("hosts", {}).get(str(h), [])):
                if cmd[0] == "write_bg" and res.get((k, h, i)) == "none" and cmd[1] not in done:
                    gone = [j for j in range(k + 1, len(obs["post"])) if obs["post"][j][1][h][1] == 0]
                    if len(gone) >= 3:
                        out.append(("the task awaiting write_all on stream %d (host %d, since step %d) never completes "
                                    "although the connection was reset: the host has had no stream entry since step %d"
                                    % (cmd[1], h, k, gone[0]), None))
    return out


def graceful_drop_rule(case, obs):
    """'a drop while no inbound data is unread is graceful': when a side that still holds both
    halves drops its read half (or the whole stream) after having read every byte the peer's writes
    accepted so far, it must not send a RST (visible on a held link right after that step)."""
    out = []
    cfg = case["cfg"]
    if cfg["mode"] != "remote":
        return out
    _, chost, shost = F.prologue(cfg)
    res = {(r[0], r[1], r[2]): r[3] for r in obs["res"]}
    acc = {F.CLIENT_SID: 0, F.SERVER_SID: 0}      # bytes accepted by writes of this stream id
    got = {F.CLIENT_SID: 0, F.SERVER_SID: 0}      # bytes returned by reads of this stream id
    intact = {F.CLIENT_SID: True, F.SERVER_SID: True}
    peer = {F.CLIENT_SID: F.SERVER_SID, F.SERVER_SID: F.CLIENT_SID}
    host_of = {F.CLIENT_SID: chost, F.SERVER_SID: shost}
    held = False
    errors = False

    def nrst(k, host):
        if k < 0:
            return 0
        return sum(1 for a, b, msgs in obs["post"][k][0] for m in msgs if m[1] == "rst" and m[0] == host)

    for k, st in enumerate(case["steps"]):
        for a in st["ctl"]:
            if a[0] == "hold":
                held = True
            elif a[0] in ("release", "partition", "partition_oneway"):
                held = a[0] != "release" and held
                if a[0] != "hold":
                    errors = errors or a[0].startswith("partition")
        for h in (0, 1):
            for i, cmd in enumerate(st.get("hosts", {}).get(str(h), [])):
                r = res.get((k, h, i))
                nm = cmd[0]
                if nm in ("count", "count_on"):
                    continue
                sid = cmd[1]
                if nm in ("try_write", "write") and isinstance(r, list) and r[0] == "ok":
                    acc[sid] += r[1]
                elif nm == "read" and isinstance(r, list) and r[0] == "ok":
                    got[sid] += len(r[1])
                elif isinstance(r, list) and r[0] == "err" and r[1] not in ("WouldBlock",):
                    errors = True
                if nm in ("drop", "drop_r") and r == "none":
                    if (intact[sid] and held and not errors and got[sid] == acc[peer[sid]]
                            and nrst(k, host_of[sid]) > nrst(k - 1, host_of[sid])
                            and not any(c2[0] in ("drop", "drop_r") and c2[1] == sid
                                        for c2 in st["hosts"].get(str(h), [])[:i])):
                        out.append(("step %d: stream %d was dropped after reading all %d bytes its peer had written "
                                    "(no inbound data unread), yet the drop sent a RST instead of closing gracefully"
                                    % (k, sid, got[sid]), None))
                    intact[sid] = False
                elif nm in ("drop_w",) and r == "none":
                    intact[sid] = False
    return out


def c02_nontrivial(case, obs):
    """Some data crossed and either segments were reordered / parked or the writer was blocked."""
    wrote = any(isinstance(r[3], list) and r[3][0] == "ok" and isinstance(r[3][1], int) and r[3][1] > 0
                and len(r[3]) == 2 for r in obs["res"])
    readsome = any(isinstance(r[3], list) and r[3][0] == "ok" and len(r[3]) == 2 and isinstance(r[3][1], list) and r[3][1]
                   for r in obs["res"])
    return wrote and readsome


class Spec(PropSpec):
    pid = "C02"
    subsys = "Stream"
    props_file = "C02.v"
    theorems = []          # filled from THEOREMS below
    consts = STREAM_CONSTS
    anchors = STREAM_ANCHORS
    harness_bins = ["stream"]
    coq_header = HEADER
    model_name = "TV.Stream.Model"
    rule = ("scripts = one established connection (remote hosts / same host / 127.0.0.1, v4 and v6, tcp_capacity 1..4); "
            "host programs execute try_write / poll-once write, read, peek (buffer sizes 0, 1, k, 64), shutdown, "
            "into_split / reunite and drops of either half on both ends; on remote pairs the link is held and the controller "
            "matures chosen wire positions through Sim::links in a scripted order (all permutations of <= 4 segments in quick, "
            "<= 6 in thorough), with partitions mid-stream; deterministic families: request/response, half-close (shutdown then "
            "drop), EOF read then the own direction finished by dropping, FIN parked at a full channel, a write_all task blocked on a full window and then reset, writes > 64 KiB "
            "through write_all and try_write loops (compared by length + digest); a case is non-trivial when bytes were "
            "written and read; "
            "distinct = distinct (mode, capacity, script)")
    assumptions = [
        "tokio mpsc / oneshot / Notify are replaced in the model by a bounded FIFO and flags (modelled, not verified)",
        "delivery order and loss are inputs of the model (Mature / Partition events); the theorems quantify over all of them",
        "u64 sequence wrap-around and usize credit overflow are not modelled",
        "the model starts at the established state; the handshake is property C12's model (TV.Conn)",
        "the exact credit equality (writer-side liveness on a healthy link) is not proved; which parked task tokio wakes is "
        "not modelled: c02_reset_unblocks covers the state the woken writer finds",
    ]

    def gen_cases(self, ctx):
        quick = ctx.tier == "quick"
        n = 600 if quick else 6000
        if ctx.escalate:
            n *= 2
        perms = F.exhaustive_perms(4) if quick else F.exhaustive_perms(6, caps=(1, 2, 3, 4, 5))
        if quick and len(perms) > 260:
            perms = ctx.rng.sample(perms, 260)
        cases = list(perms)
        for i in range(n):
            r = i % 6
            if r == 4:
                cases.append([F.gen_reqresp, F.gen_halfclose, F.gen_eof_then_drop][(i // 6) % 3](ctx.rng))
            elif r == 5:
                cases.append(F.gen_parked(ctx.rng) if (i // 6) % 3 else F.gen_blocked_writer(ctx.rng))
            else:
                cases.append(F.gen_random(ctx.rng) if r % 2 else F.gen_complete(ctx.rng))
        cases += [F.gen_hold_repair_release(ctx.rng) for _ in range(16 if quick else 160)]
        # large writes are expensive to evaluate in the model: spread them over the coqc shards
        nl = 14 if quick else 160
        gap = max(1, len(cases) // (nl + 1))
        for i in range(nl):
            cases.insert(min(len(cases), (i + 1) * gap + i), F.gen_large(ctx.rng))
        return cases

    def to_model(self, case, obs):
        return F.to_model(case, obs)

    def compare(self, case, obs, model, probes):
        return F.compare(case, obs, model, probes)

    def oracle(self, case, obs):
        if obs.get("panic"):
            return [("the implementation panicked on an established stream: %s" % str(obs["panic"])[:200], None)]
        return c02_oracle(case, obs)

    def nontrivial(self, case, obs):
        return not obs.get("panic") and c02_nontrivial(case, obs)

    def signature(self, case):
        return F.case_signature(case)

    def histogram(self, cases):
        return F.histogram(cases)


THEOREMS = ["c02_prefix", "c02_peek_prefix", "c02_peek_then_read", "c02_no_overflow", "c02_credits",
            "c02_wouldblock_iff", "c02_reset_unblocks", "c02_complete", "c02_nonvacuous"]
Spec.theorems = THEOREMS
SPEC = Spec()
