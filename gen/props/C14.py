"""C14 - messages arrive within the configured latency window, in order on equal latency."""
import fam_link as F
from pipeline import PropSpec
from C03 import LINK_ANCHORS, LINK_CONSTS, HEADER

MS = 1000000


def pair(a, b):
    return (min(a, b), max(a, b))


def c14_oracle(case, obs):
    cfg = case["cfg"]
    tick = cfg["tick_us"] * 1000
    tl = F.timeline(case, obs)
    glob = [cfg["min_ms"] * MS, cfg["max_ms"] * MS]
    per = {}
    sent = {}
    order = 0
    out = []
    recv_pos = {}
    n = 0
    for ev in tl:
        k = ev[0]
        if k == "lat":
            _, name, a, b, v = ev
            if name == "set_max":
                glob[1] = v
            else:
                cur = per.get(pair(a, b)) or list(glob)
                cur = [v, v] if name == "set_link_latency" else [cur[0], v]
                per[pair(a, b)] = cur
        elif k == "call" and ev[1] not in ("repair", "repair_oneway", "release"):
            return []      # not a healthy-link script
        elif k == "send":
            _, src, dst, i, step, t, delay, rnd, rep = ev
            lo, hi = per.get(pair(src, dst)) or glob
            order += 1
            sent[i] = {"src": src, "dst": dst, "step": step, "t": t, "delay": delay, "lo": lo, "hi": hi, "order": order}
            if delay is None:
                out.append(("message %d (h%d->h%d) was dropped at send on a healthy link" % (i, src, dst), None))
            elif lo <= hi and not (lo <= delay <= hi):
                out.append(("message %d (h%d->h%d): sampled delay %d ns outside the link's range [%d, %d]" % (i, src, dst, delay, lo, hi), None))
        elif k == "recv":
            _, h, i, step, el, frm = ev
            m = sent.get(i)
            if m is None:
                out.append(("host h%d received unknown message %d" % (h, i), None))
                continue
            if i in recv_pos:
                out.append(("message %d delivered twice" % i, None))
            recv_pos[i] = n
            n += 1
            if m["dst"] != h:
                out.append(("message %d for h%d arrived at h%d" % (i, m["dst"], h), None))
            measured = el - m["step"] * tick     # sender's clock at the send is step*tick
            lo, hi = m["lo"], m["hi"]
            if lo <= hi and not (lo - tick <= measured <= hi + tick):
                out.append(("message %d (h%d->h%d) sent at step %d: measured latency %d ns outside [%d - tick, %d + tick], tick %d" % (i, m["src"], m["dst"], m["step"], measured, lo, hi, tick), None))
    for i, m in sent.items():
        if i not in recv_pos and m["delay"] is not None:
            out.append(("message %d (h%d->h%d) on a healthy link was never delivered" % (i, m["src"], m["dst"]), None))
    # non-decreasing delivery instants on one direction => arrival in send order
    by = {}
    for i, m in sent.items():
        if i in recv_pos and m["delay"] is not None:
            by.setdefault((m["src"], m["dst"]), []).append(i)
    for key, ids in by.items():
        ids.sort(key=lambda i: sent[i]["order"])
        for a in range(len(ids)):
            for b in range(a + 1, len(ids)):
                i1, i2 = ids[a], ids[b]
                if sent[i1]["t"] + sent[i1]["delay"] <= sent[i2]["t"] + sent[i2]["delay"] and recv_pos[i1] > recv_pos[i2]:
                    out.append(("messages %d then %d on h%d->h%d have non-decreasing delivery instants but arrived in the opposite order" % (i1, i2, key[0], key[1]), None))
    return out


class Spec(PropSpec):
    pid = "C14"
    subsys = "Link"
    props_file = "C14.v"
    theorems = ["c14_delay_in_bounds", "c14_send_stamp", "c14_maturity", "c14_window", "c14_override",
                "c14_override_persists", "c14_global_max", "c14_fifo_equal_latency", "c14_delivered", "c14_not_early", "c14_on_time", "c14_noop_erasure", "c14_topology_not_early", "c14_nonvacuous"]
    consts = LINK_CONSTS
    anchors = LINK_ANCHORS + [("crates/turmoil/src/top.rs", f) for f in (
        "set_max_message_latency", "set_link_message_latency", "set_link_max_message_latency")]
    harness_bins = ["link"]
    coq_header = HEADER
    model_name = "TV.Link.Model"
    rule = ("scripts on healthy links: ticks 1-7 ms, global min/max/curve, per-link fixed and max overrides and global max "
            "changes set during the run by name/ip/regex, bursts of uniquely numbered UDP datagrams within one step, random "
            "host order; non-trivial = at least two datagrams on one direction; distinct = distinct (hosts, script)")
    assumptions = [
        "the sampled multiplier is an input of the model (x_ms = (range_ms * mult) as u64 is read from the verif-hooks decision log); f64 arithmetic of the sample is not modelled",
        "c14_window takes the host-clock facts (sender clock within one tick below link time, receiver clock = tick start) as hypotheses; they are the subject of C05",
        "the exponential distribution itself (Exp(lambda)) is not modelled: the theorems hold for every sample value",
    ]

    def gen_cases(self, ctx):
        n = 400 if ctx.tier == "quick" else 3000
        if ctx.escalate:
            n *= 2
        return F.tcp_noise_latency_scripts() + [F.gen_latency_script(ctx.rng) for _ in range(n)]

    def to_model(self, case, obs):
        return F.to_model(case, obs)

    def compare(self, case, obs, model, probes):
        return F.compare(case, obs, model, probes)

    def oracle(self, case, obs):
        if obs.get("panic"):
            return []
        if case.get("flavour") == "tcp-noise-latency":
            return F.tcp_noise_latency_oracle(case, obs)
        return c14_oracle(case, obs)

    def nontrivial(self, case, obs):
        dirs = {}
        for st in case["steps"]:
            for h, cmds in st.get("hosts", {}).items():
                for c in cmds:
                    if c[0] == "send":
                        dirs[(h, c[1])] = dirs.get((h, c[1]), 0) + 1
        return any(v >= 2 for v in dirs.values())

    def signature(self, case):
        return F.case_signature(case)

    def shrink_range(self, case):
        return F.shrink_range(case)

    def histogram(self, cases):
        return F.histogram(cases)


SPEC = Spec()
