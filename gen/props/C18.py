"""C18 - every io_uring submission completes exactly once with the right result."""
import fam_uring as F
from pipeline import PropSpec

U = "crates/turmoil-io-uring/src/"
ANCHORS = [(U + "submit.rs", "schedule_pending"), (U + "submit.rs", "submit"), (U + "submit.rs", "submit_with_args"),
           (U + "sim.rs", "schedule"), (U + "sim.rs", "post_immediate_error"), (U + "sim.rs", "cancel"),
           (U + "sim.rs", "ready_cq_count"), (U + "sim.rs", "promote_ready"), (U + "sim.rs", "pop_ready"),
           (U + "sim.rs", "execute"), (U + "sim.rs", "exec_read"), (U + "sim.rs", "exec_write"),
           (U + "sim.rs", "exec_fsync"), (U + "sim.rs", "next_deadline"),
           (U + "cqueue.rs", "sync"), (U + "cqueue.rs", "next"), (U + "squeue.rs", "push"),
           (U + "squeue.rs", "has_unsupported"), (U + "host.rs", "crash"), (U + "host.rs", "alloc_ring_fd"),
           (U + "lib.rs", "new_inner"), (U + "lib.rs", "drop"), (U + "async_fd.rs", "readable"),
           ("crates/turmoil/src/sim.rs", "crash")]

CONSTS = [
    ("errno_EBADF", U + "sim.rs", r"const EBADF: i32 = (\d+);", "N"),
    ("errno_ECANCELED", U + "sim.rs", r"const ECANCELED: i32 = (\d+);", "N"),
    ("errno_ENOENT", U + "sim.rs", r"const ENOENT: i32 = (\d+);", "N"),
    ("errno_EINVAL", U + "submit.rs", r"fn libc_einval\(\) -> i32 \{\s*-(\d+)", "N"),
    ("errno_ENOSPC", U + "sim.rs", r"const ENOSPC: i32 = (\d+);", "N"),
    ("flag_FIXED_FILE_shift", U + "squeue.rs", r"pub const FIXED_FILE: Self = Self\(1 << (\d+)\)", "N"),
    ("flag_IO_DRAIN_shift", U + "squeue.rs", r"pub const IO_DRAIN: Self = Self\(1 << (\d+)\)", "N"),
    ("flag_IO_LINK_shift", U + "squeue.rs", r"pub const IO_LINK: Self = Self\(1 << (\d+)\)", "N"),
    ("flag_IO_HARDLINK_shift", U + "squeue.rs", r"pub const IO_HARDLINK: Self = Self\(1 << (\d+)\)", "N"),
    ("flag_ASYNC_shift", U + "squeue.rs", r"pub const ASYNC: Self = Self\(1 << (\d+)\)", "N"),
    ("flag_BUFFER_SELECT_shift", U + "squeue.rs", r"pub const BUFFER_SELECT: Self = Self\(1 << (\d+)\)", "N"),
]

HEADER = ("From TV.Lib Require Import Base.\nFrom TV.Uring Require Import Gen Model Concrete.\n"
          "Open Scope N_scope.\n")


class Spec(PropSpec):
    pid = "C18"
    subsys = "Uring"
    props_file = "C18.v"
    theorems = ["c18_exactly_once", "c18_not_early", "c18_visible_count", "c18_same_as_sync", "c18_push_full",
                "c18_unsupported_flag", "c18_closed_file", "c18_crash_forgets", "c18_ring_isolated", "c18_drain_completes", "c18_shuffle_complete", "c18_nonvacuous"]
    consts = CONSTS
    anchors = ANCHORS
    harness_bins = ["uring"]
    coq_header = HEADER
    model_name = "TV.Uring.Model"
    rule = ("scripts = push/submit/sync/next/cancel/close/crash command sequences against 1-3 rings (depth 1-8) and 1-2 files "
            "with forced latencies (min=max) and optional page cache, clock set by the script; a case is non-trivial when at "
            "least two CQEs are yielded and one of: cancel hit, refused push, unsupported flag, closed file, crash; "
            "distinct = distinct (cfg, script)")
    assumptions = [
        "the sampled latency of each op and the shuffle of each matured batch are inputs of the model (forced by min=max latency / read back from the observed completion order); the theorems quantify over all their values",
        "the file system is a parameter of the ring model (Section variables): c18_same_as_sync is proved for every file-system implementation; the correspondence instantiates it with a byte-array model and the real crate is compared with a twin Fs driven through the synchronous std shim",
        "fault-injection probabilities and O_DIRECT alignment checks inside exec_read/exec_write are outside the model (faults off; O_DIRECT descriptors are used with alignment 1, only their page-cache bypass matters: direct operations always get the configured latency); the capacity check is part of the concrete file-system instance used for the correspondence (in the parametric theorems it belongs to fs_write)",
        "one CompletionQueue handle per ring at a time; AsyncFd wake-ups (tokio Notify / timers) are not modelled, only the readiness snapshot; a consumer parked in readable() that is not woken in the step where the model says the ring is readable is reported by the Sim-mode correspondence",
        "the page-cache LRU exists only as a python mirror that supplies the latency argument of reads (hit 100 ns / miss configured latency); writes and fsyncs always get the configured latency, as the specification says",
    ]

    def gen_cases(self, ctx):
        n = 400 if ctx.tier == "quick" else 4000
        if ctx.escalate:
            n *= 2
        cases = [F.gen_direct(ctx.rng) for _ in range(n)]
        cases += [F.gen_sim(ctx.rng) for _ in range(n // 4)]
        cases += [F.gen_sim_reaper(ctx.rng) for _ in range(n // 8)]
        cases += [F.gen_dup(ctx.rng) for _ in range(n // 8)]
        cases += [F.gen_cache(ctx.rng) for _ in range(n // 5)]
        cases += [F.gen_capacity(ctx.rng) for _ in range(n // 6)]
        cases += [F.gen_rings(ctx.rng) for _ in range(n // 5)]
        cases += [F.gen_direct_io(ctx.rng) for _ in range(n // 8)]
        ex = F.exhaustive_small()
        if ctx.tier == "quick":
            ex = ctx.rng.sample(ex, min(len(ex), 120))
        exc = F.exhaustive_cache()
        if ctx.tier == "quick":
            exc = ctx.rng.sample(exc, min(len(exc), 30))
        return ex + exc + F.exhaustive_rings() + cases

    @staticmethod
    def _direct(case, obs):
        """sim-mode cases are unrolled into the equivalent direct-mode form"""
        if case["cfg"].get("mode") == "sim":
            return F.sim_to_direct(case, obs)
        return case, obs, []

    def to_model(self, case, obs):
        dc, do, problems = self._direct(case, obs)
        term, probes, p2 = F.to_model(dc, do)
        return term, probes, problems + p2

    def compare(self, case, obs, model, probes):
        if obs.get("panic"):
            return "implementation panicked: %s" % obs["panic"]
        dc, do, _ = self._direct(case, obs)
        return F.compare(dc, do, model, probes)

    def oracle(self, case, obs):
        if obs.get("panic"):
            return [("the implementation panicked while executing the script: %s" % obs["panic"], None)]
        dc, do, _ = self._direct(case, obs)
        return F.oracle(dc, do)

    def nontrivial(self, case, obs):
        if obs.get("panic"):
            return False
        case, obs, _ = self._direct(case, obs)
        f = F.features(case, obs)
        return "cqe" in f and bool(f & {"cancelled", "push_refused", "unsupported_flag", "ebadf", "crash"})

    def histogram(self, cases):
        return F.histogram(cases)


SPEC = Spec()
