"""C19 - rule chains decide each packet by first match; fixture scheduler honours Deliver(d)."""
import fam_rules as F
from pipeline import PropSpec

NET = "crates/turmoil-net/src/"
ANCHORS = [(NET + "lib.rs", f) for f in ("install_rule", "uninstall_rule", "evaluate", "rule")] + \
          [(NET + "rule.rs", f) for f in ("forget", "drop", "on_packet")] + \
          [(NET + "fixture/scheduler.rs", f) for f in ("tick", "schedule")] + \
          [(NET + "fixture/mod.rs", "lo_with_config"), (NET + "fixture/client_server.rs", "run"),
           (NET + "kernel/mod.rs", "egress"), (NET + "kernel/mod.rs", "is_local"),
           (NET + "fabric.rs", "egress_all"), (NET + "fabric.rs", "deliver")]

NETPURE_CONSTS = [
    ("fixture_tick_ms", NET + "fixture/mod.rs", r"const TICK: Duration = Duration::from_millis\((\d+)\)", "N"),
    ("ephemeral_lo", NET + "kernel/socket.rs", r"DEFAULT_EPHEMERAL_PORTS: RangeInclusive<u16> = (\d+)\.\.=\d+", "N"),
    ("ephemeral_hi", NET + "kernel/socket.rs", r"DEFAULT_EPHEMERAL_PORTS: RangeInclusive<u16> = \d+\.\.=(\d+)", "N"),
    ("default_backlog", NET + "kernel/mod.rs", r"DEFAULT_BACKLOG: usize = (\d+)", "N"),
]

TICK = F.TICK


class Chain:
    """python statement of the chain semantics: installation order, guard ownership, first match"""

    def __init__(self):
        self.rules = []          # [key, spec, calls]
        self.guards = set()

    def op(self, cmd, guarded=True):
        n = cmd[0]
        if n == "install":
            self.rules.append([cmd[1], cmd[2], 0])
            if guarded:
                self.guards.add(cmd[1])
        elif n == "drop":
            if cmd[1] in self.guards:
                self.guards.discard(cmd[1])
                self.rules = [r for r in self.rules if r[0] != cmd[1]]
        elif n == "forget":
            self.guards.discard(cmd[1])

    def pos(self, key):
        for i, r in enumerate(self.rules):
            if r[0] == key:
                return i
        return None

    def walk(self, d):
        """-> (keys invoked, verdict) and advances the per-rule invocation counters"""
        keys = []
        for r in self.rules:
            v = F.spec_answer(r[1], r[2], d)
            r[2] += 1
            keys.append(r[0])
            if v != "pass":
                return keys, v
        return keys, "pass"


def split_evals(chain, entries):
    """split a run of log entries [(key, desc)] into per-packet evaluations: a new evaluation starts
    whenever the rule is not later in installation order than the previous one"""
    groups = []
    prev = None
    for key, d in entries:
        p = chain.pos(key)
        if p is None:
            groups.append([(key, d)])       # a rule that is not installed: reported by the caller
            prev = None
            continue
        if prev is None or p <= prev or groups[-1][0][1] != d:
            groups.append([])
        groups[-1].append((key, d))
        prev = p
    return groups


def oracle_manual(case, obs):
    out = []
    hosts = case["cfg"]["hosts"]
    ch = Chain()
    for i, s in enumerate(case["cfg"]["perm"]):
        ch.op(["install", i + 1, s], guarded=False)
    tagsrc = {}
    for i, cmd in enumerate(case["script"]):
        o = obs["steps"][i]
        if cmd[0] in ("install", "drop", "forget"):
            ch.op(cmd)
        elif cmd[0] == "udp":
            tagsrc[cmd[3]] = cmd[1]
        elif cmd[0] in ("pump", "pump_drop"):
            start = obs["steps"][i - 1]["log_len"] if i > 0 else 0
            seg = [(e[0], e[2]) for e in obs["log"][start:o["log_len"]]]
            pos = 0
            for j, (d, v) in enumerate(zip(o["out"], o["verdicts"])):
                if cmd[0] == "pump_drop" and j == cmd[2]:
                    ch.op(["drop", cmd[1]])      # the guard is dropped here: the rule stops applying at once
                src_host = tagsrc.get(d[6]) if d[2] == 0 else F.owner(hosts, d[0])
                if F.is_loopback(d[1]) or (src_host is not None and F.is_local(hosts[src_host], d[1])):
                    out.append(("cmd %d: packet %s with a destination local to its sender left the host (egress_all)" % (i, d[:7]), None))
                keys, want = ch.walk(d)
                got = seg[pos:pos + len(keys)]
                pos += len(keys)
                if [g[0] for g in got] != keys or any(g[1] != d for g in got):
                    out.append(("cmd %d: packet %s: rules invoked %s, first-match over the installed chain %s requires %s"
                                % (i, d[6] or d[:6], [g[0] for g in seg[pos - len(keys):pos]], [r[0] for r in ch.rules], keys), None))
                    return out
                if list(v) != F.vcode(want):
                    out.append(("cmd %d: packet %s: evaluate returned %s, the first non-Pass rule answered %s" % (i, d[6] or d[:6], v, want), None))
            if pos != len(seg):
                out.append(("cmd %d: %d rule invocations beyond the first non-Pass rule / for no packet" % (i, len(seg) - pos), None))
    return out


def oracle_fixture(case, obs):
    out = []
    cfg = case["cfg"]
    hosts, nst = cfg["hosts"], cfg["nsteps"]
    tcp = F.has_tcp(case)
    ch = Chain()
    cmds = {}
    for k, h, cmd in F.fixture_steps(case):
        cmds.setdefault(k, []).append((h, cmd))
    sends_ok = {(s[0], s[1], s[2]) for s in obs["sends"] if s[4] == 8}
    log_by_tick = {}
    for e in obs["log"]:
        log_by_tick.setdefault(e[1], []).append((e[0], e[2]))
    for t in log_by_tick:
        if t % TICK != 0:
            out.append(("rule invoked at %d ns, which is not a scheduler tick" % t, None))
    arrivals = {}
    for a in obs["arr"]:
        arrivals.setdefault(a[1], []).append(a)
    expect = []          # (tag, kind, info)
    deadlines = []       # (deadline, emission index, tag, dst host, family)
    em = 0
    for k in range(nst):
        queued = {h: [] for h in range(len(hosts))}
        for h, cmd in cmds.get(k, []):
            if cmd[0] == "udp":
                if (h, k, cmd[2]) in sends_ok:
                    queued[h].append(F.udp_desc(hosts[h], cmd[1], cmd[2]))
            else:
                ch.op(cmd)
        T = (k + 1) * TICK
        seg = log_by_tick.get(T, [])
        pkts = []
        for h in range(len(hosts)):
            for d in queued[h]:
                if F.is_local(hosts[h], d[1]):
                    expect.append((d[6], "at", (h, T, "local destination, folds back inside egress")))
                    if any(e[2][6] == d[6] and e[2][2] == 0 for e in obs["log"]):
                        out.append(("datagram %d to %s is local to host %d but was shown to a rule" % (d[6], d[1], h), None))
                else:
                    pkts.append(d)
        if tcp:
            # packets of this tick = what the tap (rule 1, first in the chain, always Pass) saw
            pkts = [d for key, d in seg if key == 1]
            for d in pkts:
                so = F.owner(hosts, d[0])
                if F.is_loopback(d[1]) or (so is not None and F.is_local(hosts[so], d[1])):
                    out.append(("packet %s with a destination local to its sender was shown to the rules" % d[:7], None))
        pos = 0
        for d in pkts:
            keys, want = ch.walk(d)
            got = seg[pos:pos + len(keys)]
            pos += len(keys)
            if [g[0] for g in got] != keys or any(g[1] != d for g in got):
                out.append(("tick %d: packet %s: rules invoked %s, first match over the installed chain %s requires %s"
                            % (k + 1, d[6] or d[:6], [g[0] for g in got], [r[0] for r in ch.rules], keys), None))
                return out
            if d[2] != 0:
                continue
            dh = F.owner(hosts, d[1])
            if dh is None:
                expect.append((d[6], "never", "destination address belongs to no host"))
            elif want == "drop":
                expect.append((d[6], "never", "verdict Drop"))
            elif want == "pass" or want[1] == 0:
                expect.append((d[6], "at", (dh, T, "verdict %s at tick %d" % (want, k + 1))))
                deadlines.append((T, em, d[6], dh, F.fam(d[1])))        # zero delay: its deadline is this very tick
            else:
                expect.append((d[6], "window", (dh, T + want[1], "Deliver(%d ns) emitted at %d ns" % (want[1], T))))
                deadlines.append((T + want[1], em, d[6], dh, F.fam(d[1])))
            em += 1
        if pos != len(seg):
            out.append(("tick %d: %d rule invocations not explained by first match (%s)" % (k + 1, len(seg) - pos, [g[0] for g in seg[pos:pos + 4]]), None))
            return out
    end = nst * TICK
    for tag, kind, info in expect:
        arr = arrivals.get(tag, [])
        if kind == "never":
            if arr:
                out.append(("datagram %d was delivered (host %d at %d ns) although: %s" % (tag, arr[0][0], arr[0][3], info), None))
        elif kind == "at":
            h, T, why = info
            if T > end:
                continue
            if len(arr) != 1 or arr[0][0] != h or arr[0][3] != T:
                out.append(("datagram %d must arrive at host %d at %d ns (%s); observed arrivals %s" % (tag, h, T, why, [a[:1] + a[3:] for a in arr]), None))
        else:
            h, dl, why = info
            if arr and (len(arr) > 1 or arr[0][0] != h):
                out.append(("datagram %d delivered %d times / to host %d instead of %d" % (tag, len(arr), arr[0][0], h), None))
            elif arr and arr[0][3] < dl:
                out.append(("datagram %d arrived at %d ns, earlier than its deadline %d ns (%s)" % (tag, arr[0][3], dl, why), None))
            elif arr and arr[0][3] >= dl + TICK:
                out.append(("datagram %d arrived at %d ns, more than one tick after its deadline %d ns (%s)" % (tag, arr[0][3], dl, why), None))
            elif not arr and dl <= end:
                out.append(("datagram %d never arrived although its deadline %d ns passed before the end of the run (%s)" % (tag, dl, why), None))
    # equal deadlines keep emission order (per receiving socket)
    order = {}
    for i, a in enumerate(obs["arr"]):
        order.setdefault(a[1], i)
    groups = {}
    for dl, e, t, h, f in sorted(deadlines):
        groups.setdefault((dl, h, f), []).append(t)
    for (dl, h, f), tags in groups.items():
        seen = [t for t in tags if t in order]
        for t1, t2 in zip(seen, seen[1:]):
            if order[t1] > order[t2]:
                out.append(("datagrams %d and %d (to host %d) share the deadline %d ns but arrived out of emission order (%d left its host first)"
                            % (t1, t2, h, dl, t1), None))
    return out


def c19_nontrivial(case, obs):
    """a packet met >= 2 installed rules, or a positive delay was applied"""
    log = obs.get("log", [])
    keys = {e[0] for e in log}
    if len(keys) >= 2:
        return True
    return bool(log) and any(a[3] > 0 for a in obs.get("arr", []) if len(a) > 3)


class Spec(PropSpec):
    pid = "C19"
    subsys = "NetPure"
    props_file = "C19.v"
    coq_targets = ["C19.vo"]
    theorems = ["evaluate_first_match", "uninstall_preserves_order", "chain_in_installation_order",
                "removed_never_consulted", "forgotten_guard_stays", "permanent_rule_stays",
                "pending_sorted", "scheduler_refines_spec", "deliver_not_early", "deliver_within_tick",
                "deliver_when_due", "equal_deadline_fifo", "drop_never_delivered", "delivered_at_most_once", "zero_delay_immediate",
                "loopback_not_in_out", "rules_see_only_egress", "c19_nonvacuous"]
    consts = NETPURE_CONSTS
    anchors = ANCHORS
    harness_bins = ["rules"]
    coq_header = F.HEADER
    model_name = "TV.NetPure.Fixture"
    rule = ("scripts = rule installs (Net::rule, EnterGuard::rule, rule() from tasks), guard drops and forgets "
            "interleaved with uniquely tagged datagrams (and TCP connections) between 1-4 hosts incl. loopback, own-address "
            "and unknown destinations; manual mode = harness is the wire (egress_all/evaluate/deliver), fixture mode = "
            "fixture::lo / ClientServer on the paused clock; a case is non-trivial when packets met at least two rules "
            "or a positive delay was applied; distinct = distinct (mode, hosts, script)")
    assumptions = [
        "a rule is a deterministic FnMut: its answer is a function of the packets it has been shown so far and the current packet (theorems quantify over all such functions)",
        "RuleGuards are only created by the installers (RuleGuard::new(id) is public; fabricating a second guard for a forgotten rule is outside the model)",
        "Scheduler::schedule's binary search is modelled as insertion in front of the first entry with a key >= the new one (equal on sorted lists, sortedness is theorem pending_sorted)",
        "tokio's paused clock, timer granularity (1 ms) and LocalSet::run_until polling order are modelled-not-verified; the fixture-mode correspondence observes them",
    ]

    def gen_cases(self, ctx):
        rng = ctx.rng
        q = ctx.tier == "quick"
        n = 1 if q else 8
        if ctx.escalate:
            n *= 2
        cases = []
        ex = F.exhaustive_chains() + F.exhaustive_sched()
        cases += ex if not q else rng.sample(ex, 60)
        cases += [F.gen_manual(rng) for _ in range(80 * n)]
        cases += [F.gen_manual(rng, with_tcp=True) for _ in range(40 * n)]
        cases += [F.gen_fixture(rng) for _ in range(80 * n)]
        cases += [F.gen_fixture(rng, sched_focus=True) for _ in range(60 * n)]
        cases += [F.gen_fixture(rng, lo=True) for _ in range(15 * n)]
        cases += [F.gen_fixture(rng, with_tcp=True) for _ in range(40 * n)]
        cases += [F.gen_coincide(rng, variant=v) for v in (0, 1, 2) for _ in range(6 * n)]
        cases += [F.gen_batch_drop(rng) for _ in range(30 * n)]
        return cases

    def to_model(self, case, obs):
        return F.to_model(case, obs)

    def compare(self, case, obs, model, probes):
        return F.compare(case, obs, model, probes)

    def oracle(self, case, obs):
        if obs.get("panic"):
            return []
        return oracle_manual(case, obs) if case["mode"] == "manual" else oracle_fixture(case, obs)

    def nontrivial(self, case, obs):
        return not obs.get("panic") and c19_nontrivial(case, obs)

    def signature(self, case):
        return F.case_signature(case)

    def histogram(self, cases):
        return F.histogram(cases)


SPEC = Spec()
