"""C05 - virtual clocks advance exactly one tick per step and agree with each other."""
import fam_simcore as F
from pipeline import PropSpec

MS = F.MS

ANCHORS = [("crates/turmoil/src/sim.rs", f) for f in ("step", "client", "host", "elapsed", "since_epoch", "crash", "bounce")] + [
    ("crates/turmoil/src/host.rs", f) for f in ("new", "tick", "now", "elapsed", "sim_elapsed", "since_epoch")] + [
    ("crates/turmoil/src/rt.rs", f) for f in ("tick", "now", "init")] + [
    ("crates/turmoil/src/world.rs", f) for f in ("tick", "register")] + [
    ("crates/turmoil/src/lib.rs", f) for f in ("elapsed", "sim_elapsed", "since_epoch")]

K_TICK = "TickNotWholeMs"
K_FAILED = "FailedStepClocks"


def c05_oracle(case, obs):
    out = []
    cfg = case["cfg"]
    tick = cfg["tick_ns"]
    epoch = F.epoch_of(cfg)          # the CONFIGURED epoch, not what the simulation reports
    incs, evinfo = F.incarnations(case, obs)
    offset = {}                    # host -> Sim::elapsed at registration
    for d in incs:
        if d["inc"] == 0:
            offset[d["host"]] = d["start_time"]
    failed_at = None               # first event whose step failed with a software error
    prev_elapsed = 0
    for k, info in enumerate(evinfo):
        name, o = info["name"], info["o"]
        if "elapsed" in o:
            if o["elapsed"] < prev_elapsed:
                out.append(("event %d: Sim::elapsed went back from %d to %d" % (k, prev_elapsed, o["elapsed"]), None))
            prev_elapsed = o["elapsed"]
            if o["since_epoch"] != epoch + o["elapsed"]:
                out.append(("event %d: Sim::since_epoch %d != epoch %d + Sim::elapsed %d" % (k, o["since_epoch"], epoch, o["elapsed"]), None))
        if name == "step":
            r = o["r"]
            if r.startswith("panic"):
                break
            adv = info["after"] - info["before"]
            if r == "err:software":
                if failed_at is None:
                    failed_at = k
                if adv != tick:
                    out.append(("event %d: a step that returned a software error advanced Sim::elapsed by %d instead of the tick %d" % (k, adv, tick), K_FAILED))
            elif adv != tick:
                out.append(("event %d: step (%s) advanced Sim::elapsed by %d, tick is %d" % (k, r, adv, tick), None))
        elif name == "run":
            r = o["r"]
            if r.startswith("panic"):
                break
            n = len(o["orders"])
            adv = info["after"] - info["before"]
            if r == "err:software":
                if failed_at is None:
                    failed_at = k
                if adv != n * tick:
                    out.append(("event %d: run made %d steps (the last returned a software error) but Sim::elapsed advanced by %d" % (k, n, adv), K_FAILED))
            elif adv != n * tick:
                out.append(("event %d: run (%s) made %d steps but Sim::elapsed advanced by %d (tick %d)" % (k, r, n, adv, tick), None))
        elif name in ("crash", "bounce", "client", "host", "probe"):
            if info["after"] != info["before"]:
                out.append(("event %d (%s) changed Sim::elapsed" % (k, name), None))
    # ---- what host code read ---------------------------------------------------
    last = {}
    for e in obs.get("log", []):
        host, inc, task, op, aux, evi, el, se, ep, inst = e
        if evi < 0 or evi >= len(evinfo):
            continue
        info = evinfo[evi]
        if info["o"].get("r", "").startswith("panic"):
            continue
        klass = K_FAILED if (failed_at is not None and evi >= failed_at) else None
        where = "n%d incarnation %d task %d op %d in event %d" % (host, inc, task, op, evi)
        if se is None or ep is None:
            out.append(("%s: sim_elapsed()/since_epoch() returned None inside host code" % where, None))
            continue
        if se != el + offset.get(host, 0):
            out.append(("%s: sim_elapsed %d != elapsed %d + registration time %d" % (where, se, el, offset.get(host, 0)), klass))
        if ep != epoch + se:
            out.append(("%s: since_epoch %d != epoch %d + sim_elapsed %d" % (where, ep, epoch, se), None))
        lo = info["before"]
        hi = lo + tick if info["name"] == "step" else max(info["after"], lo + tick)
        if not (lo <= se <= hi):
            out.append(("%s: sim_elapsed %d outside the window [%d, %d] of its step" % (where, se, lo, hi), klass))
        p = last.get(host)
        if p is not None and (el < p[0] or se < p[1] or ep < p[2]):
            out.append(("%s: host clocks went back: elapsed %d->%d sim_elapsed %d->%d" % (where, p[0], el, p[1], se), klass))
        last[host] = (el, se, ep)
    # ---- clock reads made by destructors (task end, crash, bounce) ------------------
    for d in obs.get("drops", []):
        if len(d) < 6 or d[4] is None or d[3] < 0 or d[3] >= len(evinfo):
            continue
        host, inc, task, evi, se, ep = d[:6]
        info = evinfo[evi]
        if info["o"].get("r", "").startswith("panic"):
            continue
        klass = K_FAILED if (failed_at is not None and evi >= failed_at) else None
        where = "destructor of n%d incarnation %d task %d in event %d (%s)" % (host, inc, task, evi, info["name"])
        if ep != epoch + se:
            out.append(("%s: since_epoch %d != epoch %d + sim_elapsed %d" % (where, ep, epoch, se), None))
        if info["name"] in ("crash", "bounce"):
            # the host is between steps: its clock shows the completed steps
            if se != info["before"] and klass is None:
                out.append(("%s: sim_elapsed() = %d while Sim::elapsed is %d" % (where, se, info["before"]), None))
        else:
            lo = info["before"]
            hi = lo + tick if info["name"] == "step" else max(info["after"], lo + tick)
            if not (lo <= se <= hi):
                out.append(("%s: sim_elapsed %d outside the window [%d, %d] of its step" % (where, se, lo, hi), klass))
    # ---- clock reads made by a host's software factory when it is (re)started ---------
    for f in obs.get("factory", []):
        host, inc, evi, se, ep = f
        if se is None or evi < 0 or evi >= len(evinfo):
            continue
        info = evinfo[evi]
        klass = K_FAILED if (failed_at is not None and evi >= failed_at) else None
        where = "software factory of n%d (incarnation %d) called in event %d (%s)" % (host, inc, evi, info["name"])
        if ep != epoch + se:
            out.append(("%s: since_epoch %d != epoch %d + sim_elapsed %d" % (where, ep, epoch, se), None))
        if se != info["before"] and klass is None:
            out.append(("%s: sim_elapsed() = %d while Sim::elapsed is %d" % (where, se, info["before"]), None))
        p = last.get(host)
        if p is not None and klass is None and [e for e in obs.get("log", []) if e[0] == host and e[5] > evi and e[7] is not None and e[7] < se]:
            out.append(("%s: read sim_elapsed %d, later reads of the host are smaller (clock went back)" % (where, se), None))
    # ---- a whole-ms timer fires at exactly its virtual instant ---------------------
    by_task = {}
    for e in obs.get("log", []):
        if e[4] == 0 and e[2] < 998:
            by_task.setdefault((e[0], e[1], e[2]), {})[e[3]] = e
    for (host, inc, task), ents in by_task.items():
        prog = F.host_prog(case, host, inc)
        if prog is None:
            continue
        ops = prog["main"] if task == 0 else prog["tasks"][task - 1]["ops"]
        for k in range(len(ops) - 2):
            if ops[k][0] == "obs" and ops[k + 1][0] == "sleep" and ops[k + 2][0] == "obs" and k in ents and k + 2 in ents:
                a, b = ents[k], ents[k + 2]
                if failed_at is not None and b[5] >= failed_at:
                    continue
                d = ops[k + 1][1]
                for (nm, i) in (("elapsed", 6), ("sim_elapsed", 7), ("since_epoch", 8)):
                    got = b[i] - a[i]
                    if d % MS == 0:
                        okk = got == d
                    else:
                        okk = d <= got < d + MS
                    if not okk:
                        klass = K_TICK if tick % MS != 0 else None
                        out.append(("n%d incarnation %d task %d: sleep(%d ns) between two reads took %d ns of %s() (tick %d ns)" % (
                            host, inc, task, d, got, nm, tick), klass))
                        break
    return out


def c05_nontrivial(case, obs):
    n = 0
    for e in obs.get("log", []):
        if e[2] < 998 and e[6] > 0:
            n += 1
    return n >= 2


# ---- generators ----------------------------------------------------------------------

def gen_clock_case(rng, odd=0.15, fail=0.0):
    cfg = F.base_cfg(rng, odd=odd, duration_ticks=rng.choice([50, 100, 1000]))
    tick = cfg["tick_ns"]
    whole = rng.random() < 0.6
    script = [["step"]] * rng.choice([0, 0, 0, 1, 2, 4])       # steps of a still empty simulation
    kinds = []

    def prog(client):
        end = "never"
        r = rng.random()
        if r < 0.3:
            end = "ok"
        elif r < 0.3 + fail:
            end = rng.choice(F.ERR_KINDS)
        p = F.gen_prog(rng, tick, end=end, whole=whole, ticker=rng.random() < 0.7,
                       tasks=rng.choice([0, 1, 1, 2, 3]), nops=rng.randrange(1, 8))
        for t in p["tasks"]:
            t["end"] = rng.choice(["ok", "never"])
        return p

    def add():
        client = rng.random() < 0.35
        kinds.append(client)
        if client:
            script.append(["client", prog(True)])
        else:
            script.append(["host", [prog(False) for _ in range(rng.choice([1, 2, 3]))]])
    for _ in range(rng.choice([1, 1, 2, 3])):
        add()
    down = {}
    for _ in range(rng.randrange(6, 26)):
        r = rng.random()
        hosts = [i for i, c in enumerate(kinds) if not c]
        if r < 0.08:
            add()
        elif r < 0.2 and hosts:
            h = rng.choice(hosts)
            sel = F_sel(rng, h, len(kinds), kinds)
            script.append(["crash", sel])
        elif r < 0.32 and hosts:
            h = rng.choice(hosts)
            script.append(["bounce", F_sel(rng, h, len(kinds), kinds)])
        elif r < 0.36:
            script.append(["probe"])
        else:
            script.append(["step"])
    if rng.random() < 0.3:
        script.append(["run"])
    script.append(["probe"])
    return {"cfg": cfg, "script": script, "flavour": "clock" if fail == 0.0 else "clock-failing"}


def F_sel(rng, h, n, kinds):
    r = rng.random()
    if r < 0.55:
        return {"h": h}
    if r < 0.75:
        return {"ip": h}
    if r < 0.9:
        return {"re": "^n%d$" % h}
    # a regex selecting every host registered so far (never a client)
    hosts = [i for i in range(n) if not kinds[i]]
    return {"re": "^n(%s)$" % "|".join(str(i) for i in hosts)}


def gen_empty_steps():
    """Step a simulation with NOTHING registered k times (k = 1..5), then register the first host /
    client, step, register another one, step: Sim::elapsed = steps x tick throughout, late nodes start at
    the Sim::elapsed of their registration."""
    out = []
    for tick in (1 * MS, 2 * MS, 7 * MS, 700000):
        for k in range(1, 6):
            for first in ("host", "client"):
                p = {"main": [["obs"], ["sleep", 2 * MS], ["obs"], ["sleep", 3 * MS], ["obs"]], "end": "never", "ticker": True, "tasks": []}
                q = {"main": [["obs"], ["sleep", 1 * MS], ["obs"]], "end": "ok", "ticker": False, "tasks": []}
                script = [["step"]] * k + [["probe"]]
                script += [["host", [p]]] if first == "host" else [["client", q]]
                script += [["step"]] * 3 + [["probe"]]
                script += [["client", q]] if first == "host" else [["host", [p]]]
                script += [["step"]] * 4 + [["probe"]]
                cfg = {"tick_ns": tick, "duration_ns": 1000 * MS, "epoch_ns": F.EPOCHS[(k + 3) % len(F.EPOCHS)],
                       "random_order": k % 2 == 0, "seed": k}
                out.append({"cfg": cfg, "script": script, "flavour": "clock-empty-sim"})
    return out


def gen_finished_hosts():
    """Hosts whose main future has returned Ok but left spawned tasks (with clock-reading drop guards)
    behind; they are crashed / bounced some steps later, with and without real time passing in
    between (wall_sleep), and restarted hosts read the clocks in their factory closure."""
    out = []
    for tick in (1 * MS, 3 * MS):
        for after in (0, 2, 5):
            for what in ("bounce", "crash-bounce", "bounce-bounce"):
                for wall in (0, 40):
                    p = {"main": [["obs"], ["sleep", 1 * MS], ["obs"]], "end": "ok", "ticker": True,
                         "tasks": [{"ops": [["sleep", 50 * MS], ["obs"]], "end": "never"}, {"ops": [["obs"]], "end": "never"}]}
                    q = {"main": [["obs"], ["sleep", 2 * MS], ["obs"]], "end": "never", "ticker": True, "tasks": []}
                    script = [["host", [p, q]], ["host", [q]]] + [["step"]] * (3 + after)
                    if wall:
                        script.append(["wall_sleep", wall])
                    if what == "bounce":
                        script += [["bounce", {"h": 0}]]
                    elif what == "crash-bounce":
                        script += [["crash", {"h": 0}], ["step"], ["bounce", {"ip": 0}]]
                    else:
                        script += [["bounce", {"re": "^n[01]$"}], ["step"], ["step"], ["bounce", {"h": 0}]]
                    script += [["step"]] * 4 + [["probe"]]
                    cfg = {"tick_ns": tick, "duration_ns": 1000 * MS, "epoch_ns": F.EPOCHS[(after + wall) % len(F.EPOCHS)],
                           "random_order": False, "seed": after}
                    out.append({"cfg": cfg, "script": script, "flavour": "clock-finished-hosts"})
    return out


def gen_crash_points():
    """Exhaustive small family: one host reading clocks around a sleep, crashed after
    i steps and bounced after j more, a late client, ticks 1/2/3 ms and 700 us."""
    out = []
    for tick in (1 * MS, 2 * MS, 3 * MS, 700000):
        for d in (0, 1, 2, 3, 5):
            for i in range(0, 4):
                for j in range(0, 3):
                    p = {"main": [["obs"], ["sleep", d * MS], ["obs"], ["sleep", MS], ["obs"]], "end": "never",
                         "ticker": True, "tasks": [{"ops": [["sleep", 2 * MS], ["obs"]], "end": "never"}]}
                    script = [["host", [p]]] + [["step"]] * i + [["crash", {"h": 0}]] + [["step"]] * j
                    script += [["client", {"main": [["obs"], ["sleep", d * MS], ["obs"]], "end": "ok", "ticker": False, "tasks": []}]]
                    script += [["bounce", {"h": 0}]] + [["step"]] * 6 + [["probe"]]
                    cfg = {"tick_ns": tick, "duration_ns": 1000 * MS, "epoch_ns": F.EPOCHS[(i + j + d) % len(F.EPOCHS)],
                           "random_order": (i + j) % 2 == 0, "seed": i * 7 + j}
                    out.append({"cfg": cfg, "script": script, "flavour": "clock-crashpoints"})
    return out


class Spec(PropSpec):
    pid = "C05"
    subsys = "SimCore"
    props_file = "C05.v"
    theorems = ["c05_step_advances", "c05_consistent", "c05_monotone", "c05_crash_bounce_neutral", "c05_window",
                "c05_window_scripted", "c05_timer_exact", "c05_lockstep_reached", "c05_wtick_whole",
                "c05_tokio_sleep_exact", "c05_timer_exact_scripted", "c05_timer_exact_refuted", "c05_failed_step_refuted", "c05_empty_sim_steps", "c05_nonvacuous"]
    coq_targets = ["C05.vo"]
    consts = []
    anchors = ANCHORS
    harness_bins = ["simcore"]
    coq_header = F.HEADER
    model_name = "TV.SimCore.Model+TokioClock"
    rule = ("scripts = hosts/clients (registered before the first step and between steps) whose tasks sleep, time out, tick intervals "
            "and read elapsed()/sim_elapsed()/since_epoch()/Instant::now(); Sim::step / run / crash / bounce with any downtime, probes of "
            "Sim::elapsed / Sim::since_epoch; ticks 1..10 ms plus non-ms ticks; a case is non-trivial when host code read a clock at a "
            "non-zero virtual time at least twice; distinct = distinct (tick, duration, script)")
    assumptions = [
        "TokioClock.v is an assumed model of tokio's paused clock (ms timer wheel, auto-advance, run_until polls its own sleep first); "
        "modelled, not verified; validated here by comparing every clock read (incl. tokio Instant) with the model",
        "HostTimer::elapsed() is only meaningful under the host's paused clock: reads outside a host's Rt::tick (controller, destructors "
        "during Sim::crash) fall back to the wall clock and are outside the model",
        "theorems about consistency are for histories whose steps did not return a software error (finding FailedStepClocks)",
    ]
    partial_note = ("the tokio side (which offsets occur, when timers fire) is an assumed environment model (TokioClock.v), validated by "
                    "correspondence only; the composed timer-exactness theorem is stated for the main future of scripted software")

    def gen_cases(self, ctx):
        n = 300 if ctx.tier == "quick" else 3000
        if ctx.escalate:
            n *= 2
        cases = [gen_clock_case(ctx.rng) for _ in range(n)]
        cases += [gen_clock_case(ctx.rng, fail=0.25) for _ in range(n // 10)]
        ex = gen_crash_points()
        if ctx.tier == "quick":
            ex = ctx.rng.sample(ex, 120)
        fin = gen_finished_hosts()
        if ctx.tier == "quick":
            # all without real sleeps, a few of the (slow) ones with
            fin = [c for c in fin if not any(e[0] == "wall_sleep" for e in c["script"])] + \
                  ctx.rng.sample([c for c in fin if any(e[0] == "wall_sleep" for e in c["script"])], 6)
        return gen_empty_steps() + fin + ex + cases

    def to_model(self, case, obs):
        return F.to_model(case, obs)

    def compare(self, case, obs, model, probes):
        return F.compare(case, obs, model, probes)

    def oracle(self, case, obs):
        if obs.get("panic"):
            return []
        return c05_oracle(case, obs)

    def nontrivial(self, case, obs):
        return not obs.get("panic") and c05_nontrivial(case, obs)

    def signature(self, case):
        return F.case_signature(case)

    def histogram(self, cases):
        return F.histogram(cases)


SPEC = Spec()
