"""C11 - Sim::run returns Ok exactly when every client finished Ok in time."""
import fam_simcore as F
from pipeline import PropSpec

MS = F.MS

ANCHORS = [("crates/turmoil/src/sim.rs", f) for f in ("run", "step", "client", "host", "crash", "bounce")] + [
    ("crates/turmoil/src/rt.rs", f) for f in ("tick", "crash", "bounce", "is_software_running", "cancel_tasks", "init")]


def live_at(incs, markers, k):
    """Incarnations whose software can still be running when event k starts."""
    out = []
    for d in incs:
        if d["start_ev"] >= k:
            continue
        if d["killed_ev"] is not None and d["killed_ev"] < k:
            continue
        m = markers.get((d["host"], d["inc"]))
        if m is not None and m[0] < k:
            continue
        out.append(d)
    return out


def predicted(d, tick, e0, alt):
    """(completion step (1-based) or None, end kind, panic step or None, exact) of a live
    incarnation for a run/step that starts at Sim::elapsed e0.  alt: attribute
    boundary completions to the earlier step."""
    m, ts, exact = F.script_timing(d["prog"], tick)

    def stepno(clk):
        rel = d["start_time"] + clk - e0
        if rel < 0:
            return 1
        k = rel // tick + 1
        if alt and rel % tick == 0 and rel > 0:
            k -= 1
        return k
    kc = None if d["prog"].get("end", "ok") == "never" else stepno(m)
    kp = None
    for (e, pan) in ts:
        if pan:
            s = stepno(e)
            if kc is None or s <= kc:
                kp = s if kp is None else min(kp, s)
    return kc, d["prog"].get("end", "ok"), kp, exact


def expect_run(live, tick, e0, duration, alt):
    """Closed-form verdict of Sim::run: -> (kind, steps, exact) with kind in
    ok | software | panic | software-or-panic | duration."""
    INF = 10 ** 18
    exact = tick % MS == 0
    M, E, kinds = 1, INF, set()
    for d in live:
        kc, end, kp, ex = predicted(d, tick, e0, alt)
        exact = exact and ex
        if d["client"]:
            M = max(M, INF if kc is None else kc)
        cands = []
        if kc is not None and (F.is_err(end) or end == "panic"):
            cands.append((kc, "software" if F.is_err(end) else "panic"))
        if kp is not None:
            cands.append((kp, "panic"))
        for (s, kd) in cands:
            if s < E:
                E, kinds = s, {kd}
            elif s == E:
                kinds.add(kd)
    D = 1 if duration < e0 else (duration - e0) // tick + 1      # first k with e0 + k*tick > duration
    if E > M and M <= D:
        return "ok", M, exact
    if E <= M and E <= D:
        # a panic and an error in the same step: whichever is polled first
        kind = "software-or-panic" if len(kinds) > 1 else next(iter(kinds))
        return kind, E, exact
    return "duration", D, exact


def c11_oracle(case, obs):
    out = []
    cfg = case["cfg"]
    tick, duration = cfg["tick_ns"], cfg["duration_ns"]
    incs, evinfo = F.incarnations(case, obs)
    markers = F.end_markers(obs)
    drops = F.main_drops(obs)
    broken = False      # a step failed: the simulation is over, timing predictions stop
    any_client_before = lambda k: any(d["client"] and d["start_ev"] < k for d in incs)
    for k, info in enumerate(evinfo):
        name, o = info["name"], info["o"]
        if name not in ("run", "step"):
            continue
        r = o["r"]
        e0, e1 = info["before"], info["after"]
        live = live_at(incs, markers, k)
        here = {key: m for key, m in markers.items() if m[0] == k}
        endkind = {(d["host"], d["inc"]): d["prog"].get("end", "ok") for d in incs}
        unfinished = [d for d in live if d["client"] and (d["host"], d["inc"]) not in here]
        errs_here = [key for key in here if F.is_err(endkind[key])]
        n = len(o.get("orders", []))
        tag = "event %d (%s)" % (k, name)
        # ---- statements that do not depend on timing predictions -------------
        if name == "run":
            if r == "ok":
                if unfinished:
                    out.append(("%s returned Ok although client(s) %s never completed" % (tag, [d["host"] for d in unfinished]), None))
                if errs_here:
                    out.append(("%s returned Ok although software %s returned Err during it" % (tag, errs_here), None))
                if any_client_before(k):
                    if n < 1 or e1 != e0 + n * tick:
                        out.append(("%s Ok after %d steps but elapsed went %d -> %d (tick %d)" % (tag, n, e0, e1, tick), None))
                    if n > 1 and e0 + (n - 1) * tick > duration:
                        out.append(("%s returned Ok although the duration %d was exceeded before its last step (elapsed %d)" % (tag, duration, e1), None))
                elif n != 0 or e1 != e0:
                    out.append(("%s without any client must return at once, made %d steps" % (tag, n), None))
            elif r == "err:duration":
                if not unfinished:
                    out.append(("%s reported the duration exceeded although every client had completed" % tag, None))
                if e1 <= duration:
                    out.append(("%s reported the duration exceeded at elapsed %d <= duration %d" % (tag, e1, duration), None))
                if n > 1 and e1 - tick > duration:
                    out.append(("%s kept running after the duration was exceeded (elapsed %d, duration %d)" % (tag, e1, duration), None))
            elif r == "err:software":
                if not errs_here:
                    out.append(("%s returned a software error although no software returned Err" % tag, None))
                if e1 != e0 + (n - 1) * tick:
                    out.append(("%s software error after %d steps but elapsed went %d -> %d" % (tag, n, e0, e1), None))
        else:
            if r == "ok_true" and unfinished:
                out.append(("%s returned Ok(true) although client(s) %s have not completed" % (tag, [d["host"] for d in unfinished]), None))
            if r == "ok_false" and not unfinished:
                out.append(("%s returned Ok(false) although every client has completed" % tag, None))
            if r in ("ok_true", "ok_false") and errs_here:
                out.append(("%s returned Ok although software %s returned Err in it" % (tag, errs_here), None))
            if r == "ok_false" and e1 > duration:
                out.append(("%s returned Ok(false) although elapsed %d exceeds the duration %d" % (tag, e1, duration), None))
            if r == "err:duration" and (e1 <= duration or not unfinished):
                out.append(("%s reported the duration exceeded (elapsed %d, duration %d, unfinished clients %d)" % (tag, e1, duration, len(unfinished)), None))
            if r == "err:software" and not errs_here:
                out.append(("%s returned a software error although no software returned Err" % tag, None))
        # ---- the iff, with predicted completion instants (whole-ms regime) -----
        if not broken:
            verdicts = []
            exact = True
            for alt in (False, True):
                if name == "run":
                    if not any_client_before(k):
                        v = ("ok", 0, True)
                    else:
                        v = expect_run(live, tick, e0, duration, alt)
                else:
                    v = expect_step(live, tick, e0, duration, alt)
                verdicts.append(v[:2])
                exact = exact and v[2]
            got = classify(name, r, n)
            if exact and not any(matches(v, got) for v in verdicts):
                out.append(("%s: implementation %s, but by the scripted completion instants the result must be %s "
                            "(clients/hosts live: %s, elapsed before %d, duration %d, tick %d)" % (
                                tag, got, verdicts[0], [(d["host"], d["inc"], d["prog"].get("end")) for d in live],
                                e0, duration, tick), None))
        if r.startswith("panic") or r == "err:software":
            broken = True
    # ---- finished or crashed software is never polled again -------------------
    for e in obs.get("log", []):
        key = (e[0], e[1])
        x = drops.get(key)
        if x is not None and e[5] > x:
            out.append(("software of n%d incarnation %d read a clock in event %d although its main future was dropped in event %d" % (e[0], e[1], e[5], x), None))
    for d in incs:
        if d["killed_ev"] is not None:
            for e in obs.get("log", []):
                if (e[0], e[1]) == (d["host"], d["inc"]) and e[5] > d["killed_ev"]:
                    out.append(("n%d incarnation %d ran in event %d after it was crashed/bounced in event %d" % (
                        e[0], e[1], e[5], d["killed_ev"]), None))
                    break
    return out


def expect_step(live, tick, e0, duration, alt):
    """Verdict of one Sim::step: ok_true / ok_false / software / panic / duration."""
    exact = tick % MS == 0
    fin, kinds = True, set()
    for d in live:
        kc, end, kp, ex = predicted(d, tick, e0, alt)
        exact = exact and ex
        if kp == 1:
            kinds.add("panic")
        if kc == 1 and F.is_err(end):
            kinds.add("software")
        if kc == 1 and end == "panic":
            kinds.add("panic")
        if d["client"] and kc != 1:
            fin = False
    if kinds:
        return ("software-or-panic" if len(kinds) > 1 else next(iter(kinds))), 1, exact
    if not fin and e0 + tick > duration:
        return "duration", 1, exact
    return ("ok_true" if fin else "ok_false"), 1, exact


def classify(name, r, n):
    if r.startswith("panic"):
        return ("panic", n)
    if name == "run":
        return ({"ok": "ok", "err:software": "software", "err:duration": "duration"}.get(r, r), n)
    return ({"err:software": "software", "err:duration": "duration"}.get(r, r), 1)


def matches(v, got):
    kind, n = v
    if kind == "software-or-panic":
        return got[0] in ("software", "panic") and got[1] == n
    return (kind, n) == got


# ---- generators ---------------------------------------------------------------------

def gen_run_case(rng, odd=0.1, panics=0.15):
    tick = None
    cfg = F.base_cfg(rng, tick, odd=odd)
    tick = cfg["tick_ns"]
    whole = tick % MS == 0 and rng.random() < 0.8
    script = []
    nsw = 0

    def end_choice(client):
        r = rng.random()
        if client:
            return "ok" if r < 0.7 else ("err" if r < 0.82 else ("never" if r < 0.92 else ("panic" if rng.random() < panics * 4 else "ok")))
        return "never" if r < 0.5 else ("ok" if r < 0.75 else ("err" if r < 0.9 else ("panic" if rng.random() < panics * 4 else "never")))

    def add(client):
        nonlocal nsw
        nsw += 1
        if client:
            script.append(["client", F.gen_prog(rng, tick, end=end_choice(True), whole=whole,
                                                panic_tasks=panics * 0.3)])
        else:
            n = rng.choice([1, 1, 2])
            script.append(["host", [F.gen_prog(rng, tick, end=end_choice(False), whole=whole,
                                               panic_tasks=panics * 0.3) for _ in range(n)]])
    kinds = [rng.random() < 0.55 for _ in range(rng.choice([0, 1, 2, 2, 3, 4]))]
    for c in kinds:
        add(c)
    for _ in range(rng.choice([0, 0, 0, 1, 2])):
        script.append(["step"])
    hosts = [i for i, c in enumerate(kinds) if not c]
    if hosts and rng.random() < 0.35:
        h = rng.choice(hosts)
        script.append(["crash", {"h": h}])
        if rng.random() < 0.4:
            script.append(["bounce", {"h": h}])
    script.append(["run"])
    script.append(["probe"])
    for _ in range(rng.choice([0, 0, 1, 2])):
        if rng.random() < 0.7:
            add(rng.random() < 0.7)
        if rng.random() < 0.3:
            script.append(["step"])
        script.append(["run"])
    script.append(["step"])
    script.append(["probe"])
    return {"cfg": cfg, "script": script, "flavour": "run"}


def gen_boundary_cases():
    """Exhaustive small family: one client sleeping s, one host ending e at time h,
    duration d around the completion step, tick 2 ms."""
    out = []
    tick = 2 * MS
    for s in (0, 1, 2, 3, 4, 6):
        for dur in (0, 1, 2, 3, 4, 5, 6, 7):
            for hend, hs in (("never", 0), ("err", 2), ("err_cancelled", 4), ("ok", 2), ("panic", 4), ("err_io", 2),
                             ("err_joinpanic", 4)):
                for cend in ("ok", "err", "err_cancelled", "err_joinpanic", "err_io"):
                    cfg = {"tick_ns": tick, "duration_ns": dur * MS, "epoch_ns": 7 * MS + 3, "random_order": (s + dur) % 2 == 1, "seed": s * 31 + dur}
                    script = [["host", [{"main": [["sleep", hs * MS]], "end": hend, "ticker": True, "tasks": []}]],
                              ["client", {"main": [["sleep", s * MS]], "end": cend, "ticker": False, "tasks": []}],
                              ["run"], ["probe"], ["run"], ["step"], ["probe"]]
                    out.append({"cfg": cfg, "script": script, "flavour": "run-boundary"})
    return out


def gen_panic_cases():
    """Deterministic family: a panic raised in a task of every kind (spawn_local, tokio::spawn detached /
    awaited / spawned by a local task) of a client, a host or a bounced host, at virtual times around
    the completion of the client; driven by Sim::run and by Sim::step."""
    out = []
    tick = 2 * MS
    for kind in ("local", "spawn", "spawn_awaited", "nested"):
        for where in ("client", "host", "bounced"):
            for pt in (0, 1, 2, 4, 6):
                for cs in (3, 4):
                    for drive in ("run", "steps"):
                        task = {"ops": [["sleep", pt * MS]], "end": "panic"}
                        if kind != "local":
                            task["kind"] = kind
                        quiet = {"main": [["sleep", 100 * MS]], "end": "never", "ticker": True, "tasks": []}
                        bad = {"main": [["sleep", 100 * MS]], "end": "never", "ticker": False, "tasks": [task]}
                        client = {"main": [["sleep", cs * MS]], "end": "ok", "ticker": False, "tasks": []}
                        script = []
                        if where == "client":
                            script += [["host", [quiet]], ["client", dict(client, tasks=[task])]]
                        elif where == "host":
                            script += [["host", [bad]], ["client", client]]
                        else:
                            script += [["host", [quiet, bad]], ["step"], ["bounce", {"h": 0}], ["client", client]]
                        script += [["run"]] if drive == "run" else [["step"]] * 5
                        script += [["probe"]]
                        cfg = {"tick_ns": tick, "duration_ns": 100 * MS, "epoch_ns": 11, "random_order": (pt + cs) % 2 == 0, "seed": pt}
                        out.append({"cfg": cfg, "script": script, "flavour": "run-panics"})
    return out


def gen_step_case(rng):
    """The same mixes driven by Sim::step only (step consistent with run)."""
    c = gen_run_case(rng, odd=0.05)
    script = []
    for ev in c["script"]:
        if ev[0] == "run":
            script.extend([["step"]] * rng.randrange(1, 7))
        else:
            script.append(ev)
    c["script"] = script
    c["flavour"] = "steps"
    return c


class Spec(PropSpec):
    pid = "C11"
    subsys = "SimCore"
    props_file = "C11.v"
    theorems = ["run_terminates", "c11_ok_iff", "c11_ok_steps", "c11_no_clients", "c11_err_asap",
                "c11_timeout_asap", "c11_order_independent", "c11_hosts_dont_block", "c11_no_repoll",
                "c11_step_consistent", "c11_nonvacuous"]
    coq_targets = ["C11.vo"]
    consts = []
    anchors = ANCHORS
    harness_bins = ["simcore"]
    coq_header = F.HEADER
    model_name = "TV.SimCore.Model"
    rule = ("scripts = registration of clients/hosts whose software is sleeps + a scripted end (Ok/Err/never/panic, main future or "
            "spawned task), Sim::run / Sim::step / crash / bounce calls; ticks 1..10 ms and some non-ms ticks, durations around "
            "the completion step, repeated runs, zero clients; a case is non-trivial when a run or step is decided by at least "
            "two competing conditions (a client completion plus an error, a never-ending software or the duration); "
            "distinct = distinct (tick, duration, script)")
    assumptions = [
        "software is modelled by the state of its JoinHandle after each Rt::tick (arbitrary function of the local poll index); "
        "the theorems quantify over all such functions and over all host-order oracles",
        "completion instants of the scripted software used in the correspondence come from the assumed TokioClock model",
    ]
    partial_note = ("panic forwarding (tokio unhandled_panic=ShutdownRuntime under --cfg tokio_unstable) is outside the model: "
                    "checked by correspondence only (catch_unwind around Sim::run / Sim::step)")

    def gen_cases(self, ctx):
        n = 260 if ctx.tier == "quick" else 3000
        if ctx.escalate:
            n *= 2
        cases = [gen_run_case(ctx.rng) for _ in range(n)] + [gen_step_case(ctx.rng) for _ in range(n // 3)]
        ex = gen_boundary_cases()
        if ctx.tier == "quick":
            ex = ctx.rng.sample(ex, 160)
        pc = gen_panic_cases()
        if ctx.tier == "quick":
            pc = ctx.rng.sample(pc, 120)
        return pc + ex + cases

    def to_model(self, case, obs):
        return F.to_model(case, obs)

    def compare(self, case, obs, model, probes):
        return F.compare(case, obs, model, probes)

    def oracle(self, case, obs):
        if obs.get("panic"):
            return []
        return c11_oracle(case, obs)

    def nontrivial(self, case, obs):
        if obs.get("panic"):
            return False
        ends = set()
        for ev in case["script"]:
            for p in ([ev[1]] if ev[0] == "client" else (ev[1] if ev[0] == "host" else [])):
                ends.add(p.get("end", "ok"))
        return len(ends) >= 2 or any(o.get("r") == "err:duration" for o in obs.get("evs", []))

    def signature(self, case):
        return F.case_signature(case)

    def histogram(self, cases):
        return F.histogram(cases)


SPEC = Spec()
