"""C15 - ports and simulated addresses are never handed out twice while in use."""
import ipaddress
import re

import fam_ports as F
from pipeline import PropSpec

ANCHORS = [("crates/turmoil/src/host.rs", f) for f in (
    "assign_ephemeral_port", "is_port_assigned", "bind", "unbind", "new_stream", "close_stream_half",
    "reset_stream")] + [
    ("crates/turmoil/src/net/tcp/listener.rs", "bind"), ("crates/turmoil/src/net/tcp/listener.rs", "accept"),
    ("crates/turmoil/src/net/tcp/stream.rs", "connect"), ("crates/turmoil/src/net/udp.rs", "bind"),
    ("crates/turmoil/src/dns.rs", "lookup"), ("crates/turmoil/src/dns.rs", "reverse"),
    ("crates/turmoil/src/dns.rs", "to_ip_addr"), ("crates/turmoil/src/dns.rs", "to_ip_addrs"),
    ("crates/turmoil/src/ip.rs", "next")]

CONSTS = [
    ("default_ephemeral_lo", "crates/turmoil/src/config.rs", r"ephemeral_ports: (\d+)\.\.=\d+", "N"),
    ("default_ephemeral_hi", "crates/turmoil/src/config.rs", r"ephemeral_ports: \d+\.\.=(\d+)", "N"),
    ("v4_octet_a", "crates/turmoil/src/ip.rs", r"Ipv4Addr::new\((\d+), \d+, a, b\)", "N"),
    ("v4_octet_b", "crates/turmoil/src/ip.rs", r"Ipv4Addr::new\(\d+, (\d+), a, b\)", "N"),
    ("v6_group_0", "crates/turmoil/src/ip.rs", r"Ipv6Addr::new\((0x[0-9a-fA-F]+), 0, 0, 0, a, b, c, d\)", "N"),
    ("v4_first_host", "crates/turmoil/src/ip.rs", r"Self::V4 => IpVersionAddrIter::V4\((\d+)\)", "N"),
    ("v6_first_host", "crates/turmoil/src/ip.rs", r"Self::V6 => IpVersionAddrIter::V6\((\d+)\)", "N"),
]

HEADER = ("From TV.Lib Require Import Base.\nFrom TV.Ports Require Import Model Dns.\n"
          "Open Scope N_scope.\n")


# ---------------------------------------------------------------------------
# the property, stated on the implementation's observations only

def ports_oracle(case, obs):
    cfg = case["cfg"]
    lo, hi, n = cfg["lo"], cfg["hi"], cfg["nhosts"]
    out = []
    # live[h]: sid -> obj (udp/lst/stream/conn); objects are what the script holds
    live = [dict() for _ in range(n)]
    t = 0
    eph = []          # (t, host, port, what)
    holds = [[] for _ in range(n)]   # per host: [start, end|None, port|None, proto, obj]
    rst_watch = [[] for _ in range(n)]

    def start(h, o, proto):
        rec = [t, None, o.get("port"), proto, o]
        o["_rec"] = rec
        holds[h].append(rec)

    def stop(o):
        if "_rec" in o:
            o["_rec"][1] = t

    def held(h, proto_set, port, at, skip=None):
        for rec in holds[h]:
            if rec is skip or rec[2] != port or rec[3] not in proto_set:
                continue
            if rec[0] <= at and (rec[1] is None or rec[1] > at):
                return True
        return False

    pending_checks = []
    for item in F.walk(case, obs):
        t += 1
        if item[0] == "crash":
            for o in item[3].values():
                stop(o)
            continue
        if item[0] in ("bounce", "truncated"):
            continue
        if item[0] == "rst":
            # the RST of an abandoned connect reaches host T: if that connect had been accepted
            # there, the accepted stream is reset (its entry goes although the object lives on)
            _, k, T, src, sid, rport, code = item
            rst_watch[T].append((rport, code, t))
            continue
        if item[0] == "probe":
            k = item[1]
            tabs = obs["tables"][k]
            for T in range(n):
                if not rst_watch[T]:
                    continue
                present = {tuple(x) for x in tabs[T]["streams"]}
                for rec in holds[T]:
                    o = rec[4]
                    when = [tt for (rp, cd, tt) in rst_watch[T] if o.get("key") and o["key"][0] == rp and o["key"][1] == cd]
                    # (an outgoing stream with the same 4-tuple is reset as well: the entry is keyed by the pair)
                    if o["t"] == "stream" and tuple(o["key"]) not in present and when:
                        end = max(min(when), rec[0] + 1)
                        if rec[1] is None or rec[1] > end:
                            rec[1] = end
                rst_watch[T] = []
            for h in range(n):
                objs = [r[4] for r in holds[h] if r[1] is None]
                want_udp = sorted(o["port"] for o in objs if o["t"] == "udp")
                want_tcp = sorted(o["port"] for o in objs if o["t"] == "lst")
                nstreams = sum(1 for o in objs if o["t"] in ("stream", "conn"))
                if tabs[h]["udp"] != want_udp:
                    out.append(("after step %d host %d: UDP binds %s but the live UDP sockets hold %s (a dropped socket's port must be free, a live one's bound)" % (k, h, tabs[h]["udp"], want_udp), None))
                if tabs[h]["tcp"] != want_tcp:
                    out.append(("after step %d host %d: TCP binds %s but the live listeners hold %s" % (k, h, tabs[h]["tcp"], want_tcp), None))
                if len(tabs[h]["streams"]) != nstreams:
                    out.append(("after step %d host %d: %d stream entries %s but %d live streams / pending connects (ports of dropped, failed or crashed sockets must be released)" % (k, h, len(tabs[h]["streams"]), tabs[h]["streams"], nstreams), None))
            continue
        _, k, h, i, cmd, r, mev, eff = item
        if r is None:
            continue
        name = cmd[0]
        where = "step %d host %d %s" % (k, h, cmd)
        if name in ("udp_bind", "tcp_bind") and cmd[2] != "self":
            proto = "udp" if name == "udp_bind" else "tcp"
            port = cmd[3]
            if port == 0:
                if "ok" in r:
                    eph.append((t, h, r["ok"], where, None))
                elif "panic" in r and F.EXHAUSTED in r["panic"]:
                    pending_checks.append(("exhausted", t, h, where))
                else:
                    out.append(("%s: unexpected result %s for an ephemeral bind" % (where, r), None))
            else:
                busy = held(h, {proto}, port, t)
                if busy and r.get("err") != "AddrInUse":
                    out.append(("%s: port %d is bound by a live %s socket of the host but the bind returned %s instead of AddrInUse" % (where, port, proto, r), None))
                if not busy and "ok" not in r:
                    out.append(("%s: port %d is not bound in %s (other protocol / stream ports do not count) but the bind returned %s" % (where, port, proto, r), None))
                if "ok" in r and r["ok"] != port:
                    out.append(("%s: bound port %d differs from the requested one" % (where, r["ok"]), None))
        if name == "connect":
            if "panic" in r and F.EXHAUSTED in r["panic"]:
                pending_checks.append(("exhausted", t, h, where))
        if eff is None:
            continue
        kind = eff[0]
        if kind == "new":
            o = eff[2]
            proto = {"udp": "udp", "lst": "tcp", "stream": "stream", "conn": "stream"}[o["t"]]
            start(h, o, proto)
            if name == "connect" and o["t"] == "stream":
                eph.append((t, h, o["port"], where, o["_rec"]))
            if name == "connect":
                o["since"] = t
        elif kind == "resolved":
            o2, o = eff[2], eff[3]
            rec = o["_rec"]
            rec[2] = o2["port"]
            rec[4] = o2
            o2["_rec"] = rec
            eph.append((rec[0], h, o2["port"], "connect issued earlier, completed at " + where, rec))
        elif kind in ("del", "failed"):
            stop(eff[2])
        elif kind == "half":
            pass
    # every ephemeral result was free, at that moment, in both protocols and among streams
    for (at, h, port, where, own) in eph:
        if not (lo <= port <= hi):
            out.append(("%s: ephemeral port %d outside the configured range %d..=%d" % (where, port, lo, hi), None))
        for rec in holds[h]:
            if rec is own or rec[2] != port:
                continue
            if rec[0] < at and (rec[1] is None or rec[1] > at):
                # an accepted stream shares its listener's port by design; it still blocks assignment
                what = rec[4]["t"]
                if what in ("stream", "conn"):
                    what = ("outgoing " if rec[4].get("out") else "accepted ") + "TCP stream (local port %d)" % port
                out.append(("%s: ephemeral port %d was handed out while a live %s of the host held it" % (where, port, what), None))
    for (_, at, h, where) in pending_checks:
        known = set()
        unknown = 0
        for rec in holds[h]:
            if rec[0] < at and (rec[1] is None or rec[1] > at):
                if rec[2] is None:
                    unknown += 1
                elif lo <= rec[2] <= hi:
                    known.add(rec[2])
        if len(known) + unknown < hi - lo + 1:
            out.append(("%s: 'ports exhausted' although only ports %s (+%d pending connects) of %d..=%d are held by live sockets" % (where, sorted(known), unknown, lo, hi), None))
    return out


def dns_oracle(case, obs):
    out = []
    v6 = case["cfg"].get("v6", False)
    ops = case["ops"]
    res = obs["out"]
    if ops and ops[0][0] == "bulk":
        count, probes = ops[0][2], ops[0][3]
        size = 2 ** 64 if v6 else 2 ** 16
        addrs = dict(zip(probes, res[0]))
        seen = {}
        for k, a in addrs.items():
            if a in seen and max(k, seen[a]) < size:
                out.append(("names #%d and #%d (fewer than the subnet size) both got %s" % (seen[a], k, a), None))
            seen.setdefault(a, k)
        return out
    net = ipaddress.ip_network("fe80::/64" if v6 else "192.168.0.0/16")
    addr = {}          # name id -> address
    order = []
    for j, (op, o) in enumerate(zip(ops, res)):
        if isinstance(o, dict) and "panic" in o:
            out.append(("op %d %s panicked: %s" % (j, op, o["panic"]), None))
            continue
        if op[0] in ("name", "host", "lookup_many_times"):
            a = o[0]
            if op[1] in addr:
                if addr[op[1]] != a:
                    out.append(("op %d: name n%d resolved to %s, earlier to %s" % (j, op[1], a, addr[op[1]]), None))
            else:
                for m, b in addr.items():
                    if b == a:
                        out.append(("op %d: names n%d and n%d both resolve to %s" % (j, m, op[1], a), None))
                if ipaddress.ip_address(a) not in net:
                    out.append(("op %d: n%d got %s outside %s" % (j, op[1], a, net), None))
                addr[op[1]] = a
                order.append(op[1])
        elif op[0] in ("lit", "litstr"):
            if ipaddress.ip_address(o[0]) != ipaddress.ip_address(op[1]):
                out.append(("op %d: literal %s resolved to %s" % (j, op[1], o[0]), None))
        elif op[0] == "rev":
            want = [m for m in order if ipaddress.ip_address(addr[m]) == ipaddress.ip_address(op[1])]
            got = o["name"]
            if want and got != "n%d" % want[0]:
                out.append(("op %d: reverse lookup of %s gave %s, the address belongs to n%d" % (j, op[1], got, want[0]), None))
            if not want and got is not None:
                out.append(("op %d: reverse lookup of unassigned %s gave %s" % (j, op[1], got), None))
        elif op[0] == "re":
            rx = re.compile(op[1])
            want = [addr[m] for m in order if rx.search("n%d" % m)]
            if list(o) != want:
                out.append(("op %d: regex %s returned %s, the matching registered names have %s" % (j, op[1], o, want), None))
    return out


def ports_nontrivial(case, obs):
    last = {}
    for r in obs.get("res", []):
        v = r[3]
        if "panic" in v or v.get("err") == "AddrInUse":
            return True
    for item in F.walk(case, obs):
        if item[0] == "cmd" and item[5] and "ok" in item[5] and item[4][0] in ("udp_bind", "tcp_bind") and item[4][3] == 0:
            h, p = item[2], item[5]["ok"]
            if h in last and p <= last[h]:
                return True
            last[h] = p
    return False


class Spec(PropSpec):
    pid = "C15"
    subsys = "Ports"
    props_file = "C15.v"
    theorems = ["assign_sound", "assign_complete", "assign_first_free", "bind_in_use", "release_frees",
                "c15_no_collision", "dns_stable", "dns_injective", "dns_guard_tight", "dns_reverse",
                "dns_lookup_many_filter", "dns_known_lookup_no_advance", "c15_consts", "c15_nonvacuous", "c15_shared_listener_port"]
    consts = CONSTS
    anchors = ANCHORS
    harness_bins = ["ports"]
    coq_header = HEADER
    model_name = "TV.Ports.Model+Dns"
    rule = ("ports scripts = bind(:0 / fixed, UDP / TCP, wildcard / localhost / unsupported address) / connect / poll / accept / "
            "drop / drop_half / crash+bounce commands on 1-3 hosts with an ephemeral range of 2-6 ports, every command polled once, "
            "plus structured histories with several streams accepted from one listener inside the range, the listener and some of them dropped, then a wrap-around; "
            "tables listed after every step; dns scripts = up to 600 names registered and looked up in random order by name, "
            "literal, reverse and regex, IPv4 and IPv6, plus a 65537-name registration for the subnet-size guard and a deterministic family with ~65 536 repeated lookups of known names followed by late names; "
            "a ports case is non-trivial when the cursor wrapped (an ephemeral result not larger than the previous one) or a bind "
            "collided / the range was exhausted; distinct = distinct (config, script)")
    assumptions = [
        "which SYN reaches which listener and when a connect completes are events of the per-host table model (taken from the implementation's results); the theorems quantify over every event sequence",
        "string parsing of address literals and regex matching are not modelled (names are Literal addr | Name id, the regex an arbitrary predicate evaluated by python's re on the same names)",
        "the RST an abandoned pending connect sends to its peer (repo fix 48e101e) is a world-level event of the model (DeliverRst), scheduled from the script at latency 0",
        "4-tuple reuse against a stale peer entry (no TIME_WAIT in turmoil) is outside C15: a history is considered up to the first such panic, random scripts connect to ports outside the ephemeral range, accepted streams on in-range listeners come from the structured accept-wrap family",
    ]

    def gen_cases(self, ctx):
        nports = 260 if ctx.tier == "quick" else 3000
        ndns = 60 if ctx.tier == "quick" else 400
        if ctx.escalate:
            nports *= 2
            ndns *= 2
        ex = F.exhaustive_small_ports()
        if ctx.tier == "quick":
            ex = ctx.rng.sample(ex, 150)
        nwrap = 90 if ctx.tier == "quick" else 900
        cases = ex + [F.gen_ports_script(ctx.rng) for _ in range(nports)]
        cases += [F.gen_accept_wrap_script(ctx.rng) for _ in range(nwrap * (2 if ctx.escalate else 1))]
        cases += [F.gen_dns_script(ctx.rng) for _ in range(ndns)]
        cases += F.dns_repeat_cases()
        cases.append(F.dns_bulk_case(False, 65538, [0, 1, 255, 256, 65534, 65535, 65536, 65537]))
        if ctx.tier != "quick":
            cases.append(F.dns_bulk_case(True, 70000, [0, 1, 65535, 65536, 69999]))
        ctx.rng.shuffle(cases)      # spreads the (slower to evaluate) dns cases over the coqc shards
        return cases

    def to_model(self, case, obs):
        return F.to_model(case, obs)

    def compare(self, case, obs, model, probes):
        return F.compare(case, obs, model, probes)

    def oracle(self, case, obs):
        if obs.get("panic"):
            return []
        if case["cfg"]["kind"] == "dns":
            return dns_oracle(case, obs)
        return ports_oracle(case, obs)

    def nontrivial(self, case, obs):
        if obs.get("panic"):
            return False
        if case["cfg"]["kind"] == "dns":
            return len(F.dns_universe(case)) >= 3 or case["ops"][0][0] == "bulk"
        return ports_nontrivial(case, obs)

    def signature(self, case):
        return F.case_signature(case)

    def histogram(self, cases):
        return F.histogram(cases)


SPEC = Spec()
