"""C01 - same seed, configuration and programs give the same execution."""
import json

import fam_det as F
import sites as S
from pipeline import PropSpec, prove
from vlib import Ctx, TRUSTED_BASE_COMMON, VERIF, finish, harness_build, harness_run, load_known

ANCHORS = [("crates/turmoil/src/sim.rs", f) for f in ("step", "client", "host", "crash", "bounce")] + [
    ("crates/turmoil/src/builder.rs", "build"), ("crates/turmoil/src/rt.rs", "init"),
    ("crates/turmoil/src/world.rs", "register"), ("crates/turmoil/src/top.rs", "deliver_messages"),
    ("crates/turmoil-fs/src/lib.rs", "dir_entries"), ("crates/turmoil-io-uring/src/sim.rs", "promote_ready")]


class Spec(PropSpec):
    pid = "C01"
    subsys = "Det"
    props_file = "C01.v"
    theorems = ["c01_sites_discharged", "c01_sites_discharged_all", "c01_dir_entries_deterministic",
                "c01_dir_entries_stable_prefix", "c01_hashset_listing_refuted", "c01_lookup_order_independent",
                "c01_nonvacuous"]
    anchors = ANCHORS
    harness_bins = ["det"]
    model_name = "TV.Det (site inventory + order lemmas)"


SPEC = Spec()


def main(tier, seed):
    spec = SPEC
    ctx = Ctx(spec.pid, tier, seed)
    ctx.cov["trusted_base"] = TRUSTED_BASE_COMMON + [
        "gen/sites.py: regex inventory of HashMap/HashSet/RandomState/SystemTime::now/Instant::now/OS rng/thread rng/uuid/pointer-address sites in non-test sources",
        "tokio's scheduler, timer wheel and paused clock being deterministic under rng_seed/start_paused (not provable here; exercised by the double-run search)"]
    ctx.cov["partial"] = ("partial proof: the theorem part covers the absence of undischarged order/time/entropy sites and the "
                          "order lemmas for the collections that are observable; determinism of the tokio runtime and of "
                          "dependencies is only searched, by running every scenario twice in one process and in two OS processes")
    ctx.assumptions = ["rng_seed and epoch are set by the scenario (the property fixes them)",
                       "host programs of the scenario families are themselves deterministic"]
    ctx.note("translate sites + prove")
    sites = S.translate()
    ctx.cov["sites"] = [{k: s[k] for k in ("file", "fn", "kind", "line")} for s in sites]
    perrs, changed = prove(ctx, spec)
    ctx.note("build harness")
    ok, out = harness_build(["det"])
    if not ok:
        ctx.violations.append(("harness-build", {"kind": "harness does not build against /repo", "detail": out[-3000:]}, True))
        return finish(ctx)
    n = 300 if tier == "quick" else 2500
    if changed:
        n *= 2
    corpus = []
    d = VERIF / "corpus" / "C01"
    if d.exists():
        for p in sorted(d.glob("*.json")):
            corpus.append(json.loads(p.read_text()))
    cases = corpus + F.finisher_scenarios() + [F.gen_scenario(ctx.rng, big=(tier != "quick")) for _ in range(n)]
    cases += [F.gen_netfix(ctx.rng) for _ in range(max(6, n // 12))]
    for i, c in enumerate(cases):
        c["id"] = i
        # the second in-process run lets real time run ahead of virtual time ("perturbed twin"):
        # nothing observable may depend on the wall clock
        c.setdefault("wall_sleep_us", 1)
    ctx.note("run %d scenarios x (2 in-process) x (2 OS processes)" % len(cases))
    ra, ea = harness_run("det", cases, shards=16)
    rb, eb = harness_run("det", list(reversed(cases)), shards=11)
    bad = []
    nontrivial = 0
    lines = 0
    for c in cases:
        a, b = ra.get(c["id"]), rb.get(c["id"])
        if a is None or b is None:
            bad.append((c, "harness produced no output (%s)" % (ea + eb)[:1], a, b))
            continue
        if a.get("panic") or b.get("panic"):
            if a.get("panic") != b.get("panic"):
                bad.append((c, "panic differs between processes: %r vs %r" % (a.get("panic"), b.get("panic")), a, b))
            continue
        lines += a["program_lines"] + a["trace_lines"]
        if a["program_lines"] >= c["nsteps"] + 10:
            nontrivial += 1
        if not a["inproc_equal"]:
            bad.append((c, "two runs in one process differ: %s" % json.dumps(a["inproc_diff"])[:600], a, b))
        elif not b["inproc_equal"]:
            bad.append((c, "two runs in one process differ: %s" % json.dumps(b["inproc_diff"])[:600], a, b))
        elif (a["digest_program"], a["digest_trace"], a["result"]) != (b["digest_program"], b["digest_trace"], b["result"]):
            bad.append((c, "runs in two OS processes differ (digests %s/%s vs %s/%s)" % (
                a["digest_program"], a["digest_trace"], b["digest_program"], b["digest_trace"]), a, b))
    ctx.cov["evaluations"] = 4 * len(cases)
    ctx.cov["distinct_nontrivial"] = nontrivial
    ctx.cov["traces_validated_against_impl"] = len(cases) - len(bad)
    ctx.cov["trace_lines_compared"] = lines
    ctx.cov["generator_distribution"] = F.histogram(cases)
    ctx.cov["rule"] = ("scenario = builder knobs (seed, epoch, tick, latency range/curve, fail/repair, random order, capacities, "
                       "ip version, fs sync/error/short-read/latency/block knobs) x 1-5 hosts running udp echo/client, tcp "
                       "server/client with select/timeouts, task spawners with sleeps/intervals, fs and io_uring workloads x "
                       "controller script (crash/bounce/partition/hold); each executed twice in-process and in two OS "
                       "processes; full tracing output of target turmoil + program logs + read_dir and CQE order + result "
                       "compared; non-trivial = the programs logged at least 10 lines beyond the per-step markers")
    ctx.cov["samples"] = [{k: v for k, v in c.items() if k != "id"} for c in cases[:2]]
    if bad:
        c, text, a, b = min(bad, key=lambda x: len(json.dumps(x[0])))
        ctx.violations.append(("input", {"kind": "failing input", "property": "C01", "failure": text,
                                         "case": {k: v for k, v in c.items() if k != "id"},
                                         "other_failing_cases": len(bad) - 1,
                                         "how_to_replay": "./check C01 --replay <this file> (runs the scenario with DET_FULL=1 in two processes and diffs)"}, False))
    elif perrs:
        ctx.violations.append(("proof", {"kind": "proof obligation broken, no failing input found",
                                         "broken": [t for t, s in ctx.obligations.items() if s != "closed"] or ["coq build"],
                                         "detail": perrs,
                                         "hint": "a new or moved order/time/entropy site is not covered by the discharge table (coq/Det/C01_proofs.v); sites: %s" % ctx.cov["sites"]}, True))
    return finish(ctx)
