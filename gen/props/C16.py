"""C16 - turmoil-net never exceeds its buffer caps, the MSS or the peer's window; UDP oversize is rejected."""
import fam_nettcp as F
from pipeline import PropSpec


def stream_addrs(case, obs):
    """slot -> (local, peer) for every stream handle that ever existed."""
    m = {}
    for c, o in zip(case["script"], obs["obs"]):
        if o.get("r") == "ok" and c[0] in ("connect", "poll_connect") and isinstance(o["a"]["local"], list):
            m[c[1]] = (tuple(o["a"]["local"]), tuple(o["a"]["peer"]))
        elif o.get("r") == "ok" and c[0] == "accept" and isinstance(o["a"]["local"], list):
            m[c[2]] = (tuple(o["a"]["local"]), tuple(o["a"]["peer"]))
    return m


def c16_oracle(case, obs):
    cfg = F.full_cfg(case["cfg"])
    out = []
    script, ob = case["script"], obs["obs"]
    addrs = stream_addrs(case, obs)
    # per sending endpoint (ia, port, peer ia, peer port): last window delivered to it, highest ack delivered to it
    wnd, maxack, iss, est = {}, {}, {}, {}
    upeer = {}                                   # UDP slot -> address it is connected to
    dup_used = any(c[0] == "dup" for c in script)
    for i, (c, o) in enumerate(zip(script, ob)):
        n = c[0]
        if n == "netstat":
            for e in o["ns"]:
                if e[0] == 0 and e[5] != "Listen":
                    if e[2] > cfg["send_cap"]:
                        out.append(("step %d: netstat of host %d shows Send-Q %d > send_buf_cap %d on %s" % (i, c[1], e[2], cfg["send_cap"], e[3]), None))
                    if e[1] > cfg["recv_cap"]:
                        out.append(("step %d: netstat of host %d shows Recv-Q %d > recv_buf_cap %d on %s" % (i, c[1], e[1], cfg["recv_cap"], e[3]), None))
        elif n == "egress":
            for p in o["pk"]:
                if p[0] == 1:
                    lim = F.mss_of(cfg, p[2], 8)
                    if p[5] > lim:
                        out.append(("step %d: UDP datagram of %d bytes on the wire, limit for destination %d is %d" % (i, p[5], p[2], lim), None))
                    continue
                ln = len(p[9])
                mss = F.mss_of(cfg, p[1])
                if ln > mss:
                    out.append(("step %d: segment from address %d carries %d bytes, MSS of that interface is %d" % (i, p[1], ln, mss), None))
                K = F.conn_key(p)
                fl = p[7]
                if fl & F.F_SYN:
                    iss[K] = p[5]
                    if fl & F.F_ACK:
                        pass
                    continue
                if dup_used or K not in wnd:
                    continue
                occupies = ln + (1 if fl & F.F_FIN else 0)
                if occupies and not fl & F.F_RST:
                    inflight_lb = p[5] + occupies - maxack.get(K, iss.get(K, 0) + 1)
                    if inflight_lb > wnd[K]:
                        out.append(("step %d: %s has at least %d bytes in flight after emitting seq %d len %d, "
                                    "but the last window its peer advertised to it is %d" % (i, K, inflight_lb, p[5], occupies, wnd[K]), None))
        elif n in ("deliver", "dup", "flush") and o.get("r") == "ok":
            for p in ([o["p"]] if n != "flush" else o["pk"]):
                if p[0] != 0:
                    continue
                K = (p[2], p[4], p[1], p[3])          # the receiving endpoint, as a sender key
                fl = p[7]
                if fl & F.F_RST:
                    wnd.pop(K, None)
                    continue
                if fl & F.F_SYN and not fl & F.F_ACK:
                    if K not in wnd and K not in est:
                        wnd[K] = p[8]                  # child: snd_wnd := window of the SYN
                    continue
                if fl & F.F_SYN and fl & F.F_ACK:
                    if K in iss and K not in est:
                        est[K] = True
                        wnd[K] = p[8]
                    elif K in est:
                        wnd[K] = p[8]
                    continue
                if fl & F.F_ACK:
                    if K not in est:
                        if K in iss and p[6] == iss[K] + 1 and K in wnd:
                            est[K] = True
                            wnd[K] = p[8]
                        continue
                    if K in wnd:
                        wnd[K] = p[8]
                        maxack[K] = max(maxack.get(K, 0), p[6])
        elif n == "write" and i > 0 and script[i - 1][0] == "netstat" and c[1] in addrs:
            loc, peer = addrs[c[1]]
            rows = [e for e in ob[i - 1]["ns"] if e[0] == 0 and tuple(e[3]) == loc and e[4] and tuple(e[4]) == peer
                    and e[5] in ("Established", "CloseWait")]
            if len(rows) == 1 and o.get("r") in ("ok", "WouldBlock"):
                sq = rows[0][2]
                free = cfg["send_cap"] - sq
                if o["r"] == "WouldBlock" and free > 0:
                    out.append(("step %d: write on slot %d returned WouldBlock with %d of %d bytes queued" % (i, c[1], sq, cfg["send_cap"]), None))
                if o["r"] == "ok" and (free <= 0 or o["n"] != min(len(c[2]), free)):
                    out.append(("step %d: write of %d bytes with %d of %d queued accepted %d" % (i, len(c[2]), sq, cfg["send_cap"], o["n"]), None))
        elif n == "udp_connect":
            if o.get("r") == "ok":
                upeer[c[1]] = c[2]
        elif n == "udp_send_c" and c[1] in upeer and o.get("r") not in ("noslot", None):
            lim = F.mss_of(cfg, upeer[c[1]], 8)
            if c[2] > lim and o.get("r") != "os90":
                out.append(("step %d: send of %d bytes on the UDP socket connected to address %d (limit %d) was not "
                            "rejected with EMSGSIZE: %s" % (i, c[2], upeer[c[1]], lim, o.get("r")), None))
            if c[2] <= lim and o.get("r") == "os90":
                out.append(("step %d: connected UDP send of %d bytes (limit %d) rejected with EMSGSIZE" % (i, c[2], lim), None))
        elif n == "udp_send":
            lim = F.mss_of(cfg, c[3], 8)
            if c[2] > lim and o.get("r") != "os90":
                out.append(("step %d: UDP payload of %d bytes (limit %d) was not rejected with EMSGSIZE: %s" % (i, c[2], lim, o.get("r")), None))
            if c[2] <= lim and o.get("r") == "os90":
                out.append(("step %d: UDP payload of %d bytes (limit %d) rejected with EMSGSIZE" % (i, c[2], lim), None))
    return out


def c16_nontrivial(case, obs):
    cfg = F.full_cfg(case["cfg"])
    for c, o in zip(case["script"], obs["obs"]):
        if c[0] == "write" and (o.get("r") == "WouldBlock" or (o.get("r") == "ok" and o["n"] < len(c[2]))):
            return True
        if c[0] in ("udp_send", "udp_send_c") and o.get("r") == "os90":
            return True
        if c[0] == "egress":
            for p in o["pk"]:
                if p[0] == 0 and len(p[9]) and len(p[9]) == F.mss_of(cfg, p[1]):
                    return True
    return False


class Spec(PropSpec):
    pid = "C16"
    subsys = "NetTcp"
    props_file = "C16.v"
    coq_targets = ["C16.vo"]
    theorems = ["send_buf_le_cap", "recv_buf_le_cap", "payload_le_mss", "inflight_le_wnd",
                "inflight_only_shrinks_on_ack", "write_blocks_iff_full", "udp_oversize_rejected",
                "c16_world_hosts_reachable", "c16_nonvacuous",
                "tcb_on_seg_wrap", "tcb_on_conn_wrap", "fresh_tcb_wrap", "seg_step_wrap", "transmittable_wrap", "wrap_tight", "c16_wrap_nonvacuous"]
    consts = F.NET_CONSTS
    anchors = F.NET_ANCHORS
    harness_bins = ["nettcp"]
    coq_header = F.HEADER
    model_name = "TV.NetTcp.Model"
    rule = ("scripts drive the real turmoil-net kernel + tokio shim on the harness thread; the harness is the wire "
            "(egress_all -> scripted deliver / drop / overtake -> deliver); random KernelConfig (MSS 1..1460, caps 1..70000, "
            "IPv4/IPv6, loopback and cross-host), writes until blocked, slow reads, UDP send_to AND connected send / try_send "
            "around the MTU limit of the destination's path (deterministic boundary family up to 131072+k bytes through all four "
            "send calls); 'mixed' worlds: one host with a loopback and a cross-host "
            "connection that both have unsent data in the same egress sweep (both socket-table orders, loopback_mtu != mtu), "
            "every emitted segment checked against the MSS of the interface it leaves from; compared: "
            "every packet (flags, seq, ack, window, payload), every op result, netstat, table counts. Non-trivial = a write "
            "blocked or was cut at the cap, a segment of exactly MSS bytes left, or a UDP send was rejected; distinct = distinct (cfg, script)")
    assumptions = [
        "sequence numbers: the theorems are stated on unbounded naturals (side condition: every live sequence distance - in flight, window, send/receive buffer - stays below 2^31; that the code's wrapping_sub/wrapping_add/== then agree with them is PROVED for the whole inbound per-connection handler (handshake states + handle_established), the TCB literals of connect / accept_syn, segment_one and segment_all's filter by tcb_on_conn_wrap, tcb_on_seg_wrap, fresh_tcb_wrap, seg_step_wrap, transmittable_wrap (coq/NetTcp/Wrap.v, WrapTcb.v, checked with C16; tight: wrap_tight), the remaining sites - handshake equalities, probe sequence - by the site lemmas of Wrap.v; caps and windows are at most 65535/70000); the model's wire encoding is mod 2^32 and the deterministic `wrap` family of C06 (ISN = 2^32-k on both hosts via verif hook 71a27bd, k in {1,100,1460,5000}, both roles, both directions, with and without loss) checks model/implementation correspondence and the byte-stream oracle across the wrap",
        "`kreach` quantifies over every syscall sequence with arbitrary arguments and every inbound packet sequence (adversarial network), for every KernelConfig",
        "inflight_le_wnd is stated for the moment right after an emission (a later ACK may shrink the window; an ACK never increases the amount in flight)",
        "the first window a client sees is DEFAULT_WINDOW (65535) from the SYN-ACK regardless of the server's recv_buf_cap; the receiver truncates at its cap",
        "wakers are not modelled (the harness polls with a no-op waker)",
    ]

    def gen_cases(self, ctx):
        n = 400 if ctx.tier == "quick" else 2500
        if ctx.escalate:
            n *= 2
        cases = F.udp_boundary_cases()
        for i in range(n):
            r = i % 8
            if r < 4:
                cases.append(F.gen_caps(ctx.rng))
            elif r < 5:
                cases.append(F.gen_mixed_mss(ctx.rng))
            elif r < 6:
                cases.append(F.gen_transfer(ctx.rng))
            elif r < 7:
                cases.append(F.gen_live(ctx.rng))
            else:
                cases.append(F.gen_lifecycle(ctx.rng))
        return cases

    def to_model(self, case, obs):
        return F.to_model(case, obs)

    def compare(self, case, obs, model, probes):
        return F.compare(case, obs, model, probes)

    def oracle(self, case, obs):
        if obs.get("panic"):
            return []
        return c16_oracle(case, obs)

    def nontrivial(self, case, obs):
        return not obs.get("panic") and c16_nontrivial(case, obs)

    def signature(self, case):
        return F.case_signature(case)

    def histogram(self, cases):
        return F.histogram(cases)


SPEC = Spec()
