"""Family `barriers`: scripts for turmoil::barriers (harness bin `barriers`) and
their rendering as TV.Barriers.Model events.  Serves C20."""
import json

REACT = {"noop": "Noop", "suspend": "Suspend", "panic": "Panic"}


def coq_pred(c):
    n = c[0]
    if n == "any":
        return "PAny"
    if n == "never":
        return "PNever"
    if n == "eq":
        return "(PEq %d)" % c[1]
    if n == "gt":
        return "(PGt %d)" % c[1]
    return "(PMod %d %d)" % (c[1], c[2])


def py_pred(c, n):
    k = c[0]
    if k == "any":
        return True
    if k == "never":
        return False
    if k == "eq":
        return n == c[1]
    if k == "gt":
        return n > c[1]
    return c[1] != 0 and n % c[1] == c[2]


def executed(case, obs):
    """script commands that were executed (a panic inside Sim::step ends a sim-mode script)"""
    return case["script"][:len(obs["obs"])]


def first_live_match(live, ty, n):
    return next((b for b in live if b[1] == ty and py_pred(b[3], n)), None)


def to_model(case, obs):
    evs = []
    groups = []          # number of model events per script command
    live = []            # (bid, ty, react, cond): only to decide whether a corruption event panics its reader
    nb = 0
    pseudo = [1000]
    for c in executed(case, obs):
        n = c[0]
        k0 = len(evs)
        if n == "build":
            evs.append("Build %s (ccond %d %s)" % (REACT[c[2]], c[1], coq_pred(c[3])))
            live.append((nb, c[1], c[2], c[3]))
            nb += 1
        elif n == "trigger":
            evs.append("Trigger %d (%d, %d)" % (c[1], c[2], c[3]))
        elif n == "trigger_noop":
            evs.append("TriggerNoop %d (%d, %d)" % (c[1], c[2], c[3]))
        elif n == "corrupt_read":
            # turmoil-fs fires the corruption hook = trigger_noop(FsCorruption{offset: n}) (type tag 2)
            evs.append("TriggerNoop %d (2, %d)" % (c[1], c[2]))
        elif n == "corrupt_then":
            # the hook fires INSIDE the read: the trigger precedes whatever the host code does next
            evs.append("TriggerNoop %d (2, %d)" % (c[1], c[2]))
            m = first_live_match(live, 2, c[2])
            if m is None or m[2] == "noop":
                for a in c[3]:
                    if a[0] == "build":
                        evs.append("Build %s (ccond %d %s)" % (REACT[a[2]], a[1], coq_pred(a[3])))
                        live.append((nb, a[1], a[2], a[3]))
                        nb += 1
                    elif a[0] == "drop_barrier":
                        evs.append("DropBarrier %d" % a[1])
                        live = [x for x in live if x[0] != a[1]]
        elif n == "tick":
            # one poll of the host task = one tick: reads trigger inside the read, in program order
            for a in c[2]:
                if a[0] == "read":
                    evs.append("TriggerNoop %d (2, %d)" % (c[1], a[1]))
                    m = first_live_match(live, 2, a[1])
                    if m is not None and m[2] != "noop":
                        break               # the reader panics there
                elif a[0] == "build":
                    evs.append("Build %s (ccond %d %s)" % (REACT[a[2]], a[1], coq_pred(a[3])))
                    live.append((nb, a[1], a[2], a[3]))
                    nb += 1
                elif a[0] == "drop_barrier":
                    evs.append("DropBarrier %d" % a[1])
                    live = [x for x in live if x[0] != a[1]]
        elif n == "guarded":
            # destructors that trigger are code of their own: they run although the task's main
            # code has panicked (a fresh source number each time, never reported on)
            busy = obs["obs"][len(groups)][0] == "busy"
            pseudo[0] += 2
            _, src, ty, val, sync, guards, catch = c
            if catch:
                if not busy:
                    evs.append("TriggerNoop %d (%d, %d)" % (pseudo[0], ty, val))
            else:
                evs.append("%s %d (%d, %d)" % ("TriggerNoop" if sync else "Trigger", src, ty, val))
            if not busy:
                for (gty, gv) in guards:
                    evs.append("TriggerNoop %d (%d, %d)" % (pseudo[0] + 1, gty, gv))
        elif n == "wait":
            evs.append("Wait %d" % c[1])
        elif n == "drop_handle":
            evs.append("DropHandle %d" % c[1])
        elif n == "drop_barrier":
            evs.append("DropBarrier %d" % c[1])
            live = [x for x in live if x[0] != c[1]]
        elif n == "abandon":
            evs.append("Abandon %d" % c[1])
        elif n == "kill":
            evs.append("Kill %d" % c[1])
        groups.append(len(evs) - k0)
    term = "crun %d [%s]" % (case["cfg"]["nsrc"], "; ".join(evs))
    return term, groups, []


def compare(case, obs, model, probes):
    if obs.get("panic"):
        return "implementation panicked: %s" % obs["panic"]
    if isinstance(model, tuple) and model and model[0] == "error":
        return "model evaluation failed: %s" % str(model[1])[-400:]
    io = obs["obs"]
    if sum(probes) != len(model) or len(probes) != len(io):
        return "model produced %d outputs for %d commands (%d events)" % (len(model), len(io), sum(probes))
    # one model output per command: the first event's observation, the last event's source states
    folded, k = [], 0
    nsrc = case["cfg"]["nsrc"]
    for g in probes:
        if g == 0:
            folded.append((None, folded[-1][1] if folded else [0] * nsrc))
        else:
            folded.append((model[k][0], model[k + g - 1][1]))
        k += g
    model = folded
    started = [0] * case["cfg"]["nsrc"]
    for i, (c, (r, st), (mo, ms)) in enumerate(zip(executed(case, obs), io, model)):
        where = "cmd %d %s" % (i, json.dumps(c))
        n = c[0]
        if n == "build":
            if [0, r] != list(mo):
                return "%s: barrier number %s, model %s" % (where, r, mo)
        elif n == "guarded" and c[6]:
            if r == "sent":
                started[c[1]] += 1
        elif n in ("trigger", "trigger_noop", "corrupt_read", "corrupt_then", "tick", "guarded"):
            want = "sent" if mo == [1] else "busy"
            if n == "tick" and not any(a[0] == "read" for a in c[2][:1]):
                want = r            # the first event of the tick is not a trigger
            if r != want:
                return "%s: source was %s for the implementation, %s for the model" % (where, r, want)
            if r == "sent":
                started[c[1]] += 1
        elif n == "wait":
            if r is None:
                if mo != [3]:
                    return "%s: wait pending in the implementation, model returns %s" % (where, mo)
            elif isinstance(r, list):
                if [4] + r != list(mo):
                    return "%s: wait returned (handle,type,value)=%s, model %s" % (where, r, mo[1:] if mo != [3] else "pending")
            else:
                return "%s: wait returned %s" % (where, r)
        # source states
        for k, ((s, ret, fin, ab, killed, marks), m) in enumerate(zip(st, ms)):
            impl = 3 if killed else (2 if fin else (0 if s == ret + ab else 1))
            if impl != m or s != started[k] or (fin and not killed and s != ret + ab + 1) or s - ret - ab not in (0, 1):
                names = ["running", "suspended", "panicked", "gone"]
                return "%s: source %d is %s (calls started %d, returned %d, given up %d) in the implementation, %s in the model (calls %d)" % (
                    where, k, names[impl], s, ret, ab, names[m], started[k])
    return None


# ---- independent oracle: the property on the implementation trace ----------

def oracle(case, obs):
    """Python statement of C20 evaluated on what the implementation did.  Every trigger call
    that was made and matched a live barrier must be reported exactly once, in trigger order,
    whether or not the triggering code still exists when the test waits."""
    out = []
    io = obs["obs"]
    nsrc = case["cfg"]["nsrc"]
    live = []            # [bid, ty, react, cond, queue(list of (ty, n, src|None, call no))] creation order
    handles = {}         # hid -> (src, call no) or None
    state = ["run"] * nsrc      # run | susp | dead | gone
    parked = {}          # src -> call no of the trigger call it is parked in
    calls = [0] * nsrc
    rets = [0] * nsrc
    gave_up = [0] * nsrc
    marks = [0] * nsrc
    callno = 0

    def fail(t):
        out.append((t, None))

    def release(src, no):
        if src is not None and state[src] == "susp" and parked.get(src) == no:
            state[src] = "run"
            rets[src] += 1
            del parked[src]

    def fire(src, is_async, ty, val):
        """one trigger call; src None = code that is not one of the observed sources (a destructor
        running during an unwind, a block inside catch_unwind).  -> "ret" | "susp" | "dead" """
        nonlocal callno
        callno += 1
        m = next((b for b in live if b[1] == ty and py_pred(b[3], val)), None)
        if m is None:
            return "ret"                     # returns at once, reported nowhere
        if m[2] == "noop":
            m[4].append((ty, val, None, callno))
            return "ret"
        if m[2] == "suspend" and is_async and src is not None:
            m[4].append((ty, val, src, callno))
            state[src] = "susp"
            parked[src] = callno
            return "susp"
        return "dead"                        # Panic, or trigger_noop on a Suspend barrier

    def host_actions(src, acts):
        """code of `src` running within one tick; stops where a read panics"""
        for a in acts:
            if state[src] != "run":
                return
            if a[0] == "mark":
                marks[src] += 1
            elif a[0] == "read":
                if fire(src, False, 2, a[1]) == "dead":      # the corruption event is triggered inside the read
                    state[src] = "dead"
            elif a[0] == "build":
                live.append([len(built), a[1], a[2], a[3], []])
                built.append(1)
            elif a[0] == "drop_barrier":
                b = next((x for x in live if x[0] == a[1]), None)
                if b is not None:
                    live.remove(b)
                    for (_, _, s2, no) in b[4]:
                        release(s2, no)

    built = []
    for i, (c, (r, st)) in enumerate(zip(executed(case, obs), io)):
        n = c[0]
        where = "cmd %d %s" % (i, json.dumps(c))
        if n == "build":
            live.append([len(built), c[1], c[2], c[3], []])
            built.append(1)
        elif n in ("trigger", "trigger_noop", "corrupt_read", "corrupt_then", "tick", "guarded"):
            src = c[1]
            if r == "sent":
                if state[src] != "run":
                    fail("%s: a %s source made a trigger call" % (where, state[src]))
                calls[src] += 1
                if n == "tick":
                    host_actions(src, c[2])
                    if state[src] == "run":
                        rets[src] += 1
                elif n == "corrupt_then":
                    host_actions(src, [["read", c[2]]] + c[3])
                    if state[src] == "run":
                        rets[src] += 1
                elif n == "guarded":
                    _, _, ty, val, sync, guards, catch = c
                    if catch:
                        fire(None, False, ty, val)           # a panic is caught: the source goes on
                        rets[src] += 1
                    else:
                        out1 = fire(src, not sync, ty, val)
                        if out1 == "ret":
                            rets[src] += 1
                        elif out1 == "dead":
                            state[src] = "dead"
                    # the guards are dropped (normally or by the unwind): each destructor triggers
                    for (gty, gv) in guards:
                        fire(None, False, gty, gv)
                else:
                    ty, val = (2, c[2]) if n == "corrupt_read" else (c[2], c[3])
                    out1 = fire(src, n == "trigger", ty, val)
                    if out1 == "ret":
                        rets[src] += 1
                    elif out1 == "dead":
                        state[src] = "dead"
            else:
                if state[src] == "run":
                    fail("%s: source %d should be able to trigger but is %s" % (where, src, r))
        elif n == "abandon":
            src = c[1]
            if state[src] == "susp":
                state[src] = "run"
                gave_up[src] += 1
                parked.pop(src, None)
        elif n == "kill":
            src = c[1]
            if state[src] not in ("gone", "dead"):       # a panicked task has ended already
                state[src] = "gone"
                parked.pop(src, None)
        elif n == "wait":
            b = next((x for x in live if x[0] == c[1]), None)
            if b is None or not b[4]:
                if r is not None:
                    fail("%s: wait returned %s but nothing is queued for this barrier" % (where, r))
            else:
                ty, val, src, no = b[4].pop(0)
                if not isinstance(r, list):
                    fail("%s: wait is pending although trigger (%d,%d) was reported to this barrier and not yet delivered" % (where, ty, val))
                    b[4].insert(0, (ty, val, src, no))
                else:
                    if r[1:] != [ty, val]:
                        fail("%s: wait returned value %s, expected (%d,%d) (earliest matching live barrier, trigger order, reported whether or not the triggering code still exists)" % (where, r[1:], ty, val))
                    handles[r[0]] = (src, no)
        elif n == "drop_handle":
            h = handles.pop(c[1], None)
            if h is not None:
                release(h[0], h[1])
        elif n == "drop_barrier":
            b = next((x for x in live if x[0] == c[1]), None)
            if b is not None:
                live.remove(b)
                for (_, _, src, no) in b[4]:
                    release(src, no)
        for k, (s, ret, fin, ab, killed, mk) in enumerate(st):
            if mk != marks[k]:
                fail("%s: source %d has run %d progress markers behind its corrupted reads, expected %d (the corruption trigger fires inside the read: a Panic barrier stops the reader there)" % (where, k, mk, marks[k]))
                break
            want = state[k]
            got = "gone" if killed else ("dead" if fin else ("run" if s == ret + ab else "susp"))
            if got != want or s != calls[k] or ((ret, ab) != (rets[k], gave_up[k]) and want != "gone"):
                words = {"run": "free to proceed", "susp": "blocked in its trigger call", "dead": "panicked", "gone": "dropped"}
                fail("%s: source %d is %s (trigger calls started %d, returned %d, given up %d), expected %s (started %d, returned %d, given up %d)" % (
                    where, k, words[got], s, ret, ab, words[want], calls[k], rets[k], gave_up[k]))
                break
    return out


def features(case, obs):
    f = set()
    for c, (r, st) in zip(case["script"], obs.get("obs", [])):
        if c[0] in ("corrupt_then", "tick", "guarded"):
            f.add("drop_barrier")
        if c[0] == "wait" and isinstance(r, list):
            f.add("delivered")
        if c[0] == "wait" and r is None:
            f.add("pending")
        if any(s != ret + ab and not fin and not kl for (s, ret, fin, ab, kl, _) in st):
            f.add("suspended")
        if any(fin and not kl for (_, _, fin, _, kl, _) in st):
            f.add("panicked")
        if c[0] in ("kill", "abandon"):
            f.add("vanished")
        if c[0] == "drop_barrier":
            f.add("drop_barrier")
    return f


# ---- generators ---------------------------------------------------------------

def rand_cond(rng):
    x = rng.random()
    if x < 0.25:
        return ["any"]
    if x < 0.3:
        return ["never"]
    if x < 0.5:
        return ["eq", rng.randrange(6)]
    if x < 0.75:
        return ["gt", rng.randrange(6)]
    return ["mod", rng.choice([0, 1, 2, 2, 3]), rng.randrange(3)]


def gen_script(rng, mode="local", size=None):
    nsrc = rng.choice([1, 2, 2, 3, 4])
    s = []
    nb = 0
    live = []
    nh_guess = 0
    reacts = ["noop", "noop", "suspend", "suspend", "suspend", "panic"] if mode == "local" else ["noop", "suspend", "suspend"]
    size = size or rng.randrange(8, 40)
    prepared = []
    for _ in range(size):
        x = rng.random()
        if prepared and rng.random() < 0.35:
            s.append(prepared.pop(0))
            continue
        if nb == 0 or (x < 0.14 and len(live) < 5):
            if mode == "sim" and rng.random() < 0.35:
                s.append(["build", 2, "noop", rand_cond(rng)])      # Barrier<FsCorruption>
            else:
                s.append(["build", rng.choice([0, 0, 1]), rng.choice(reacts), rand_cond(rng)])
            live.append(nb)
            nb += 1
        elif x < 0.55:
            if mode == "sim" and rng.random() < 0.3:
                s.append(["corrupt_read", rng.randrange(nsrc), rng.randrange(8)])
                continue
            kind = "trigger" if (rng.random() < 0.8 or mode == "sim") else "trigger_noop"
            cmd = [kind, rng.randrange(nsrc), rng.choice([0, 0, 1]), rng.randrange(8)]
            if kind == "trigger" and rng.random() < 0.2:
                # the future of the call is built now and awaited later: barriers created or dropped in between
                # decide (an async fn looks nothing up before it is polled; seed C20-B8)
                prepared.append(cmd)
                s.append(["prepare"] + cmd[1:])
                continue
            s.append(cmd)
        elif x < 0.78:
            b = rng.choice(live) if live and rng.random() < 0.9 else rng.randrange(nb)
            s.append(["wait", b])
            nh_guess += 1
        elif x < 0.90:
            s.append(["drop_handle", rng.randrange(max(1, nh_guess))])
        elif x < 0.93:
            if mode == "local":
                s.append([rng.choice(["abandon", "abandon", "kill"]), rng.randrange(nsrc)])
            else:
                s.append(["kill", 2 * rng.randrange((nsrc + 1) // 2)])      # hosts only
        elif live:
            b = rng.choice(live)
            live.remove(b)
            s.append(["drop_barrier", b])
    # final drain: wait on everything, then drop
    for b in range(nb):
        for _ in range(rng.choice([0, 1, 3])):
            s.append(["wait", b])
    if rng.random() < 0.5:
        for h in range(nh_guess):
            s.append(["drop_handle", h])
        for b in range(nb):
            s.append(["drop_barrier", b])
    return {"cfg": {"mode": mode, "nsrc": nsrc}, "script": s, "flavour": mode}


def gen_unwind(rng):
    """Local mode: a source owns guards whose destructors call trigger_noop(clean-up event) and then
    hits a Panic barrier (or nothing): the guards fire while the task unwinds (or, with catch,
    inside catch_unwind and the source goes on).  Clean-up values (>= 20) are only ever matched by
    Noop barriers; they must all be reported, in order."""
    nsrc = rng.choice([2, 3, 4])
    ty = rng.choice([0, 1])
    s = []
    # panic barrier on small values, observers on the clean-up values
    # (never matching a clean-up value: a second panic during an unwind aborts the process)
    pk = rng.randrange(0, 4)
    s.append(["build", ty, "panic", ["eq", pk]])
    obs_first = rng.random() < 0.5
    s.append(["build", ty, "noop", ["gt", 19]])
    if rng.random() < 0.5:
        s.append(["build", rng.choice([0, 1]), "noop", rng.choice([["any"], ["gt", 24]])])
    if obs_first and rng.random() < 0.5:
        s.append(["build", ty, "noop", ["gt", 22]])
    nb = len(s)
    g = 20
    for _ in range(rng.randrange(2, 7)):
        src = rng.randrange(nsrc)
        guards = []
        for _ in range(rng.choice([1, 2, 3])):
            guards.append([rng.choice([ty, ty, 1 - ty]), g])
            g = g + 1 if g < 29 else 20
        catch = rng.random() < 0.35
        sync = catch or rng.random() < 0.5
        s.append(["guarded", src, ty, pk if rng.random() < 0.6 else rng.randrange(8), sync, guards, catch])
        if rng.random() < 0.3:
            s.append(["trigger_noop", rng.randrange(nsrc), ty, rng.choice([21, 25, 2])])
        if rng.random() < 0.3:
            s.append(["wait", rng.randrange(1, nb)])
    for b in range(nb):
        for _ in range(rng.choice([3, 6, 12])):
            s.append(["wait", b])
    return {"cfg": {"mode": "local", "nsrc": nsrc}, "script": s, "flavour": "unwind"}


def gen_tick_empty(rng):
    """Sim mode, fs corruption hook, registry EMPTY when the tick starts: the host creates the first
    barrier inside the tick, does corrupted reads in that same tick, then more reads in later ticks."""
    nsrc = rng.choice([1, 2])
    s = []
    src = rng.randrange(nsrc)
    acts = []
    if rng.random() < 0.3:
        acts.append(["read", rng.randrange(8)])          # nobody listens yet: reported nowhere
    acts.append(["build", 2, "noop", rng.choice([["any"], ["any"], ["gt", 2]])])
    nb = 1
    for _ in range(rng.choice([1, 2, 3])):
        acts.append(["read", rng.randrange(8)])
        if rng.random() < 0.3:
            acts.append(["mark"])
    if rng.random() < 0.3:
        acts.append(["build", 2, "noop", ["any"]])
        nb += 1
        acts.append(["read", rng.randrange(8)])
    s.append(["tick", src, acts])
    for _ in range(rng.randrange(1, 4)):
        x = rng.random()
        if x < 0.5:
            s.append(["corrupt_read", rng.randrange(nsrc), rng.randrange(8)])
        elif x < 0.8:
            s.append(["tick", rng.randrange(nsrc), [["read", rng.randrange(8)], ["mark"], ["read", rng.randrange(8)]]])
        else:
            s.append(["wait", 0])
    if rng.random() < 0.3:
        # everything dropped: the registry is empty again at the start of the next tick
        for b in range(nb):
            s.append(["wait", b])
            s.append(["drop_barrier", b])
        s.append(["tick", src, [["build", 2, "noop", ["any"]], ["read", 9], ["read", 1]]])
        nb += 1
        s.append(["corrupt_read", src, 2])
    for b in range(nb):
        for _ in range(8):
            s.append(["wait", b])
    return {"cfg": {"mode": "sim", "nsrc": nsrc}, "script": s, "flavour": "tick-empty"}


def gen_hook_tick(rng):
    """Sim mode, fs corruption hook: within ONE tick a host reads (corruption probability 1, the
    hook triggers inside the read), then creates / drops barriers and writes progress markers.
    The trigger must go to the barriers alive at the read, before any marker behind the read; a
    Panic (or Suspend) barrier must stop the reader at the read."""
    nsrc = rng.choice([1, 2, 3])
    s = []
    nb = 0
    live = []
    danger = rng.random() < 0.35          # a Panic / Suspend barrier on FsCorruption ends the run when hit
    for _ in range(rng.choice([0, 1, 2])):
        s.append(["build", 2, "noop", rand_cond(rng)])
        live.append(nb)
        nb += 1
    if danger:
        s.append(["build", 2, rng.choice(["panic", "panic", "suspend"]), rng.choice([["eq", 3], ["gt", 5], ["any"]])])
        live.append(nb)
        nb += 1
    for _ in range(rng.randrange(2, 7)):
        src = rng.randrange(nsrc)
        acts = []
        for _ in range(rng.choice([1, 2, 3])):
            x = rng.random()
            if x < 0.35:
                acts.append(["mark"])
            elif x < 0.7:
                acts.append(["build", 2, "noop", rng.choice([["any"], ["any"], ["gt", 1], ["mod", 2, 0]])])
                live.append(nb)
                nb += 1
            elif live:
                b = live.pop(0) if rng.random() < 0.6 else live.pop(rng.randrange(len(live)))
                acts.append(["drop_barrier", b])
        s.append(["corrupt_then", src, rng.randrange(8), acts])
        if rng.random() < 0.3:
            s.append(["corrupt_read", rng.randrange(nsrc), rng.randrange(8)])
        if rng.random() < 0.3 and nb:
            s.append(["wait", rng.randrange(nb)])
    for b in range(nb):
        for _ in range(rng.choice([1, 2, 4])):
            s.append(["wait", b])
    return {"cfg": {"mode": "sim", "nsrc": nsrc}, "script": s, "flavour": "hook-tick"}


def gen_vanish(rng, mode="local"):
    """The triggering code disappears while parked at a Suspend barrier - timeout around the call
    (abandon), task abort / Sim::crash of the host (kill) - BEFORE the test waits; then further
    triggers from other sources, then the waits: every call that happened is reported exactly once,
    in trigger order."""
    nsrc = rng.choice([2, 3, 4])
    s = []
    ty = rng.choice([0, 1])
    if rng.random() < 0.3:
        s.append(["build", ty, "noop", ["eq", 0]])
    s.append(["build", ty, "suspend", rng.choice([["any"], ["gt", 0]])])
    main = len(s) - 1
    if rng.random() < 0.5:
        s.append(["build", ty, rng.choice(["noop", "suspend"]), ["any"]])
    nb = len(s)
    alive = list(range(nsrc))
    nh = 0
    for _ in range(rng.randrange(3, 10)):
        x = rng.random()
        if x < 0.5 and alive:
            s.append(["trigger", rng.choice(alive), ty, rng.randrange(0, 6)])
        elif x < 0.65:
            if mode == "local":
                s.append(["abandon", rng.randrange(nsrc)])
        elif x < 0.85 and alive:
            cand = [k for k in alive if mode == "local" or k % 2 == 0]     # Sim::crash: hosts only (even sources)
            if cand:
                k = rng.choice(cand)
                alive.remove(k)
                s.append(["kill", k])
        elif x < 0.92:
            s.append(["wait", rng.randrange(nb)])
            nh += 1
        else:
            s.append(["drop_handle", rng.randrange(max(1, nh))])
    for b in range(nb):
        for _ in range(rng.choice([2, 4, 8])):
            s.append(["wait", b])
            nh += 1
    for h in range(min(nh, 6)):
        s.append(["drop_handle", h])
    if alive:
        s.append(["trigger", rng.choice(alive), ty, 3])
    if rng.random() < 0.5:
        s.append(["drop_barrier", main])
    return {"cfg": {"mode": mode, "nsrc": nsrc}, "script": s, "flavour": "vanish-" + mode}


def gen_burst(rng, mode="local"):
    """A long backlog on one barrier: 150-300 matching triggers (async and synchronous, from several
    sources; in sim mode also from the fs corruption hook) are issued before the test waits at all,
    then everything is waited for.  Overlapping Noop / Suspend barriers around the observed one."""
    nsrc = rng.choice([2, 3, 4])
    s = []
    ty = 2 if (mode == "sim" and rng.random() < 0.5) else rng.choice([0, 1])
    first = rng.choice(["noop", "noop", "suspend_narrow"])
    if first == "suspend_narrow":
        s.append(["build", ty if ty != 2 else 0, "suspend", ["eq", 7]])     # earlier barrier, takes only value 7
    s.append(["build", ty, "noop", rng.choice([["any"], ["gt", 0], ["mod", 2, 1]])])
    main = len(s) - 1
    s.append(["build", ty, "noop", ["any"]])                                  # later barrier, gets what the main one rejects
    n = rng.randrange(150, 301)
    for i in range(n):
        src = rng.randrange(nsrc)
        v = rng.randrange(1, 7) if rng.random() < 0.95 else 7
        if ty == 2:
            s.append(["corrupt_read", src, v])
        elif mode == "sim" or rng.random() < 0.5:
            s.append(["trigger", src, ty, v])
        else:
            s.append(["trigger_noop", src, ty, v])
        if rng.random() < 0.01:
            s.append(["wait", main + 1])
    for b in range(len(s) and main + 2):
        for _ in range(n + 2 if b == main else rng.choice([3, n // 2])):
            s.append(["wait", b])
    for h in range(3):
        s.append(["drop_handle", h])
    return {"cfg": {"mode": mode, "nsrc": nsrc}, "script": s, "flavour": "burst-" + mode}


def exhaustive_small():
    """Two overlapping barriers with every pair of reactions, two sources, a fixed
    interleaving skeleton with every order of handle drop / barrier drop."""
    out = []
    for r0 in ("noop", "suspend", "panic"):
        for r1 in ("noop", "suspend", "panic"):
            for c0 in (["gt", 2], ["any"]):
                for tail in (["drop_handle", 0], ["drop_barrier", 0], ["drop_barrier", 1]):
                    for first_wait in (0, 1):
                        s = [["build", 0, r0, c0], ["build", 0, r1, ["any"]],
                             ["trigger", 0, 0, 1], ["trigger", 1, 0, 5], ["trigger", 0, 0, 7],
                             ["wait", first_wait], ["wait", 1 - first_wait], ["wait", first_wait], tail,
                             ["trigger", 1, 0, 6], ["trigger_noop", 0, 0, 9], ["wait", 0], ["wait", 1],
                             ["drop_handle", 1], ["drop_handle", 2], ["drop_barrier", 0], ["trigger", 0, 0, 5],
                             ["trigger", 1, 1, 5], ["wait", 1]]
                        out.append({"cfg": {"mode": "local", "nsrc": 2}, "script": s, "flavour": "exhaustive"})
    return out


def histogram(cases):
    h = {"cases": len(cases), "cmds": {}, "reactions": {}, "conds": {}, "modes": {}, "sources": {}}
    for c in cases:
        m = c["cfg"]["mode"]
        h["modes"][m] = h["modes"].get(m, 0) + 1
        k = str(c["cfg"]["nsrc"])
        h["sources"][k] = h["sources"].get(k, 0) + 1
        for cmd in c["script"]:
            h["cmds"][cmd[0]] = h["cmds"].get(cmd[0], 0) + 1
            if cmd[0] in ("corrupt_then", "tick"):
                for a in cmd[3] if cmd[0] == "corrupt_then" else cmd[2]:
                    h["cmds"]["in-tick " + a[0]] = h["cmds"].get("in-tick " + a[0], 0) + 1
            if cmd[0] == "build":
                h["reactions"][cmd[2]] = h["reactions"].get(cmd[2], 0) + 1
                h["conds"][cmd[3][0]] = h["conds"].get(cmd[3][0], 0) + 1
    return h
