"""Family `conn` (C12): scripts of several connectors and listeners (harness bin
`conn`, interpreter harness/src/tcpfam.rs) and their rendering as TV.Conn.Model
events.

Script ids: listeners lid 1.., connectors cid 1..99 (a successful connect
registers the client stream under the cid), accepted streams sid 100.. .
Links have zero latency; every fault call (hold, release, partition, repair and
the one-way forms, from the Sim handle or from host code) is one model event,
`deliver` through Sim::links is `Mature`, the start of Sim::step is `Tick`.
"""
import json

ERR = {1: "WouldBlock", 2: "BrokenPipe", 3: "NotConnected", 4: "ConnectionReset"}
KIND = {0: "syn", 1: "data", 2: "fin", 3: "rst"}
BIG = list(range(0, 48))


def coq_list(xs):
    return "[" + "; ".join(str(x) for x in xs) + "]"


def coq_bytes(bs):
    return "[" + "; ".join("%d%%N" % b for b in bs) + "]"


def coq_ip(dst):
    if isinstance(dst, dict):
        return "(IpHost %d)" % (dst["h"] if "h" in dst else dst["name"])
    return "IpLoop" if dst == "loop" else "IpNobody"


def enc_ip(v):
    """harness canonical ip -> the number the model prints"""
    if isinstance(v, int):
        return v
    return {"loop": 1000, "unspec": 1001}.get(v, 1002)


def nonce(cid):
    return [200 + (cid % 50), cid % 251, (cid * 7) % 251, 17]


# ---- model rendering --------------------------------------------------------------

def to_model(case, obs):
    cfg = case["cfg"]
    n = cfg["nhosts"]
    tick = cfg.get("tick_ms", 1)
    eph = cfg.get("eph") or [49152, 65535]
    evs, probes, problems = [], [], []
    cidx = {}            # (script cid) -> model connection index
    tmo = {}             # script cid -> (step issued, timeout ms)
    side = {}            # (host, stream id) -> "A" | "B"
    pairs = [(a, b) for b in range(n) for a in range(b)]
    bg_done = {(b[1], b[2]): b[0] for b in obs.get("bg", [])}      # (host, sid) -> step it completed
    bg_pending = {h: [] for h in range(n)}                          # issue order: (lid, sid)

    def link_event(nm, a, b):
        """one fault call (Sim handle or host code) -> the model's link event"""
        lo, hi = min(a, b), max(a, b)
        if nm == "hold":
            return "Hold %d %d" % (lo, hi)
        if nm == "release":
            return "Release %d %d" % (lo, hi)
        if nm == "partition":
            return "Partition %d %d" % (lo, hi)
        if nm == "repair":
            return "Repair %d %d" % (lo, hi)
        if nm == "partition_oneway":
            return "PartitionOne %d %d" % (a, b)
        if nm == "repair_oneway":
            return "RepairOne %d %d" % (a, b)
        return None

    # the coins of the random link failure (decision log): per link, the outcomes at its enqueues in
    # order; what follows the last coin that came up is (false, false) = the model's default
    per_link = {}
    for (kc, src, dst, rp, rr) in obs.get("coins", []):
        if isinstance(src, int) and isinstance(dst, int):
            per_link.setdefault((min(src, dst), max(src, dst)), []).append((rp, rr))
    for (a, b), cs in sorted(per_link.items()):
        while cs and cs[-1] == (False, False):
            cs.pop()
        if cs:
            evs.append("Coins %d %d [%s]" % (a, b, "; ".join(
                "(%s, %s)" % ("true" if rp else "false", "true" if rr else "false") for (rp, rr) in cs)))

    for k, st in enumerate(case["steps"]):
        for act in st["ctl"]:
            nm = act[0]
            if nm in ("set_fail_rate", "set_link_fail_rate"):
                continue                 # the rates only decide the coins, which are read from the log
            a, b = act[1], act[2]
            if nm == "deliver":
                evs.append("Mature %d %d [%d]" % (min(a, b), max(a, b), act[3]))
                continue
            e = link_event(nm, a, b)
            if e is None:
                problems.append("unsupported ctl action %s" % nm)
            else:
                evs.append(e)
        evs.append("Tick")               # Sim::step starts with Topology::tick_by
        for h in range(n):
            probes.append((len(evs), "drain", (k, h)))
            evs.append("Drain %d" % h)
            for i, cmd in enumerate(st.get("hosts", {}).get(str(h), [])):
                nm = cmd[0]
                key = (k, h, i)
                if nm == "bind":
                    probes.append((len(evs), "res", key))
                    evs.append("Bind %d %d %s %d" % (h, cmd[1], "IpLoop" if cmd[2] == "loop" else "IpUnspec", cmd[3]))
                elif nm in ("connect", "connect_t"):
                    cidx[(h, cmd[1])] = len(cidx)
                    side[(h, cmd[1])] = "A"
                    if nm == "connect_t":
                        tmo[(h, cmd[1])] = (k, cmd[4])
                    probes.append((len(evs), "res", key))
                    evs.append("Connect %d %d (%s, %d%%N)" % (h, cmd[1], coq_ip(cmd[2]), cmd[3]))
                elif nm == "poll":
                    c = cidx.get((h, cmd[1]))
                    if c is None:
                        probes.append((None, "invalid", key))
                    else:
                        t = tmo.get((h, cmd[1]))
                        if t and (k - t[0]) * tick >= t[1]:
                            probes.append((len(evs), "poll_timeout", key))
                            evs.append("PollTimeout %d" % c)
                        else:
                            probes.append((len(evs), "res", key))
                            evs.append("Poll %d" % c)
                elif nm == "cancel":
                    c = cidx.get((h, cmd[1]))
                    if c is None:
                        probes.append((None, "invalid", key))
                    else:
                        probes.append((len(evs), "res", key))
                        evs.append("Cancel %d" % c)
                elif nm == "accept":
                    side[(h, cmd[2])] = "B"
                    probes.append((len(evs), "res", key))
                    evs.append("Accept %d %d %d" % (h, cmd[1], cmd[2]))
                elif nm == "accept_bg":
                    # a task awaits accept(): it first runs when the interpreter yields at the end of
                    # this turn, then whenever the listener's Notify wakes it
                    side[(h, cmd[2])] = "B"
                    known = any(c2[0] == "bind" and c2[1] == cmd[1]
                                for st2 in case["steps"][:k + 1] for c2 in st2.get("hosts", {}).get(str(h), []))
                    probes.append((None, "none" if known else "invalid", key))
                    if known:
                        bg_pending[h].append((cmd[1], cmd[2]))
                    continue
                elif nm == "drop_listener":
                    probes.append((len(evs), "res", key))
                    evs.append("DropListener %d %d" % (h, cmd[1]))
                elif nm in ("try_write", "read", "shutdown", "peek"):
                    x = side.get((h, cmd[1]))
                    if x is None:
                        probes.append((None, "invalid", key))
                        continue
                    probes.append((len(evs), "res", key))
                    if nm == "try_write":
                        evs.append("SOp %d %d (S.TryWrite S.%s %s)" % (h, cmd[1], x, coq_bytes(cmd[2])))
                    elif nm == "read":
                        evs.append("SOp %d %d (S.Read S.%s %d)" % (h, cmd[1], x, cmd[2]))
                    elif nm == "peek":
                        evs.append("SOp %d %d (S.Peek S.%s %d)" % (h, cmd[1], x, cmd[2]))
                    else:
                        evs.append("SOp %d %d (S.Shutdown S.%s)" % (h, cmd[1], x))
                elif nm == "drop":
                    x = side.get((h, cmd[1]))
                    if x is None:
                        probes.append((None, "invalid", key))
                        continue
                    probes.append((len(evs), "drop", key))
                    evs.append("SOp %d %d (S.DropR S.%s)" % (h, cmd[1], x))
                    evs.append("SOp %d %d (S.DropW S.%s)" % (h, cmd[1], x))
                elif nm == "count":
                    probes.append((len(evs), "res", key))
                    evs.append("Count %d" % h)
                elif nm == "count_on":
                    probes.append((len(evs), "res", key))
                    evs.append("Count %d" % cmd[1])
                elif nm == "link":
                    e = link_event(cmd[1], cmd[2], cmd[3])
                    if e is None:
                        problems.append("unsupported link call %s" % cmd[1])
                        continue
                    probes.append((len(evs), "res", key))
                    evs.append(e)
                else:
                    problems.append("unsupported command %s" % nm)
                    continue
            # which parked task the Notify wakes first is tokio's business (tasks that were woken in
            # vain re-queue at the back): follow the implementation for the order, check the outcome
            now = [b[2] for b in obs.get("bg", []) if b[0] == k and b[1] == h]
            order_bg = sorted(bg_pending[h], key=lambda ls: (now.index(ls[1]) if ls[1] in now else len(now)))
            still = []
            for (lid, sid) in order_bg:
                kc = bg_done.get((h, sid))
                if kc is not None and kc < k:
                    continue
                probes.append((len(evs), "bg", (k, h, sid)))
                evs.append("Accept %d %d %d" % (h, lid, sid))
                if kc is None or kc > k:
                    still.append((lid, sid))
            bg_pending[h] = [x for x in bg_pending[h] if x in still]
            evs.append("LoopStep %d" % h)
        probes.append((len(evs), "post", k))
        evs.append("View")
    term = "run_enc %d %d %d %d [%s]" % (n, cfg["cap"], eph[0], eph[1], "; ".join(evs))
    return term, probes, problems


def expect_from_model(m):
    tag, nums, nested = m
    if tag == 0:
        return "pending"
    if tag == 1:
        return "none"
    if tag == 2:
        return "invalid"
    if tag == 3:
        return "panic"
    if tag == 4:
        return ["ok", nums[0]]
    if tag == 5:
        return ["err", "AddrInUse"]
    if tag == 6:
        return ("conn", nums)
    if tag == 7:
        return ["err", "ConnectionRefused"]
    if tag == 8:
        return ("acc", nums)
    if tag == 9:
        t, rest = nums[0], nums[1:]
        if t == 0:
            return "pending"
        if t == 1:
            return ["ok", rest[0]]
        if t == 2:
            return ["ok", list(rest)]
        if t == 3:
            return ["ok"]
        if t == 4:
            return ["err", ERR[rest[0]]]
        if t == 5:
            return "none"
        return "invalid"
    if tag == 10:
        return ["ok", nums[0]]
    return ("view", nums, nested)


def canon_addr_nums(a):
    return [enc_ip(a[0]), a[1]]


def compare(case, obs, model, probes):
    if obs.get("panic"):
        return "implementation panicked: %s" % obs["panic"]
    if isinstance(model, tuple) and model and model[0] == "error":
        return "model evaluation failed: %s" % str(model[1])[-300:]
    res = {(r[0], r[1], r[2]): r[3] for r in obs["res"]}
    for idx, exp, key in probes:
        if idx is not None and idx >= len(model):
            return "model produced too few outputs"
        if exp == "drain":
            if model[idx][0] == 3:
                return "step %d host %d: model says the SYN queue overflows (panic), implementation did not panic" % key
            continue
        if exp == "bg":
            k, h, sid = key
            done = [b for b in obs.get("bg", []) if b[1] == h and b[2] == sid and b[0] == k]
            want = expect_from_model(model[idx])
            if not done:
                if want != "pending":
                    return "step %d host %d: the parked accept %d is not woken / does not complete, model %s" % (k, h, sid, want)
            else:
                g = done[0][3]
                if not (isinstance(want, tuple) and want[0] == "acc" and isinstance(g, list) and g[0] == "ok"
                        and canon_addr_nums(g[1]) + canon_addr_nums(g[2]) == list(want[1])):
                    return "step %d host %d: parked accept %d completed with %s, model %s" % (k, h, sid, g, want)
            continue
        if exp == "post":
            tag, nums, nested = model[idx]
            links, counts = obs["post"][key]
            want = {}
            for l in nested:
                want[(l[0][0], l[0][1])] = [[m[0], KIND[m[1]], m[2], m[3], m[4], m[5]] for m in l[1:]]
            got = {(a, b): [list(m) for m in msgs] for a, b, msgs in links}
            if want != got:
                return "step %d: links hold %s, model %s" % (key, got, want)
            mc = [[nums[2 * i], nums[2 * i + 1]] for i in range(len(nums) // 2)]
            if mc != [list(c) for c in counts]:
                return "step %d: (tcp binds, stream entries) per host %s, model %s" % (key, counts, mc)
            continue
        got = res.get(key)
        if got is None:
            return "no result recorded for command %s" % (key,)
        if idx is None:
            if got != exp:
                return "command %s: implementation %s, expected %s" % (key, got, exp)
            continue
        want = expect_from_model(model[idx])
        if exp == "drop":
            if want == "invalid":
                if got != "invalid":
                    return "command %s (drop): implementation %s, model invalid" % (key, got)
            elif got != "none":
                return "command %s (drop): implementation %s, model none" % (key, got)
            continue
        if exp == "poll_timeout" and want == "pending":
            want = ["err", "TimedOut"]
        if isinstance(want, tuple) and want[0] == "conn":
            w = want[1]
            g = got[1:3] if isinstance(got, list) and got[0] == "ok" and len(got) == 3 else None
            if g is None or canon_addr_nums(g[0]) + canon_addr_nums(g[1]) != list(w):
                return "command %s: implementation %s, model connect ok %s" % (key, got, w)
            continue
        if isinstance(want, tuple) and want[0] == "acc":
            w = want[1]
            g = got[1:4] if isinstance(got, list) and got[0] == "ok" and len(got) == 4 else None
            if g is None or canon_addr_nums(g[0]) + canon_addr_nums(g[1]) != list(w) or g[1] != g[2]:
                return "command %s: implementation %s, model accept ok %s" % (key, got, w)
            continue
        if got != want:
            return "command %s: implementation %s, model %s" % (key, got, want)
    return None


# ---- generators --------------------------------------------------------------------------

def base_cfg(rng, nhosts=None, cap=None, eph=None):
    return {
        "nhosts": nhosts or rng.choice([2, 2, 3]),
        "cap": cap or rng.choice([2, 3, 4, 5]),
        "v6": rng.random() < 0.3,
        "tick_ms": rng.choice([1, 1, 2, 5]),
        "seed": rng.randrange(1 << 30),
        "eph": eph,
    }


class Script:
    def __init__(self, cfg):
        self.cfg = cfg
        self.steps = []

    def step(self, k):
        while len(self.steps) <= k:
            self.steps.append({"ctl": [], "hosts": {}})
        return self.steps[k]

    def ctl(self, k, act):
        self.step(k)["ctl"].append(act)

    def cmd(self, k, h, cmd):
        self.step(k)["hosts"].setdefault(str(h), []).append(cmd)


CTL_ORDER = {"partition": 0, "partition_oneway": 0, "repair": 0, "repair_oneway": 0, "hold": 1, "release": 1, "deliver": 2}


def normalise(case):
    """Controller actions of one phase in a fixed order: partitions, hold/release, deliveries."""
    for st in case["steps"]:
        st["ctl"].sort(key=lambda a: CTL_ORDER[a[0]])
    return case


def gen_handshake(rng, nhosts=None, held=None):
    """Several connectors race for one or two listeners: scripted SYN delivery
    order, accepts, polls, cancels (explicit and by timeout), listener drop and
    re-bind, partitions, nonce exchange, drops and table counts."""
    cfg = base_cfg(rng, nhosts)
    n = cfg["nhosts"]
    cap = cfg["cap"]
    sc = Script(cfg)
    held = (rng.random() < 0.8) if held is None else held
    pairs = [(a, b) for b in range(n) for a in range(b)]
    if held:
        for (a, b) in pairs:
            sc.ctl(0, ["hold", a, b])
    srv = rng.randrange(n)
    port = 9000
    bind_kind = "loop" if rng.random() < 0.12 else "unspec"
    bind_step = rng.choice([0, 0, 0, 3])
    sc.cmd(bind_step, srv, ["bind", 1, bind_kind, rng.choice([port, port, 0]) if bind_kind == "unspec" and False else port])
    second = rng.random() < 0.25
    if second:
        sc.cmd(rng.choice([0, 2]), (srv + 1) % n, ["bind", 2, "unspec", port + 1])
    nconn = rng.randrange(1, min(cap, 4) + 1)
    horizon = rng.randrange(12, 22)
    sid = 100
    accepts = []
    for ci in range(1, nconn + 1):
        h = rng.randrange(n)
        t0 = rng.randrange(1, 6)
        r = rng.random()
        if second and r < 0.3:
            tgt_host, tgt_port = (srv + 1) % n, port + 1
        else:
            tgt_host, tgt_port = srv, port
        if r > 0.93:
            dst, dport = "none", tgt_port
        elif r > 0.86:
            dst, dport = {"h": tgt_host}, tgt_port + 7        # nobody listens there
        elif h == tgt_host and rng.random() < 0.5:
            dst, dport = "loop", tgt_port
        else:
            dst, dport = ({"name": tgt_host} if rng.random() < 0.3 else {"h": tgt_host}), tgt_port
        use_t = rng.random() < 0.25
        if use_t:
            sc.cmd(t0, h, ["connect_t", ci, dst, dport, rng.choice([1, 2, 3, 5]) * cfg["tick_ms"]])
        else:
            sc.cmd(t0, h, ["connect", ci, dst, dport])
        # deliveries of its SYN (blind: oldest or a small index on the link)
        if held and isinstance(dst, dict):
            d = dst.get("h", dst.get("name"))
            if d != h:
                for _ in range(rng.choice([0, 1, 1, 2])):
                    sc.ctl(t0 + rng.randrange(1, 6), ["deliver", h, d, rng.choice([0, 0, 0, 1, 2])])
        # polls / cancel
        t = t0
        for _ in range(rng.randrange(1, 5)):
            t += rng.randrange(1, 4)
            sc.cmd(t, h, ["poll", ci])
        if rng.random() < 0.3:
            sc.cmd(t0 + rng.randrange(1, 8), h, ["cancel", ci])
        # use of the stream
        tw = t + rng.randrange(0, 3)
        sc.cmd(tw, h, ["try_write", ci, nonce(ci)])
        if held and isinstance(dst, dict) and dst.get("h", dst.get("name")) != h:
            d = dst.get("h", dst.get("name"))
            for _ in range(rng.choice([1, 1, 2])):
                sc.ctl(tw + rng.randrange(1, 4), ["deliver", h, d, rng.choice([0, 0, 1])])
        if rng.random() < 0.6:
            sc.cmd(tw + rng.randrange(1, 6), h, ["drop", ci])
        if rng.random() < 0.5:
            sc.cmd(rng.randrange(1, horizon), h, ["count"])
    # accepts on the listeners
    for lid, lh in ((1, srv), (2, (srv + 1) % n)):
        if lid == 2 and not second:
            continue
        for _ in range(rng.randrange(1, nconn + 3)):
            t = rng.randrange(bind_step + 1, horizon)
            sc.cmd(t, lh, ["accept", lid, sid])
            accepts.append((t, lh, sid))
            sid += 1
    for (t, lh, s) in accepts:
        if rng.random() < 0.7:
            sc.cmd(t + rng.randrange(1, 7), lh, ["read", s, 8])
        if rng.random() < 0.5:
            sc.cmd(t + rng.randrange(2, 9), lh, ["drop", s])
    # listener drop and re-bind
    if rng.random() < 0.3:
        t = rng.randrange(2, horizon)
        sc.cmd(t, srv, ["drop_listener", 1])
        if rng.random() < 0.6:
            sc.cmd(t + rng.randrange(0, 4), srv, ["bind", 3, "unspec", port])
            for _ in range(rng.randrange(0, 3)):
                sc.cmd(t + rng.randrange(1, 8), srv, ["accept", 3, sid])
                sid += 1
    # partitions around the handshake
    if held and n >= 2 and rng.random() < 0.25:
        a, b = rng.choice(pairs)
        t = rng.randrange(1, 8)
        sc.ctl(t, rng.choice([["partition", a, b], ["partition_oneway", a, b], ["partition_oneway", b, a]]))
        if rng.random() < 0.7:
            sc.ctl(t + rng.randrange(1, 5), ["hold", a, b])
    # tail: let everything flow, look at the tables
    T = len(sc.steps) + 1
    if held and rng.random() < 0.6:
        for (a, b) in pairs:
            sc.ctl(T, ["release", a, b])
    for h in range(n):
        sc.cmd(T + 3, h, ["count"])
    sc.step(T + 4)
    return normalise({"cfg": cfg, "steps": sc.steps, "flavour": "handshake-%s" % ("held" if held else "flow")})


def gen_fifo(rng):
    """k connectors on different hosts (incl. the listener's own), SYNs delivered
    in a random permutation one per step, some cancelled before / after delivery,
    then the listener accepts as often as there are connectors."""
    n = rng.choice([2, 3])
    cfg = base_cfg(rng, n, cap=rng.choice([3, 4, 5]))
    sc = Script(cfg)
    pairs = [(a, b) for b in range(n) for a in range(b)]
    for (a, b) in pairs:
        sc.ctl(0, ["hold", a, b])
    srv = rng.randrange(n)
    sc.cmd(0, srv, ["bind", 1, "unspec", 9000])
    k = rng.randrange(2, min(cfg["cap"], 4) + 1)
    remote = [h for h in range(n) if h != srv]
    conns = []
    for ci in range(1, k + 1):
        h = rng.choice(remote + remote + [srv])
        dst = {"h": srv} if h != srv else rng.choice([{"h": srv}, "loop"])
        sc.cmd(1, h, ["connect", ci, dst, 9000])
        conns.append((ci, h))
    # deliver remote SYNs one per step in a random order: positions are per link
    order = [c for c in conns if c[1] != srv]
    rng.shuffle(order)
    on_link = {}
    for ci, h in conns:
        if h != srv:
            on_link.setdefault(h, []).append(ci)
    t = 2
    cancel_before = set(ci for ci, h in conns if rng.random() < 0.2)
    for ci in cancel_before:
        h = dict(conns)[ci]
        sc.cmd(2, h, ["cancel", ci])
    for ci, h in order:
        idx = on_link[h].index(ci)
        on_link[h].remove(ci)
        sc.ctl(t, ["deliver", h, srv, idx])
        t += 1
    t += 2
    for ci, h in conns:
        if ci not in cancel_before and rng.random() < 0.2:
            sc.cmd(t, h, ["cancel", ci])
    sid = 100
    for i in range(k + 1):
        sc.cmd(t + 1 + i // 2, srv, ["accept", 1, sid])
        sid += 1
    for ci, h in conns:
        sc.cmd(t + 3, h, ["poll", ci])
        sc.cmd(t + 3, h, ["try_write", ci, nonce(ci)])
    for (a, b) in pairs:
        sc.ctl(t + 4, ["release", a, b])
    for s in range(100, sid):
        sc.cmd(t + 6, srv, ["read", s, 8])
    for h in range(n):
        sc.cmd(t + 7, h, ["count"])
    return normalise({"cfg": cfg, "steps": sc.steps, "flavour": "fifo"})


def gen_listener_drop(rng):
    """Connectors (remote, same host, 127.0.0.1) get queued at a listener; it accepts some
    of them (or none), is dropped, possibly re-bound; everybody polls; late connectors meet
    the new listener or nobody."""
    n = rng.choice([2, 2, 3])
    cfg = base_cfg(rng, n, cap=rng.choice([3, 4, 5]))
    sc = Script(cfg)
    pairs = [(a, b) for b in range(n) for a in range(b)]
    held = rng.random() < 0.8
    if held:
        for (a, b) in pairs:
            sc.ctl(0, ["hold", a, b])
    srv = rng.randrange(n)
    sc.cmd(0, srv, ["bind", 1, "unspec", 9000])
    k = rng.randrange(2, min(cfg["cap"], 4) + 1)
    conns = []
    for ci in range(1, k + 1):
        h = rng.randrange(n)
        dst = {"h": srv} if h != srv else rng.choice([{"h": srv}, "loop", "loop"])
        t0 = rng.choice([1, 1, 2])
        sc.cmd(t0, h, ["connect", ci, dst, 9000])
        conns.append((ci, h, t0))
    t = 3
    if held:
        for ci, h, t0 in conns:
            if h != srv and rng.random() < 0.85:
                sc.ctl(t, ["deliver", h, srv, 0])
                t += rng.choice([0, 1])
    t += 2
    sid = 100
    nacc = rng.choice([0, 0, 1, 2])
    for i in range(nacc):
        sc.cmd(t, srv, ["accept", 1, sid])
        sid += 1
    t += 1
    sc.cmd(t, srv, ["drop_listener", 1])
    tdrop = t
    rebind = rng.random() < 0.6
    if rebind:
        sc.cmd(t + rng.choice([0, 1, 2]), srv, ["bind", 2, "unspec", 9000])
    for ci, h, t0 in conns:
        for dt in (1, 3):
            sc.cmd(tdrop + dt, h, ["poll", ci])
        sc.cmd(tdrop + 3, h, ["try_write", ci, nonce(ci)])
    late = k + 1
    hl = rng.randrange(n)
    sc.cmd(tdrop + 3, hl, ["connect", late, ({"h": srv} if hl != srv else "loop"), 9000])
    if held and hl != srv:
        sc.ctl(tdrop + 4, ["deliver", hl, srv, 0])
        sc.ctl(tdrop + 5, ["deliver", hl, srv, 0])
    if rebind:
        sc.cmd(tdrop + 6, srv, ["accept", 2, sid])
        sc.cmd(tdrop + 7, srv, ["accept", 2, sid + 1])
    sc.cmd(tdrop + 8, hl, ["poll", late])
    for h in range(n):
        sc.cmd(tdrop + 9, h, ["count"])
    sc.step(tdrop + 10)
    return normalise({"cfg": cfg, "steps": sc.steps, "flavour": "listener-drop"})


def gen_backlog(rng):
    """A listener that does not accept for a while: several connectors from different hosts
    (and its own) get queued in a scripted arrival order; one or two of the earlier ones give up
    (cancel, or a timeout that elapses) AFTER their request was delivered; more requests arrive
    afterwards; then the listener accepts everything.  Exercises the order of the backlog."""
    n = rng.choice([2, 3, 3])
    k = rng.choice([4, 4, 5])
    cap = k + rng.choice([1, 2])            # k queued requests plus one late arrival never overflow
    cfg = base_cfg(rng, n, cap=cap)
    sc = Script(cfg)
    pairs = [(a, b) for b in range(n) for a in range(b)]
    for (a, b) in pairs:
        sc.ctl(0, ["hold", a, b])
    srv = rng.randrange(n)
    sc.cmd(0, srv, ["bind", 1, "unspec", 9000])
    remote = [h for h in range(n) if h != srv]
    conns = []
    quitters = set(rng.sample(range(1, 3), rng.choice([1, 1, 2])))        # among the first arrivals
    tick = cfg["tick_ms"]
    for ci in range(1, k + 1):
        h = rng.choice(remote) if (ci <= 3 or rng.random() < 0.8) else srv
        dst = {"h": srv} if h != srv else "loop"
        if ci in quitters and rng.random() < 0.5:
            sc.cmd(1, h, ["connect_t", ci, dst, 9000, rng.choice([4, 5, 6]) * tick])
        else:
            sc.cmd(1, h, ["connect", ci, dst, 9000])
        conns.append((ci, h))
    # arrival order: the first three remote ones in a random order, one per step
    on_link = {}
    for ci, h in conns:
        if h != srv:
            on_link.setdefault(h, []).append(ci)
    early = [c for c in conns if c[1] != srv][:3]
    late = [c for c in conns if c[1] != srv][3:]
    rng.shuffle(early)
    t = 2
    for ci, h in early:
        idx = on_link[h].index(ci)
        on_link[h].remove(ci)
        sc.ctl(t, ["deliver", h, srv, idx])
        t += 1
    # someone who arrived early gives up now (after delivery)
    t += 1
    arrived_first = [ci for ci, h in early[:2]]
    quit_now = [ci for ci in arrived_first if rng.random() < 0.7] or arrived_first[:1]
    for ci in quit_now:
        h = dict(conns)[ci]
        sc.cmd(t + 4, h, ["poll", ci]) if any(c[0] == "connect_t" and c[1] == ci for st in sc.steps
                                              for c in st["hosts"].get(str(h), [])) else sc.cmd(t, h, ["cancel", ci])
    t += 5
    # later arrivals
    for ci, h in late:
        idx = on_link[h].index(ci)
        on_link[h].remove(ci)
        sc.ctl(t, ["deliver", h, srv, idx])
        t += 1
    if not late:
        # one more connector so that a SYN arrives after the quitter left
        ci = k + 1
        h = rng.choice(remote)
        sc.cmd(t, h, ["connect", ci, {"h": srv}, 9000])
        sc.ctl(t + 1, ["deliver", h, srv, 0])
        conns.append((ci, h))
        t += 2
    t += 1
    sid = 100
    for i in range(len(conns) + 1):
        sc.cmd(t + i // 2, srv, ["accept", 1, sid])
        sid += 1
    t += len(conns) // 2 + 2
    for ci, h in conns:
        sc.cmd(t, h, ["poll", ci])
        sc.cmd(t, h, ["try_write", ci, nonce(ci)])
    for (a, b) in pairs:
        sc.ctl(t + 1, ["release", a, b])
    for s_ in range(100, sid):
        sc.cmd(t + 3, srv, ["read", s_, 8])
    for h in range(n):
        sc.cmd(t + 4, h, ["count"])
    sc.step(t + 5)
    return normalise({"cfg": cfg, "steps": sc.steps, "flavour": "backlog"})


def gen_parked_accepts(rng):
    """Several tasks really await accept() on one listener (parked on its Notify) while SYNs of
    remote connectors arrive one, two or three per step; poll-once accepts in between."""
    n = rng.choice([2, 3])
    cap = rng.choice([4, 5, 6])
    cfg = base_cfg(rng, n, cap=cap)
    sc = Script(cfg)
    pairs = [(a, b) for b in range(n) for a in range(b)]
    for (a, b) in pairs:
        sc.ctl(0, ["hold", a, b])
    srv = rng.randrange(n)
    remote = [h for h in range(n) if h != srv]
    sc.cmd(0, srv, ["bind", 1, "unspec", 9000])
    nbg = rng.choice([1, 2, 2, 3])
    sid = 100
    for i in range(nbg):
        sc.cmd(rng.choice([0, 0, 1, 3]), srv, ["accept_bg", 1, sid])
        sid += 1
    k = rng.randrange(2, min(cap - 1, 4) + 1)
    conns = []
    for ci in range(1, k + 1):
        h = rng.choice(remote)
        sc.cmd(1, h, ["connect", ci, {"h": srv}, 9000])
        conns.append((ci, h))
    on_link = {}
    for ci, h in conns:
        on_link.setdefault(h, []).append(ci)
    t = 2
    todo = list(conns)
    while todo:
        burst = rng.choice([1, 2, 2, 3])
        # deliveries of one step: indices are positions at the start of the step
        used = {}
        for ci, h in todo[:burst]:
            idx = on_link[h].index(ci) + used.get(h, 0)
            sc.ctl(t, ["deliver", h, srv, idx])
            on_link[h].remove(ci)
            used[h] = used.get(h, 0) + 1
        todo = todo[burst:]
        if rng.random() < 0.3:
            sc.cmd(t, srv, ["accept", 1, sid])
            sid += 1
        t += rng.choice([1, 2])
    if rng.random() < 0.5:
        sc.cmd(t, srv, ["accept_bg", 1, sid])
        sid += 1
    for i in range(2):
        sc.cmd(t + 1 + i, srv, ["accept", 1, sid])
        sid += 1
    for ci, h in conns:
        sc.cmd(t + 2, h, ["poll", ci])
        sc.cmd(t + 2, h, ["try_write", ci, nonce(ci)])
        sc.cmd(t + 4, h, ["poll", ci])
    for (a, b) in pairs:
        sc.ctl(t + 3, ["release", a, b])
    for s_ in range(100, sid):
        sc.cmd(t + 5, srv, ["read", s_, 8])
    for h in range(n):
        sc.cmd(t + 6, h, ["count"])
    sc.step(t + 7)
    return normalise({"cfg": cfg, "steps": sc.steps, "flavour": "parked-accepts"})


def gen_partition(rng):
    """hold -> connect -> partition (both ways, either one-way direction), before or after the SYN
    was delivered, then hold again (which lifts the partition), new connects, polls, accepts."""
    n = rng.choice([2, 2, 3])
    cfg = base_cfg(rng, n, cap=rng.choice([3, 4, 5]))
    sc = Script(cfg)
    pairs = [(a, b) for b in range(n) for a in range(b)]
    for (a, b) in pairs:
        sc.ctl(0, ["hold", a, b])
    srv = rng.randrange(n)
    remote = [h for h in range(n) if h != srv]
    sc.cmd(0, srv, ["bind", 1, "unspec", 9000])
    cli = rng.choice(remote)
    other = [h for h in remote if h != cli]
    ci = 1
    t = 1
    sc.cmd(t, cli, ["connect", ci, {"h": srv}, 9000])
    if other and rng.random() < 0.5:
        sc.cmd(t, other[0], ["connect", 9, {"h": srv}, 9000])
    delivered = rng.random() < 0.3
    if delivered:
        sc.ctl(t + 1, ["deliver", cli, srv, 0])
    if rng.random() < 0.3:
        sc.ctl(t + 1, ["hold", cli, srv])          # a second hold changes nothing
    kind = rng.choice([["partition", cli, srv], ["partition", srv, cli], ["partition_oneway", cli, srv],
                       ["partition_oneway", srv, cli]])
    tp = t + 2
    sc.ctl(tp, kind)
    sc.cmd(tp, cli, ["poll", ci])
    sc.cmd(tp + 1, cli, ["poll", ci])
    ci2 = 2
    sc.cmd(tp + 1, cli, ["connect", ci2, {"h": srv}, 9000])     # while partitioned
    sc.cmd(tp + 1, srv, ["accept", 1, 100])
    if rng.random() < 0.8:
        sc.ctl(tp + 3, ["hold", cli, srv])
        ci3 = 3
        sc.cmd(tp + 3, cli, ["connect", ci3, {"h": srv}, 9000])
        sc.ctl(tp + 4, ["deliver", cli, srv, 0])
        sc.ctl(tp + 5, ["deliver", cli, srv, 0])
        sc.cmd(tp + 5, srv, ["accept", 1, 101])
        sc.cmd(tp + 6, srv, ["accept", 1, 102])
        sc.cmd(tp + 6, cli, ["poll", ci3])
        sc.cmd(tp + 7, cli, ["poll", ci3])
    if other:
        sc.ctl(tp + 4, ["deliver", other[0], srv, 0])
        sc.cmd(tp + 6, other[0], ["poll", 9])
    for h in range(n):
        sc.cmd(tp + 8, h, ["count"])
    sc.cmd(tp + 8, cli, ["poll", ci])
    sc.step(tp + 9)
    return normalise({"cfg": cfg, "steps": sc.steps, "flavour": "partition"})


def gen_abandon(rng):
    """A connect is accepted (accept answers the SYN at once) and then abandoned by the connector
    before it polls again (cancel); the RST it sends is delivered sooner or later (held link:
    scripted; healthy link: at once); the acceptor reads, writes, counts.  Other connectors behave."""
    n = rng.choice([2, 2, 3])
    cfg = base_cfg(rng, n, cap=rng.choice([3, 4, 5]))
    sc = Script(cfg)
    pairs = [(a, b) for b in range(n) for a in range(b)]
    held = rng.random() < 0.75
    if held:
        for (a, b) in pairs:
            sc.ctl(0, ["hold", a, b])
    srv = rng.randrange(n)
    remote = [h for h in range(n) if h != srv]
    sc.cmd(0, srv, ["bind", 1, "unspec", 9000])
    cli = rng.choice(remote)
    sc.cmd(1, cli, ["connect", 1, {"h": srv}, 9000])
    two = rng.random() < 0.5
    if two:
        sc.cmd(1, cli, ["connect", 2, {"h": srv}, 9000])
    if held:
        sc.ctl(2, ["deliver", cli, srv, 0])
        if two:
            sc.ctl(2, ["deliver", cli, srv, 1])
    ta = 2 if held else 1
    sc.cmd(ta, srv, ["accept", 1, 100])
    if two:
        sc.cmd(ta, srv, ["accept", 1, 101])
    tc = ta + rng.choice([1, 1, 2])
    sc.cmd(tc, cli, ["cancel", 1])                    # abandoned after it was accepted, never polled
    if two:
        sc.cmd(tc, cli, ["poll", 2])
        sc.cmd(tc, cli, ["try_write", 2, nonce(2)])
    if rng.random() < 0.3:
        sc.cmd(tc, srv, ["try_write", 100, [9, 9]])
    t = tc + 1
    if held:
        if rng.random() < 0.7:
            for j in range(3):
                sc.ctl(t + j, ["deliver", cli, srv, 0])
        elif rng.random() < 0.6:
            for (a, b) in pairs:
                sc.ctl(t + 1, ["release", a, b])
    for j in range(1, 6):
        sc.cmd(t + j, srv, ["read", 100, 8])
    sc.cmd(t + 3, srv, ["count"])
    sc.cmd(t + 5, srv, ["count"])
    if two:
        sc.cmd(t + 4, srv, ["read", 101, 8])
    if rng.random() < 0.5:
        sc.cmd(t + 6, srv, ["drop", 100])
    for h in range(n):
        sc.cmd(t + 7, h, ["count"])
    sc.step(t + 8)
    return normalise({"cfg": cfg, "steps": sc.steps, "flavour": "abandon"})


def gen_residue(rng):
    """Refused and cancelled connects in a row on a tiny ephemeral range: the
    table must be empty again each time and the ports must not run out."""
    n = 2
    lo = 50000
    cfg = base_cfg(rng, n, cap=4, eph=[lo, lo + rng.choice([3, 4, 5])])
    sc = Script(cfg)
    held = rng.random() < 0.5
    if held:
        sc.ctl(0, ["hold", 0, 1])
    sc.cmd(0, 1, ["bind", 1, "unspec", 9000])
    t = 1
    for ci in range(1, rng.randrange(6, 11)):
        r = rng.random()
        if r < 0.4:
            sc.cmd(t, 0, ["connect", ci, {"h": 1}, 9001])       # no listener
            if held:
                sc.ctl(t + 1, ["deliver", 0, 1, 0])
            sc.cmd(t + 2, 0, ["poll", ci])
        elif r < 0.6:
            sc.cmd(t, 0, ["connect", ci, "none", 9000])
        elif r < 0.8:
            sc.cmd(t, 0, ["connect", ci, {"h": 1}, 9000])
            sc.cmd(t + 1, 0, ["cancel", ci])
            if held:
                sc.ctl(t + 2, ["deliver", 0, 1, 0])
        else:
            sc.cmd(t, 0, ["connect_t", ci, {"h": 1}, 9000, cfg["tick_ms"]])
            sc.cmd(t + 2, 0, ["poll", ci])
            if held:
                sc.ctl(t + 2, ["deliver", 0, 1, 0])
        sc.cmd(t + 2, 0, ["count"])
        sc.cmd(t + 2, 1, ["accept", 1, 100 + ci])
        # whatever did get established is closed again, so that the tiny port range never runs out
        sc.cmd(t + 2, 0, ["drop", ci])
        sc.cmd(t + 3, 1, ["drop", 100 + ci])
        sc.cmd(t + 3, 0, ["poll", ci])
        sc.cmd(t + 3, 0, ["drop", ci])
        if held:
            sc.ctl(t + 3, ["deliver", 0, 1, 0])
            sc.ctl(t + 3, ["deliver", 0, 1, 1])
        t += 4
    sc.cmd(t, 0, ["count"])
    sc.cmd(t, 1, ["count"])
    return normalise({"cfg": cfg, "steps": sc.steps, "flavour": "residue"})


LINK_SEQS = [
    ["hold", "repair", "release"],
    ["hold", "repair", "release"],
    ["hold", "repair_cs", "release"],
    ["hold", "repair_sc", "release"],
    ["hold", "repair_cs", "repair_sc", "release"],
    ["hold", "repair_sc", "repair_cs", "release"],
    ["hold", "partition", "repair", "release"],
    ["hold", "partition_cs", "repair_cs", "release"],
    ["hold", "partition_sc", "repair", "release"],
    ["release"],
    ["repair", "release"],
    ["hold", "release"],
    ["hold", "repair", "hold", "release"],
    ["hold", "repair", "release", "release"],
    ["hold", "hold", "repair", "repair", "release"],
    ["hold", "repair", "partition", "repair", "release"],
    ["hold", "release", "hold", "repair", "release"],
]


def gen_linkcalls(rng):
    """Fault-call sequences beyond hold/release on the link between connector and listener: hold ->
    repair -> release, hold -> repair_oneway (either / both directions) -> release, hold -> partition ->
    repair -> release, release without a hold, ... issued through the Sim handle and from host code
    (any host).  Connects are started before, between and after the calls (SYNs parked by the hold), in
    both directions (a second listener on the connector's host); a connection established before the
    hold has data in flight in both directions while the link is held.  The last call is a release:
    afterwards the listeners accept more often than there are connectors and every connect is polled."""
    n = rng.choice([2, 2, 3])
    cfg = base_cfg(rng, n, cap=rng.choice([5, 6, 8]))
    sc = Script(cfg)
    srv = rng.randrange(n)
    cli = rng.choice([h for h in range(n) if h != srv])
    third = [h for h in range(n) if h not in (srv, cli)]
    sc.cmd(0, srv, ["bind", 1, "unspec", 9000])
    rev = rng.random() < 0.5
    if rev:
        sc.cmd(0, cli, ["bind", 2, "unspec", 9001])
    seq = rng.choice(LINK_SEQS)
    mode = rng.choice(["ctl", "host", "mixed"])

    def issue(k, call):
        nm, a, b = call, cli, srv
        if call.endswith("_cs") or call.endswith("_sc"):
            nm = call[:-3] + "_oneway"
            a, b = (cli, srv) if call.endswith("_cs") else (srv, cli)
        elif rng.random() < 0.5:
            a, b = b, a
        via = mode if mode != "mixed" else rng.choice(["ctl", "host"])
        if via == "ctl":
            sc.ctl(k, [nm, a, b])
        else:
            sc.cmd(k, rng.randrange(n), ["link", nm, a, b])
        return via

    conns = []                      # (cid, host, listener host)
    sid = [100]
    ci = [0]

    def connect(k, h, lh, port):
        if sum(1 for c in conns if c[2] == lh) >= cfg["cap"] - 1:
            return None                 # never more pending requests than the listener's backlog holds
        ci[0] += 1
        dst = {"name": lh} if rng.random() < 0.25 else {"h": lh}
        sc.cmd(k, h, ["connect", ci[0], dst, port])
        conns.append((ci[0], h, lh))
        return ci[0]

    def activity(k, first):
        """what the programs do between two calls"""
        r = rng.random()
        if first or r < 0.8:
            connect(k, cli, srv, 9000)
        if rev and rng.random() < 0.6:
            connect(k, srv, cli, 9001)
        if third and rng.random() < 0.4:
            connect(k, third[0], srv, 9000)
        if rng.random() < 0.15:
            connect(k, srv, srv, 9000)
        if rng.random() < 0.3:
            sc.cmd(k, srv, ["accept", 1, sid[0]])
            sid[0] += 1
        if rng.random() < 0.3 and conns:
            c = rng.choice(conns)
            sc.cmd(k, c[1], ["poll", c[0]])

    # an early connection, established before the first call, with data parked by the hold
    t = 1
    early = None
    if rng.random() < 0.6:
        early = connect(1, cli, srv, 9000)
        sc.cmd(2, srv, ["accept", 1, sid[0]])
        esid = sid[0]
        sid[0] += 1
        sc.cmd(3, cli, ["poll", early])
        t = 4
    if third and rng.random() < 0.5:
        sc.ctl(t, ["hold", min(third[0], srv), max(third[0], srv)])
        third_held = True
    else:
        third_held = False
    first = True
    for i, call in enumerate(seq):
        via = issue(t, call)
        last = i == len(seq) - 1
        if last:
            break
        if call == "hold" and early is not None and first:
            # data of the established connection, parked in both directions
            sc.cmd(t + 1, cli, ["try_write", early, nonce(early)])
            sc.cmd(t + 1, srv, ["try_write", esid, [7, 7, early]])
        if rng.random() < (0.9 if call == "hold" and first else 0.5):
            activity(t + 1, call == "hold" and first)
            if call == "hold":
                first = False
            t += 2
        elif via == "ctl" and mode == "ctl" and rng.random() < 0.5:
            pass                       # the next call in the same controller phase
        else:
            t += 1
    T = t
    if third_held:
        sc.ctl(T, ["release", min(third[0], srv), max(third[0], srv)])
    if rng.random() < 0.4:
        connect(T + 1, cli, srv, 9000)
    if rng.random() < 0.3:
        sc.cmd(T + 1, srv, ["accept_bg", 1, sid[0]])
        sid[0] += 1
    to_srv = sum(1 for c in conns if c[2] == srv)
    to_cli = sum(1 for c in conns if c[2] == cli)
    for k in (T + 2, T + 3, T + 4):
        for _ in range(to_srv + 1 if k < T + 4 else 1):
            sc.cmd(k, srv, ["accept", 1, sid[0]])
            sid[0] += 1
        if rev:
            for _ in range(to_cli + 1 if k < T + 4 else 1):
                sc.cmd(k, cli, ["accept", 2, sid[0]])
                sid[0] += 1
    for (c, h, lh) in conns:
        sc.cmd(T + 5, h, ["poll", c])
        if c != early:
            sc.cmd(T + 5, h, ["try_write", c, nonce(c)])
        sc.cmd(T + 6, h, ["poll", c])
    if early is not None:
        sc.cmd(T + 6, cli, ["read", early, 8])
    for s_ in range(100, sid[0]):
        for h in ([srv, cli] if rev else [srv]):
            sc.cmd(T + 7, h, ["read", s_, 8])
    for h in range(n):
        sc.cmd(T + 8, h, ["count"])
    sc.step(T + 9)
    return {"cfg": cfg, "steps": sc.steps, "flavour": "linkcalls-%s" % mode}


def gen_randfail(rng):
    """Random link failure (fail_rate / repair_rate, also switched mid-run) around the handshake, combined
    with holds and one-way partitions: a SYN is parked by a hold, then one or both directions are made
    healthy again (repair_oneway / repair; optionally the other one explicitly partitioned), the fail_rate
    coin comes up at the next enqueue on the link (a second connect, a connect in the other direction, a
    write on an established stream) and breaks exactly the healthy directions, dropping what is in flight
    on them; later the link is released."""
    n = rng.choice([2, 2, 3])
    sure = rng.random() < 0.7             # rate 1.0 switched on for a window / rates in (0, 1) all the time
    cfg = base_cfg(rng, n, cap=rng.choice([5, 6, 8]))
    cfg["fail"] = 0.0 if sure else rng.choice([0.2, 0.4, 0.6])
    cfg["repair"] = rng.choice([0.0, 0.0, 1.0, 0.5]) if sure else rng.choice([0.0, 0.3, 0.6])
    sc = Script(cfg)
    srv = rng.randrange(n)
    cli = rng.choice([h for h in range(n) if h != srv])
    sc.cmd(0, srv, ["bind", 1, "unspec", 9000])
    rev = rng.random() < 0.5
    if rev:
        sc.cmd(0, cli, ["bind", 2, "unspec", 9001])
    conns = []
    sid = [100]
    ci = [0]

    def connect(k, h, lh, port):
        if sum(1 for c in conns if c[2] == lh) >= cfg["cap"] - 1:
            return None
        ci[0] += 1
        sc.cmd(k, h, ["connect", ci[0], {"h": lh}, port])
        conns.append((ci[0], h, lh))
        return ci[0]

    def call(k, nm, a, b):
        if rng.random() < 0.5:
            sc.ctl(k, [nm, a, b])
        else:
            sc.cmd(k, rng.randrange(n), ["link", nm, a, b])

    t = 1
    early = None
    if rng.random() < 0.5:
        early = connect(1, cli, srv, 9000)
        sc.cmd(2, srv, ["accept", 1, sid[0]])
        esid = sid[0]
        sid[0] += 1
        sc.cmd(3, cli, ["poll", early])
        t = 4
    call(t, "hold", cli, srv)
    t += 1
    # requests (and data) parked by the hold
    connect(t, cli, srv, 9000)
    if rev and rng.random() < 0.6:
        connect(t, srv, cli, 9001)
    if early is not None and rng.random() < 0.6:
        sc.cmd(t, cli, ["try_write", early, nonce(early)])
        sc.cmd(t, srv, ["try_write", esid, [7, 7, early]])
    t += 1
    # make one or both directions healthy again, the parked messages stay
    shape = rng.choice(["cs", "cs", "cs+cut", "cs+cut", "sc", "sc+cut", "both", "none"])
    if shape == "cs":
        call(t, "repair_oneway", cli, srv)
    elif shape == "cs+cut":
        call(t, "partition_oneway", srv, cli)
        t += 1
        call(t, "repair_oneway", cli, srv)
    elif shape == "sc":
        call(t, "repair_oneway", srv, cli)
    elif shape == "sc+cut":
        call(t, "partition_oneway", cli, srv)
        t += 1
        call(t, "repair_oneway", srv, cli)
    elif shape == "both":
        call(t, "repair", cli, srv)
    t += 2
    # the window in which the coin comes up
    if sure:
        sc.ctl(t, ["set_fail_rate", 1.0] if rng.random() < 0.6 else ["set_link_fail_rate", cli, srv, 1.0])
    for _ in range(rng.choice([1, 1, 2, 3])):
        t += 1
        r = rng.random()
        if r < 0.5 or early is None:
            connect(t, cli, srv, 9000)
        elif r < 0.75:
            sc.cmd(t, cli, ["try_write", early, [1, 2, 3]])
        else:
            sc.cmd(t, srv, ["try_write", esid, [4, 5]])
        if rev and rng.random() < 0.4:
            connect(t, srv, cli, 9001)
    t += 1
    if sure:
        sc.ctl(t, ["set_fail_rate", 0.0])
        sc.ctl(t, ["set_link_fail_rate", cli, srv, 0.0])
    t += 2
    call(t, "release", cli, srv)
    T = t
    to_srv = sum(1 for c in conns if c[2] == srv)
    to_cli = sum(1 for c in conns if c[2] == cli)
    for k in (T + 2, T + 3):
        for _ in range(to_srv + 1):
            sc.cmd(k, srv, ["accept", 1, sid[0]])
            sid[0] += 1
        if rev:
            for _ in range(to_cli + 1):
                sc.cmd(k, cli, ["accept", 2, sid[0]])
                sid[0] += 1
    for (c, h, lh) in conns:
        sc.cmd(T + 4, h, ["poll", c])
        sc.cmd(T + 5, h, ["poll", c])
    for h in range(n):
        sc.cmd(T + 6, h, ["count"])
    sc.step(T + 7)
    return {"cfg": cfg, "steps": sc.steps, "flavour": "randfail-%s-%s" % ("sure" if sure else "rate", shape)}


def case_signature(case):
    return json.dumps([case["cfg"]["nhosts"], case["cfg"]["cap"], case["cfg"].get("fail", 0), case["cfg"].get("repair", 0),
                       case["cfg"]["seed"] if case["cfg"].get("fail") else 0, case["steps"]], sort_keys=True)


def histogram(cases):
    h = {"cases": len(cases), "flavour": {}, "hosts": {}, "cap": {}, "v6": 0, "cmds": {}, "ctl": {}, "steps": 0,
         "dst": {"remote": 0, "same-host": 0, "loop": 0, "none": 0}, "connectors_per_case": {}}
    for c in cases:
        for key, v in (("flavour", c.get("flavour", "corpus")), ("hosts", str(c["cfg"]["nhosts"])), ("cap", str(c["cfg"]["cap"]))):
            h[key][v] = h[key].get(v, 0) + 1
        h["v6"] += 1 if c["cfg"].get("v6") else 0
        h["steps"] += len(c["steps"])
        nc = 0
        for st in c["steps"]:
            for a in st["ctl"]:
                h["ctl"][a[0]] = h["ctl"].get(a[0], 0) + 1
            for hh, cmds in st.get("hosts", {}).items():
                for cmd in cmds:
                    h["cmds"][cmd[0]] = h["cmds"].get(cmd[0], 0) + 1
                    if cmd[0] in ("connect", "connect_t"):
                        nc += 1
                        d = cmd[2]
                        if isinstance(d, dict):
                            tgt = d.get("h", d.get("name"))
                            h["dst"]["same-host" if str(tgt) == hh else "remote"] += 1
                        else:
                            h["dst"][d] += 1
        h["connectors_per_case"][str(nc)] = h["connectors_per_case"].get(str(nc), 0) + 1
    return h
