(* TV.Conn.Model — executable model of turmoil::net TCP connection establishment
   and teardown: hosts with listener binds and SYN queues, connector futures,
   the per-host stream tables, and the links between hosts.  The data plane of
   every connection is the Stream model (TV.Stream.Model): each connection
   carries a `S.sys` whose own `wire` is used as an outbox that is flushed onto
   the link (or the loopback queue) after every operation.  No proofs here.

   Rust code mirrored (crates/turmoil/src):
     assign_port            = host.rs   Host::assign_ephemeral_port
     do_bind                = net/tcp/listener.rs TcpListener::bind + host.rs Tcp::bind
     do_connect             = net/tcp/stream.rs TcpStream::connect (up to the first poll,
                              incl. the ConnectGuard of fix 5100556)
     do_poll / do_cancel    = the rest of TcpStream::connect: syn_ack.await / drop of the future
                              (Drop for ConnectGuard incl. the RST of fix 48e101e)
     syn_arrive             = host.rs   Tcp::receive_from_network, Segment::Syn arm (+ matches)
     do_accept              = net/tcp/listener.rs TcpListener::accept + host.rs Tcp::accept
     do_drop_listener       = Drop for TcpListener + host.rs Tcp::unbind
     stream_op / deliver    = TV.Stream.Model (host.rs StreamSocket, net/tcp/stream.rs halves)
     link_send / mature / drain_host / partition
                            = top.rs Link::enqueue, process_deliverables, deliver_messages,
                              explicit_partition, partition_oneway (as in TV.Link)
     loop_step              = stream.rs send_loopback (delivery task sleeps one tick)
   Ghost (no counterpart in the code): connection ids, listener ids, the
   arrival / pop logs of a bind, the accept log. *)
From TV.Lib Require Import Base.
From TV.Stream Require Model.
Module S := TV.Stream.Model.

Inductive ip := IpHost (h : N) | IpLoop | IpUnspec | IpNobody.
Definition addr : Type := ip * N.

Definition ip_eqb (a b : ip) : bool :=
  match a, b with
  | IpHost x, IpHost y => N.eqb x y
  | IpLoop, IpLoop | IpUnspec, IpUnspec | IpNobody, IpNobody => true
  | _, _ => false
  end.
Definition is_loop (a : ip) := match a with IpLoop => true | _ => false end.

(* where the SYN (and the one-shot ack sender it carries) is *)
Inductive synstate := SynFlight | SynQueued | SynAcked | SynGone.
(* the connect future *)
Inductive futstate := FutPending | FutOk | FutRefused | FutCancelled.

Record conn := {
  k_host : N;                         (* connecting host *)
  k_local : addr; k_remote : addr;    (* the client's pair *)
  k_dhost : option N;                 (* host that owns the destination ip *)
  k_syn : synstate; k_fut : futstate;
  k_srv : option (N * addr * addr);   (* accepted: (server host, its local, its peer) *)
  k_sys : S.sys                       (* data plane; side A = client, B = server *)
}.

Record bindrec := {
  b_lid : N;                          (* ghost listener id *)
  b_ip : ip;                          (* IpUnspec or IpLoop *)
  b_deque : list (N * addr);          (* (cid, origin) *)
  b_arrived : list N;                 (* ghost: cids queued, in arrival order *)
  b_popped : list (N * bool)          (* ghost: cids popped by accept, with "connector was alive" *)
}.

Inductive wbody := WSyn | WSeg (sd : S.side) (p : S.pkt).
(* m_parked: the message has DeliveryStatus::Hold (sent or present while the link was held) *)
Record wmsg := { m_cid : N; m_body : wbody; m_parked : bool }.
Definition set_parked (m : wmsg) (b : bool) := {| m_cid := m_cid m; m_body := m_body m; m_parked := b |}.

Record hoststate := {
  h_binds : list (N * bindrec);       (* port -> bind *)
  h_cursor : N;                       (* next_ephemeral_port *)
  h_loopq : list wmsg;                (* loopback delivery tasks, in spawn order *)
  h_lmark : nat                       (* how many of them are due at the next LoopStep *)
}.

Record link := {
  l_a : N; l_b : N;                   (* l_a < l_b *)
  l_sent : list wmsg;
  l_rdy_a : list wmsg; l_rdy_b : list wmsg;   (* deliverable[a], deliverable[b] *)
  l_cut_ab : bool; l_cut_ba : bool;     (* direction explicitly partitioned *)
  l_held_ab : bool; l_held_ba : bool;   (* direction in State::Hold *)
  l_rand_ab : bool; l_rand_ba : bool;   (* the cut is a State::RandPartition (broken by the fail_rate coin) *)
  l_coins : list (bool * bool)          (* coming outcomes of (rand_partition, rand_repair) at this link's enqueues *)
}.

Record world := {
  w_hosts : list hoststate;
  w_conns : list conn;                (* cid = position *)
  w_links : list link;                (* registration order *)
  w_streams : list (N * N * (N * S.side));   (* (host, script stream id) -> (cid, side) *)
  w_accepts : list N;                 (* ghost: cids in the order they were accepted *)
  w_cap : nat; w_eph_lo : N; w_eph_hi : N
}.

(* ---- small list helpers ---------------------------------------------------- *)

Fixpoint upd_nth {T} (n : nat) (f : T -> T) (l : list T) : list T :=
  match l, n with
  | [], _ => []
  | x :: r, O => f x :: r
  | x :: r, S n' => x :: upd_nth n' f r
  end.

(* update the first element that satisfies p *)
Fixpoint upd_first {T} (p : T -> bool) (f : T -> T) (l : list T) : list T :=
  match l with
  | [] => []
  | x :: r => if p x then f x :: r else x :: upd_first p f r
  end.

Definition nat_of (n : N) := N.to_nat n.

Definition get_conn (w : world) (c : N) : option conn := nth_error (w_conns w) (nat_of c).
Definition get_host (w : world) (h : N) : option hoststate := nth_error (w_hosts w) (nat_of h).

Definition set_conns (w : world) l :=
  {| w_hosts := w_hosts w; w_conns := l; w_links := w_links w; w_streams := w_streams w;
     w_accepts := w_accepts w; w_cap := w_cap w; w_eph_lo := w_eph_lo w; w_eph_hi := w_eph_hi w |}.
Definition set_hosts (w : world) l :=
  {| w_hosts := l; w_conns := w_conns w; w_links := w_links w; w_streams := w_streams w;
     w_accepts := w_accepts w; w_cap := w_cap w; w_eph_lo := w_eph_lo w; w_eph_hi := w_eph_hi w |}.
Definition set_links (w : world) l :=
  {| w_hosts := w_hosts w; w_conns := w_conns w; w_links := l; w_streams := w_streams w;
     w_accepts := w_accepts w; w_cap := w_cap w; w_eph_lo := w_eph_lo w; w_eph_hi := w_eph_hi w |}.
Definition set_streams (w : world) l :=
  {| w_hosts := w_hosts w; w_conns := w_conns w; w_links := w_links w; w_streams := l;
     w_accepts := w_accepts w; w_cap := w_cap w; w_eph_lo := w_eph_lo w; w_eph_hi := w_eph_hi w |}.
Definition set_accepts (w : world) l :=
  {| w_hosts := w_hosts w; w_conns := w_conns w; w_links := w_links w; w_streams := w_streams w;
     w_accepts := l; w_cap := w_cap w; w_eph_lo := w_eph_lo w; w_eph_hi := w_eph_hi w |}.

Definition upd_conn (w : world) (c : N) (f : conn -> conn) : world :=
  set_conns w (upd_nth (nat_of c) f (w_conns w)).
Definition upd_host (w : world) (h : N) (f : hoststate -> hoststate) : world :=
  set_hosts w (upd_nth (nat_of h) f (w_hosts w)).

Definition set_syn (k : conn) s :=
  {| k_host := k_host k; k_local := k_local k; k_remote := k_remote k; k_dhost := k_dhost k;
     k_syn := s; k_fut := k_fut k; k_srv := k_srv k; k_sys := k_sys k |}.
Definition set_fut (k : conn) f :=
  {| k_host := k_host k; k_local := k_local k; k_remote := k_remote k; k_dhost := k_dhost k;
     k_syn := k_syn k; k_fut := f; k_srv := k_srv k; k_sys := k_sys k |}.
Definition set_srv (k : conn) v :=
  {| k_host := k_host k; k_local := k_local k; k_remote := k_remote k; k_dhost := k_dhost k;
     k_syn := k_syn k; k_fut := k_fut k; k_srv := v; k_sys := k_sys k |}.
Definition set_sys (k : conn) s :=
  {| k_host := k_host k; k_local := k_local k; k_remote := k_remote k; k_dhost := k_dhost k;
     k_syn := k_syn k; k_fut := k_fut k; k_srv := k_srv k; k_sys := s |}.

Definition set_binds (h : hoststate) b :=
  {| h_binds := b; h_cursor := h_cursor h; h_loopq := h_loopq h; h_lmark := h_lmark h |}.
Definition set_cursor (h : hoststate) c :=
  {| h_binds := h_binds h; h_cursor := c; h_loopq := h_loopq h; h_lmark := h_lmark h |}.
Definition set_loopq (h : hoststate) q :=
  {| h_binds := h_binds h; h_cursor := h_cursor h; h_loopq := q; h_lmark := h_lmark h |}.
Definition set_lmark (h : hoststate) n :=
  {| h_binds := h_binds h; h_cursor := h_cursor h; h_loopq := h_loopq h; h_lmark := n |}.

(* ---- stream table of a host -------------------------------------------------- *)

Definition has_sk (s : S.sys) (x : S.side) : bool := S.is_some (S.sk (S.eps s x)).

(* the entries of host h: (local port) of every socket registered there *)
Definition client_entry (h : N) (k : conn) : bool := N.eqb (k_host k) h && has_sk (k_sys k) S.A.
Definition server_entry (h : N) (k : conn) : bool :=
  match k_srv k with
  | Some (d, _, _) => N.eqb d h && has_sk (k_sys k) S.B
  | None => false
  end.
Definition stream_count (w : world) (h : N) : nat :=
  length (filter (client_entry h) (w_conns w)) + length (filter (server_entry h) (w_conns w)).

Definition port_in_use (w : world) (h : N) (p : N) : bool :=
  match get_host w h with
  | None => false
  | Some hs =>
      existsb (fun pb => N.eqb (fst pb) p) (h_binds hs) ||
      existsb (fun k => client_entry h k && N.eqb (snd (k_local k)) p) (w_conns w) ||
      existsb (fun k => server_entry h k &&
                        match k_srv k with Some (_, l, _) => N.eqb (snd l) p | None => false end) (w_conns w)
  end.

(* Host::assign_ephemeral_port: (port, new cursor); None = "ports exhausted" panic *)
Fixpoint assign_loop (fuel : nat) (w : world) (h : N) (cur : N) : option (N * N) :=
  match fuel with
  | O => None
  | S f =>
      let nxt := if N.eqb cur (w_eph_hi w) then w_eph_lo w else (cur + 1)%N in
      if port_in_use w h cur then assign_loop f w h nxt else Some (cur, nxt)
  end.
Definition assign_port (w : world) (h : N) : option (N * N) :=
  match get_host w h with
  | None => None
  | Some hs => assign_loop (N.to_nat (w_eph_hi w - w_eph_lo w + 1)) w h (h_cursor hs)
  end.

(* ---- results ---------------------------------------------------------------------- *)

Inductive res :=
| RPending | RNone | RInvalid | RPanic
| RBound (port : N) | RAddrInUse
| RConnOk (l r : addr) | RRefused
| RAccOk (l p : addr)
| RStream (r : S.res)
| RCount (n : nat)
| RView (links : list (N * N * list (N * N * N * N * N * N)))   (* (a, b, [src; kind; seq; len; sport; dport]) *)
        (counts : list (nat * nat)).                               (* per host: (tcp binds, stream entries) *)

(* ---- links --------------------------------------------------------------------------- *)

Definition pair_of (x y : N) : N * N := if (x <? y)%N then (x, y) else (y, x).
Definition on_link (l : link) (x y : N) : bool :=
  let '(a, b) := pair_of x y in N.eqb (l_a l) a && N.eqb (l_b l) b.

Definition set_sent (l : link) s :=
  {| l_a := l_a l; l_b := l_b l; l_sent := s; l_rdy_a := l_rdy_a l; l_rdy_b := l_rdy_b l;
     l_cut_ab := l_cut_ab l; l_cut_ba := l_cut_ba l; l_held_ab := l_held_ab l; l_held_ba := l_held_ba l;
     l_rand_ab := l_rand_ab l; l_rand_ba := l_rand_ba l; l_coins := l_coins l |}.
Definition set_rdys (l : link) ra rb :=
  {| l_a := l_a l; l_b := l_b l; l_sent := l_sent l; l_rdy_a := ra; l_rdy_b := rb;
     l_cut_ab := l_cut_ab l; l_cut_ba := l_cut_ba l; l_held_ab := l_held_ab l; l_held_ba := l_held_ba l;
     l_rand_ab := l_rand_ab l; l_rand_ba := l_rand_ba l; l_coins := l_coins l |}.
Definition set_cuts (l : link) ab ba :=
  {| l_a := l_a l; l_b := l_b l; l_sent := l_sent l; l_rdy_a := l_rdy_a l; l_rdy_b := l_rdy_b l;
     l_cut_ab := ab; l_cut_ba := ba; l_held_ab := l_held_ab l; l_held_ba := l_held_ba l;
     l_rand_ab := l_rand_ab l; l_rand_ba := l_rand_ba l; l_coins := l_coins l |}.
Definition set_helds (l : link) ab ba :=
  {| l_a := l_a l; l_b := l_b l; l_sent := l_sent l; l_rdy_a := l_rdy_a l; l_rdy_b := l_rdy_b l;
     l_cut_ab := l_cut_ab l; l_cut_ba := l_cut_ba l; l_held_ab := ab; l_held_ba := ba;
     l_rand_ab := l_rand_ab l; l_rand_ba := l_rand_ba l; l_coins := l_coins l |}.
Definition set_rands (l : link) ab ba :=
  {| l_a := l_a l; l_b := l_b l; l_sent := l_sent l; l_rdy_a := l_rdy_a l; l_rdy_b := l_rdy_b l;
     l_cut_ab := l_cut_ab l; l_cut_ba := l_cut_ba l; l_held_ab := l_held_ab l; l_held_ba := l_held_ba l;
     l_rand_ab := ab; l_rand_ba := ba; l_coins := l_coins l |}.
Definition set_coins (l : link) cs :=
  {| l_a := l_a l; l_b := l_b l; l_sent := l_sent l; l_rdy_a := l_rdy_a l; l_rdy_b := l_rdy_b l;
     l_cut_ab := l_cut_ab l; l_cut_ba := l_cut_ba l; l_held_ab := l_held_ab l; l_held_ba := l_held_ba l;
     l_rand_ab := l_rand_ab l; l_rand_ba := l_rand_ba l; l_coins := cs |}.

(* source / destination host of a message *)
Definition msg_src (w : world) (m : wmsg) : option N :=
  match get_conn w (m_cid m) with
  | None => None
  | Some k => match m_body m with
              | WSyn | WSeg S.A _ => Some (k_host k)
              | WSeg S.B _ => k_dhost k
              end
  end.
Definition msg_dst (w : world) (m : wmsg) : option N :=
  match get_conn w (m_cid m) with
  | None => None
  | Some k => match m_body m with
              | WSyn | WSeg S.A _ => k_dhost k
              | WSeg S.B _ => Some (k_host k)
              end
  end.

Definition from_host (w : world) (h : N) (m : wmsg) : bool :=
  match msg_src w m with Some s => N.eqb s h | None => false end.

Definition cut_from (l : link) (src : N) : bool :=
  if N.eqb src (l_a l) then l_cut_ab l else l_cut_ba l.
Definition rand_from (l : link) (src : N) : bool :=
  if N.eqb src (l_a l) then l_rand_ab l else l_rand_ba l.
Definition held_from (l : link) (src : N) : bool :=
  if N.eqb src (l_a l) then l_held_ab l else l_held_ba l.

(* mark SYNs that were dropped by the network: their ack sender is gone *)
Definition syn_gone (w : world) (m : wmsg) : world :=
  match m_body m with
  | WSyn => upd_conn w (m_cid m) (fun k => set_syn k SynGone)
  | _ => w
  end.

Definition to_host (w : world) (h : N) (m : wmsg) : bool :=
  match msg_dst w m with Some d => N.eqb d h | None => false end.

(* Link::process_deliverables with zero latency: every message that is not parked by a hold
   moves to the deliverable queue of its destination (a stable partition of `sent`) *)
Definition flow_link (w : world) (l : link) : link :=
  let m := filter (fun x => negb (m_parked x)) (l_sent l) in
  let keep := filter m_parked (l_sent l) in
  set_rdys (set_sent l keep) (l_rdy_a l ++ filter (to_host w (l_a l)) m)
           (l_rdy_b l ++ filter (fun x => negb (to_host w (l_a l) x) && to_host w (l_b l) x) m).

(* Link::enqueue of a message from host src to host dst (src <> dst): dropped on a partitioned
   direction, parked on a held one, otherwise due at once; then process_deliverables *)
Definition link_enqueue (w : world) (src dst : N) (m : wmsg) : world :=
  match find (fun l => on_link l src dst) (w_links w) with
  | None => syn_gone w m
  | Some l0 =>
      if cut_from l0 src then syn_gone w m
      else set_links w (upd_first (fun l => on_link l src dst)
                          (fun l => flow_link w (set_sent l (l_sent l ++ [set_parked m (held_from l src)])))
                          (w_links w))
  end.

(* Link::rand_partition_or_repair, first thing in every enqueue_message.  The outcomes of the two
   coins are inputs (the link's coin list; (false, false) when it is exhausted: fail_rate 0).  The
   partition coin breaks the directions that are healthy and drops what is in flight on them; a
   direction that is held or explicitly partitioned keeps its state.  Otherwise the repair coin
   repairs the directions the random process broke. *)
Definition healthy_ab (l : link) : bool := negb (l_cut_ab l) && negb (l_held_ab l).
Definition healthy_ba (l : link) : bool := negb (l_cut_ba l) && negb (l_held_ba l).
Definition breaks (w : world) (l : link) (m : wmsg) : bool :=
  if from_host w (l_a l) m then healthy_ab l else healthy_ba l.
Definition rand_link (w : world) (l : link) : link * list wmsg :=
  match l_coins l with
  | [] => (l, [])
  | (rp, rr) :: cs =>
      let l1 := set_coins l cs in
      if (healthy_ab l || healthy_ba l) && rp then
        (set_sent (set_rands (set_cuts l1 (l_cut_ab l || healthy_ab l) (l_cut_ba l || healthy_ba l))
                             (l_rand_ab l || healthy_ab l) (l_rand_ba l || healthy_ba l))
                  (filter (fun m => negb (breaks w l m)) (l_sent l)),
         filter (breaks w l) (l_sent l))
      else if (l_rand_ab l || l_rand_ba l) && rr then
        (set_rands (set_cuts l1 (l_cut_ab l && negb (l_rand_ab l)) (l_cut_ba l && negb (l_rand_ba l))) false false, [])
      else (l1, [])
  end.
Definition rand_send (w : world) (src dst : N) : world :=
  match find (fun l => on_link l src dst) (w_links w) with
  | None => w
  | Some l0 =>
      fold_left syn_gone (snd (rand_link w l0))
                (set_links w (upd_first (fun l => on_link l src dst) (fun _ => fst (rand_link w l0)) (w_links w)))
  end.

(* Link::enqueue_message *)
Definition link_send (w : world) (src dst : N) (m : wmsg) : world :=
  link_enqueue (rand_send w src dst) src dst m.

(* send_loopback on host h *)
Definition loop_send (w : world) (h : N) (m : wmsg) : world :=
  upd_host w h (fun hs => set_loopq hs (h_loopq hs ++ [m])).

(* move what a connection's data plane emitted (its outbox) onto the network *)
Definition flush (w : world) (c : N) : world :=
  match get_conn w c with
  | None => w
  | Some k =>
      let out := S.wire (k_sys k) in
      let w1 := upd_conn w c (fun k' => set_sys k' (S.set_wire (k_sys k') [])) in
      fold_left (fun (w' : world) (sp : S.side * S.pkt) =>
        let m := {| m_cid := c; m_body := WSeg (fst sp) (snd sp); m_parked := false |} in
        if S.lo (k_sys k) then loop_send w' (k_host k) m
        else match msg_src w' m, msg_dst w' m with
             | Some s, Some d => link_send w' s d m
             | _, _ => w'
             end) out w1
  end.

(* ---- listener side --------------------------------------------------------------------- *)

Definition find_bind (hs : hoststate) (port : N) : option bindrec :=
  match find (fun pb => N.eqb (fst pb) port) (h_binds hs) with Some pb => Some (snd pb) | None => None end.
Definition upd_bind (hs : hoststate) (port : N) (f : bindrec -> bindrec) : hoststate :=
  set_binds hs (map (fun pb => if N.eqb (fst pb) port then (fst pb, f (snd pb)) else pb) (h_binds hs)).

Definition push_syn (b : bindrec) (c : N) (origin : addr) : bindrec :=
  {| b_lid := b_lid b; b_ip := b_ip b; b_deque := b_deque b ++ [(c, origin)];
     b_arrived := b_arrived b ++ [c]; b_popped := b_popped b |}.

(* host.rs matches(bind, dst) for a bind found under dst's port *)
Definition bind_matches (bip dip : ip) : bool :=
  match bip with IpUnspec => true | _ => ip_eqb bip dip end.

(* Tcp::receive_from_network, Segment::Syn, at host d; second component: the
   "server socket buffer full" panic *)
Definition routed_to (k : conn) (d : N) : bool :=
  match k_dhost k with Some d' => N.eqb d' d | None => false end.

Definition syn_arrive (w : world) (d : N) (c : N) : world * bool :=
  match get_conn w c, get_host w d with
  | Some k, Some hs =>
      let '(dip, dport) := k_remote k in
      (* top.rs keys `deliverable` by dst.ip(): a SYN only ever reaches the host that owns
         its destination address; anything else is not a delivery of this SYN *)
      if negb (routed_to k d) then (upd_conn w c (fun k' => set_syn k' SynGone), false) else
      match find_bind hs dport with
      | None => (upd_conn w c (fun k' => set_syn k' SynGone), false)
      | Some b =>
          if Nat.eqb (length (b_deque b)) (w_cap w) then (w, true)
          else if bind_matches (b_ip b) dip then
            (upd_conn (upd_host w d (fun hs' => upd_bind hs' dport (fun b' => push_syn b' c (k_local k))))
                      c (fun k' => set_syn k' SynQueued), false)
          else (upd_conn w c (fun k' => set_syn k' SynGone), false)
      end
  | _, _ => (w, false)
  end.

(* deliver one message at host d *)
Definition deliver_msg (w : world) (d : N) (m : wmsg) : world * bool :=
  match m_body m with
  | WSyn => syn_arrive w d (m_cid m)
  | WSeg sd p =>
      (flush (upd_conn w (m_cid m) (fun k => set_sys k (S.deliver1 (k_sys k) (S.other sd) p))) (m_cid m), false)
  end.

Fixpoint deliver_msgs (w : world) (d : N) (l : list wmsg) : world * bool :=
  match l with
  | [] => (w, false)
  | m :: r => let '(w1, p1) := deliver_msg w d m in
              let '(w2, p2) := deliver_msgs w1 d r in (w2, p1 || p2)
  end.

(* ---- application calls -------------------------------------------------------------------- *)

Definition init_absent : S.endpoint := {| S.sk := None; S.chan := []; S.rd := None; S.wr := None |}.

(* data plane of a connection whose client socket was just registered *)
Definition sys_connecting (cp : nat) (lo : bool) : S.sys :=
  S.set_ep (S.init cp lo) S.B init_absent.

(* the ConnectGuard / a failed connect: the client socket is removed, no halves will exist *)
Definition kill_client (k : conn) : conn :=
  set_sys k (S.set_ep (k_sys k) S.A init_absent).

Definition nhosts (w : world) : N := N.of_nat (length (w_hosts w)).

Definition do_connect (w : world) (h sid : N) (dst : addr) : world * res :=
  match assign_port w h with
  | None => (w, RPanic)
  | Some (port, cur) =>
      let '(dip, dport) := dst in
      let lip := if is_loop dip then IpLoop else IpHost h in
      let dhost := match dip with
                   | IpHost d => if (d <? nhosts w)%N then Some d else None
                   | IpLoop => Some h
                   | _ => None
                   end in
      let lo := is_loop dip || ip_eqb dip (IpHost h) in
      let c := N.of_nat (length (w_conns w)) in
      let k := {| k_host := h; k_local := (lip, port); k_remote := dst; k_dhost := dhost;
                  k_syn := SynFlight; k_fut := FutPending; k_srv := None;
                  k_sys := sys_connecting (w_cap w) lo |} in
      let w1 := upd_host w h (fun hs => set_cursor hs cur) in
      let w2 := set_streams (set_conns w1 (w_conns w1 ++ [k])) (w_streams w1 ++ [(h, sid, (c, S.A))]) in
      let m := {| m_cid := c; m_body := WSyn; m_parked := false |} in
      let w3 := if lo then loop_send w2 h m
                else match dhost with
                     | None => upd_conn w2 c (fun k' => set_syn k' SynGone)       (* no link: Err at once *)
                     | Some d => link_send w2 h d m
                     end in
      (* the first poll of syn_ack happens inside the same call *)
      match get_conn w3 c with
      | Some k3 =>
          match k_syn k3 with
          | SynGone => (upd_conn w3 c (fun k' => set_fut (kill_client k') FutRefused), RRefused)
          | _ => (w3, RPending)
          end
      | None => (w3, RInvalid)
      end
  end.

Definition do_poll (w : world) (c : N) : world * res :=
  match get_conn w c with
  | None => (w, RInvalid)
  | Some k =>
      match k_fut k with
      | FutPending =>
          match k_syn k with
          | SynAcked => (upd_conn w c (fun k' => set_fut k' FutOk), RConnOk (k_local k) (k_remote k))
          | SynGone => (upd_conn w c (fun k' => set_fut (kill_client k') FutRefused), RRefused)
          | _ => (w, RPending)
          end
      | _ => (w, RInvalid)
      end
  end.

(* the RST an abandoned connect sends to its destination (fix 48e101e): over the loopback
   path, over the link (dropped if that direction is partitioned), or nowhere *)
Definition send_abandon_rst (w : world) (c : N) (k : conn) : world :=
  let m := {| m_cid := c; m_body := WSeg S.A S.PRst; m_parked := false |} in
  if S.lo (k_sys k) then loop_send w (k_host k) m
  else match k_dhost k with
       | Some d => link_send w (k_host k) d m
       | None => w
       end.

(* the connect future is dropped while it is pending (cancel, timeout): the ConnectGuard removes
   the client socket and, as the peer did not refuse, resets the peer — which may have accepted
   the connection already *)
Definition do_cancel (w : world) (c : N) : world * res :=
  match get_conn w c with
  | None => (w, RInvalid)
  | Some k =>
      match k_fut k with
      | FutPending =>
          (send_abandon_rst (upd_conn w c (fun k' => set_fut (kill_client k') FutCancelled)) c k, RNone)
      | _ => (w, RInvalid)
      end
  end.

Definition do_bind (w : world) (h lid : N) (bip : ip) (port : N) : world * res :=
  match get_host w h with
  | None => (w, RInvalid)
  | Some hs =>
      let pick := if N.eqb port 0 then assign_port w h else Some (port, h_cursor hs) in
      match pick with
      | None => (w, RPanic)
      | Some (p, cur) =>
          let w1 := upd_host w h (fun hs' => set_cursor hs' cur) in
          if existsb (fun pb => N.eqb (fst pb) p) (h_binds hs) then (w1, RAddrInUse)
          else (upd_host w1 h (fun hs' => set_binds hs' (h_binds hs' ++
                  [(p, {| b_lid := lid; b_ip := bip; b_deque := []; b_arrived := []; b_popped := [] |})])),
                RBound p)
      end
  end.

Definition find_lid (hs : hoststate) (lid : N) : option (N * bindrec) :=
  find (fun pb => N.eqb (b_lid (snd pb)) lid) (h_binds hs).

Definition alive (w : world) (c : N) : bool :=
  match get_conn w c with
  | Some k => match k_fut k with FutPending => true | _ => false end
  | None => false
  end.

(* pop until a SYN whose connector still waits; returns the rest of the deque,
   the pops made (with aliveness), and the accepted (cid, origin) if any *)
Fixpoint pop_alive (w : world) (dq : list (N * addr)) : list (N * addr) * list (N * bool) * option (N * addr) :=
  match dq with
  | [] => ([], [], None)
  | (c, o) :: r =>
      if alive w c then (r, [(c, true)], Some (c, o))
      else let '(r', pops, acc) := pop_alive w r in (r', (c, false) :: pops, acc)
  end.

Definition do_accept (w : world) (h lid sid : N) : world * res :=
  match get_host w h with
  | None => (w, RInvalid)
  | Some hs =>
      match find_lid hs lid with
      | None => (w, RInvalid)
      | Some (port, b) =>
          let '(rest, pops, acc) := pop_alive w (b_deque b) in
          let w1 := upd_host w h (fun hs' => upd_bind hs' port (fun b' =>
                      {| b_lid := b_lid b'; b_ip := b_ip b'; b_deque := rest; b_arrived := b_arrived b';
                         b_popped := b_popped b' ++ pops |})) in
          (* the SYNs of dead connectors are dropped *)
          let w2 := fold_left (fun (w' : world) (cb : N * bool) =>
                                 if snd cb then w' else upd_conn w' (fst cb) (fun k => set_syn k SynGone))
                              pops w1 in
          match acc with
          | None => (w2, RPending)
          | Some (c, origin) =>
              let mip := if is_loop (fst origin) then IpLoop
                         else match b_ip b with IpUnspec => IpHost h | i => i end in
              let my := (mip, port) in
              let w3 := upd_conn w2 c (fun k =>
                          set_srv (set_syn (set_sys k (S.set_ep (k_sys k) S.B S.init_ep)) SynAcked)
                                  (Some (h, my, origin))) in
              (set_accepts (set_streams w3 (w_streams w3 ++ [(h, sid, (c, S.B))])) (w_accepts w3 ++ [c]),
               RAccOk my origin)
          end
      end
  end.

Definition do_drop_listener (w : world) (h lid : N) : world * res :=
  match get_host w h with
  | None => (w, RInvalid)
  | Some hs =>
      match find_lid hs lid with
      | None => (w, RInvalid)
      | Some (port, b) =>
          let w1 := upd_host w h (fun hs' =>
                      set_binds hs' (filter (fun pb => negb (N.eqb (fst pb) port)) (h_binds hs'))) in
          (fold_left (fun (w' : world) (co : N * addr) => upd_conn w' (fst co) (fun k => set_syn k SynGone))
                     (b_deque b) w1, RNone)
      end
  end.

Definition find_stream (w : world) (h sid : N) : option (N * S.side) :=
  match find (fun e => N.eqb (fst (fst e)) h && N.eqb (snd (fst e)) sid) (w_streams w) with
  | Some e => Some (snd e)
  | None => None
  end.

Definition is_app_op (e : S.ev) (x : S.side) : bool :=
  match e with
  | S.TryWrite y _ | S.Write y _ | S.Shutdown y | S.DropW y | S.Read y _ | S.Peek y _ | S.DropR y => S.side_eqb x y
  | _ => false
  end.

(* an application call on the stream (h, sid); the event must name the side the
   stream id stands for and the stream object must exist *)
Definition stream_op (w : world) (h sid : N) (e : S.ev) : world * res :=
  match find_stream w h sid with
  | None => (w, RInvalid)
  | Some (c, x) =>
      match get_conn w c with
      | None => (w, RInvalid)
      | Some k =>
          let established := match x with
                             | S.A => match k_fut k with FutOk => true | _ => false end
                             | S.B => match k_srv k with Some _ => true | None => false end
                             end in
          if established && is_app_op e x then
            let '(s', r) := S.step (k_sys k) e in
            (flush (upd_conn w c (fun k' => set_sys k' s')) c, RStream r)
          else (w, RInvalid)
      end
  end.

(* ---- network events ---------------------------------------------------------------------- *)

(* SentRef::deliver on the positions ks of Sim::links: DeliveryStatus::DeliverAfter(now) *)
Fixpoint unpark_at (i : nat) (ks : list nat) (l : list wmsg) : list wmsg :=
  match l with
  | [] => []
  | m :: r => (if existsb (Nat.eqb i) ks then set_parked m false else m) :: unpark_at (S i) ks r
  end.

Definition on_pair (w : world) (a b : N) (f : link -> link) : world :=
  set_links w (map (fun l => if on_link l a b then f l else l) (w_links w)).

Definition do_mature (w : world) (a b : N) (ks : list nat) : world :=
  on_pair w a b (fun l => set_sent l (unpark_at 0 ks (l_sent l))).
(* Topology::tick_by: process_deliverables on every link *)
Definition do_tick (w : world) : world := set_links w (map (flow_link w) (w_links w)).
(* Link::hold / release / explicit_repair / repair_oneway *)
Definition do_hold (w : world) (a b : N) : world :=
  on_pair w a b (fun l => set_sent (set_rands (set_helds (set_cuts l false false) true true) false false) (map (fun m => set_parked m true) (l_sent l))).
Definition do_release (w : world) (a b : N) : world :=
  on_pair w a b (fun l => set_sent (set_rands (set_helds (set_cuts l false false) false false) false false) (map (fun m => set_parked m false) (l_sent l))).
Definition do_repair (w : world) (a b : N) : world :=
  on_pair w a b (fun l => set_rands (set_helds (set_cuts l false false) false false) false false).
Definition do_repair_one (w : world) (a b : N) : world :=
  on_pair w a b (fun l => if N.eqb a (l_a l)
                          then set_rands (set_helds (set_cuts l false (l_cut_ba l)) false (l_held_ba l)) false (l_rand_ba l)
                          else set_rands (set_helds (set_cuts l (l_cut_ab l) false) (l_held_ab l) false) (l_rand_ab l) false).
(* the outcomes of the coins at the coming enqueues of the link (read from the decision log) *)
Definition do_coins (w : world) (a b : N) (cs : list (bool * bool)) : world :=
  on_pair w a b (fun l => set_coins l (l_coins l ++ cs)).

(* Topology::deliver_messages for host h: every link with h as an endpoint, in
   registration order *)
Fixpoint drain_links (w : world) (h : N) (n : nat) : world * bool :=
  match n with
  | O => (w, false)
  | S n' =>
      let '(w1, p1) := drain_links w h n' in
      match nth_error (w_links w1) n' with
      | None => (w1, p1)
      | Some l =>
          if N.eqb (l_a l) h then
            let w2 := set_links w1 (upd_nth n' (fun l' => set_rdys l' [] (l_rdy_b l')) (w_links w1)) in
            let '(w3, p3) := deliver_msgs w2 h (l_rdy_a l) in (w3, p1 || p3)
          else if N.eqb (l_b l) h then
            let w2 := set_links w1 (upd_nth n' (fun l' => set_rdys l' (l_rdy_a l') []) (w_links w1)) in
            let '(w3, p3) := deliver_msgs w2 h (l_rdy_b l) in (w3, p1 || p3)
          else (w1, p1)
      end
  end.

Definition do_partition (w : world) (a b : N) (oneway : bool) : world :=
  match find (fun l => on_link l a b) (w_links w) with
  | None => w
  | Some l0 =>
      let dropped := if oneway then filter (from_host w a) (l_sent l0) else l_sent l0 in
      let w1 := set_links w (map (fun l =>
                  if on_link l a b then
                    if oneway then
                      set_sent (if N.eqb a (l_a l)
                                then set_rands (set_helds (set_cuts l true (l_cut_ba l)) false (l_held_ba l)) false (l_rand_ba l)
                                else set_rands (set_helds (set_cuts l (l_cut_ab l) true) (l_held_ab l) false) (l_rand_ab l) false)
                               (filter (fun m => negb (from_host w a m)) (l_sent l))
                    else set_sent (set_rands (set_helds (set_cuts l true true) false false) false false) []
                  else l) (w_links w)) in
      fold_left syn_gone dropped w1
  end.

Definition do_loop_step (w : world) (h : N) : world * bool :=
  match get_host w h with
  | None => (w, false)
  | Some hs =>
      let due := firstn (h_lmark hs) (h_loopq hs) in
      let w1 := upd_host w h (fun hs' => set_loopq hs' (skipn (h_lmark hs) (h_loopq hs'))) in
      let '(w2, p) := deliver_msgs w1 h due in
      (upd_host w2 h (fun hs' => set_lmark hs' (length (h_loopq hs'))), p)
  end.

(* ---- view ---------------------------------------------------------------------------------- *)

Definition enc_msg (w : world) (m : wmsg) : N * N * N * N * N * N :=
  match get_conn w (m_cid m) with
  | None => (0, 9, 0, 0, 0, 0)%N
  | Some k =>
      let cport := snd (k_local k) in let sport := snd (k_remote k) in
      match m_body m with
      | WSyn => (k_host k, 0, 0, 0, cport, sport)%N
      | WSeg sd p =>
          let src := match sd with S.A => k_host k | S.B => match k_dhost k with Some d => d | None => 0%N end end in
          let '(kind, q, len) := match p with
                                 | S.PSeg q (S.Data bs) => (1%N, q, N.of_nat (length bs))
                                 | S.PSeg q S.Fin => (2%N, q, 0%N)
                                 | S.PRst => (3%N, 0%N, 0%N)
                                 end in
          match sd with
          | S.A => (src, kind, q, len, cport, sport)
          | S.B => (src, kind, q, len, sport, cport)
          end
      end
  end.

Definition view (w : world) : res :=
  RView (map (fun l => (l_a l, l_b l, map (enc_msg w) (l_sent l))) (w_links w))
        (map (fun ih => (length (h_binds (snd ih)), stream_count w (fst ih)))
             (combine (map N.of_nat (seq 0 (length (w_hosts w)))) (w_hosts w))).

(* ---- events ----------------------------------------------------------------------------------- *)

Inductive ev :=
| Bind (h lid : N) (bip : ip) (port : N)
| Connect (h sid : N) (dst : addr)
| Poll (c : N)
| PollTimeout (c : N)            (* poll of timeout(connect) after the deadline: poll, then drop if pending *)
| Cancel (c : N)
| Accept (h lid sid : N)
| DropListener (h lid : N)
| SOp (h sid : N) (e : S.ev)
| Mature (a b : N) (ks : list nat)   (* SentRef::deliver on positions ks; takes effect at the next Tick *)
| Tick                               (* the network tick at the start of Sim::step *)
| Hold (a b : N) | Release (a b : N) | RepairOne (a b : N)
| Drain (h : N)
| Partition (a b : N) | PartitionOne (a b : N) | Repair (a b : N)
| LoopStep (h : N)
| Count (h : N)
| View
| Coins (a b : N) (cs : list (bool * bool)).

Definition panic_res (wp : world * bool) : world * res :=
  if snd wp then (fst wp, RPanic) else (fst wp, RNone).

Definition step (w : world) (e : ev) : world * res :=
  match e with
  | Bind h lid bip port => do_bind w h lid bip port
  | Connect h sid dst => do_connect w h sid dst
  | Poll c => do_poll w c
  | PollTimeout c =>
      let '(w1, r) := do_poll w c in
      match r with RPending => (fst (do_cancel w1 c), RPending) | _ => (w1, r) end
  | Cancel c => do_cancel w c
  | Accept h lid sid => do_accept w h lid sid
  | DropListener h lid => do_drop_listener w h lid
  | SOp h sid e' => stream_op w h sid e'
  | Mature a b ks => (do_mature w a b ks, RNone)
  | Tick => (do_tick w, RNone)
  | Hold a b => (do_hold w a b, RNone)
  | Release a b => (do_release w a b, RNone)
  | RepairOne a b => (do_repair_one w a b, RNone)
  | Drain h => panic_res (drain_links w h (length (w_links w)))
  | Partition a b => (do_partition w a b false, RNone)
  | PartitionOne a b => (do_partition w a b true, RNone)
  | Repair a b => (do_repair w a b, RNone)
  | LoopStep h => panic_res (do_loop_step w h)
  | Count h => (w, RCount (stream_count w h))
  | View => (w, view w)
  | Coins a b cs => (do_coins w a b cs, RNone)
  end.

(* links of n hosts in registration order h0, h1, ..: (0,1), (0,2), (1,2), .. *)
Definition init_links (n : nat) : list link :=
  flat_map (fun b => map (fun a => {| l_a := N.of_nat a; l_b := N.of_nat b; l_sent := []; l_rdy_a := [];
                                       l_rdy_b := []; l_cut_ab := false; l_cut_ba := false;
                                       l_held_ab := false; l_held_ba := false;
                                       l_rand_ab := false; l_rand_ba := false; l_coins := [] |}) (seq 0 b))
           (seq 0 n).

Definition init (n cp : nat) (lo hi : N) : world :=
  {| w_hosts := repeat {| h_binds := []; h_cursor := lo; h_loopq := []; h_lmark := O |} n;
     w_conns := []; w_links := init_links n; w_streams := []; w_accepts := [];
     w_cap := cp; w_eph_lo := lo; w_eph_hi := hi |}.

Fixpoint run (w : world) (es : list ev) : world * list res :=
  match es with
  | [] => (w, [])
  | e :: es' => let '(w1, o) := step w e in let '(w2, os) := run w1 es' in (w2, o :: os)
  end.

(* ---- plain-data encoding of results ------------------------------------------------------------ *)

Definition enc_ip (i : ip) : N :=
  match i with IpHost h => h | IpLoop => 1000 | IpUnspec => 1001 | IpNobody => 1002 end%N.
Definition enc_addr (a : addr) : list N := [enc_ip (fst a); snd a].

(* (tag, numbers, nested): 0 pending, 1 none, 2 invalid, 3 panic, 4 bound p, 5 addr in use,
   6 conn ok [lip;lport;rip;rport], 7 refused, 8 acc ok [lip;lport;pip;pport], 9 stream (enc of S.res),
   10 count n, 11 view *)
Definition enc_res (r : res) : N * list N * list (list (list N)) :=
  match r with
  | RPending => (0, [], [])
  | RNone => (1, [], [])
  | RInvalid => (2, [], [])
  | RPanic => (3, [], [])
  | RBound p => (4, [p], [])
  | RAddrInUse => (5, [], [])
  | RConnOk l r' => (6, enc_addr l ++ enc_addr r', [])
  | RRefused => (7, [], [])
  | RAccOk l p => (8, enc_addr l ++ enc_addr p, [])
  | RStream sr => let '(t, ns, ls) := S.enc_res sr in (9, t :: ns, [ls])
  | RCount n => (10, [N.of_nat n], [])
  | RView ls cs =>
      (11, flat_map (fun c => [N.of_nat (fst c); N.of_nat (snd c)]) cs,
       map (fun l => [fst (fst l); snd (fst l)] ::
                     map (fun m => let '(s, k, q, n, sp, dp) := m in [s; k; q; n; sp; dp]) (snd l)) ls)
  end%N.

Definition run_enc (n cp : nat) (lo hi : N) (es : list ev) :=
  map enc_res (snd (run (init n cp lo hi) es)).
