(* TV.Conn.Facts — list-update lemmas and the frame ("nothing but ...
   changed") facts of the helpers of TV.Conn.Model. *)
From TV.Lib Require Import Base.
From TV.Stream Require Import Model Refs.
From TV.Conn Require Import Model.
Close Scope N_scope.

(* ---- upd_nth --------------------------------------------------------------- *)

Lemma length_upd_nth {T} n (f : T -> T) l : length (upd_nth n f l) = length l.
Proof. revert n; induction l as [|x l IH]; intros [|n]; cbn; auto. Qed.

Lemma nth_upd_nth_same {T} n (f : T -> T) l x :
  nth_error l n = Some x -> nth_error (upd_nth n f l) n = Some (f x).
Proof. revert n; induction l as [|y l IH]; intros [|n]; cbn; try discriminate; [intros [= ->]; reflexivity|apply IH]. Qed.

Lemma nth_upd_nth_other {T} n m (f : T -> T) l :
  n <> m -> nth_error (upd_nth n f l) m = nth_error l m.
Proof.
  revert n m; induction l as [|y l IH]; intros [|n] [|m] H; cbn; auto; try congruence.
Qed.

Lemma nth_upd_nth {T} n m (f : T -> T) l :
  nth_error (upd_nth n f l) m =
  if Nat.eqb n m then option_map f (nth_error l m) else nth_error l m.
Proof.
  destruct (Nat.eqb_spec n m) as [->|Hne].
  - destruct (nth_error l m) eqn:E; cbn.
    + now apply nth_upd_nth_same.
    + apply nth_error_None. rewrite length_upd_nth. now apply nth_error_None.
  - now apply nth_upd_nth_other.
Qed.

Lemma map_upd_nth {T U} (g : T -> U) n (f : T -> T) l :
  (forall x, g (f x) = g x) -> map g (upd_nth n f l) = map g l.
Proof. intros H. revert n; induction l as [|y l IH]; intros [|n]; cbn; auto; now rewrite ?H, ?IH. Qed.

Lemma Forall_upd_nth {T} (P : T -> Prop) n (f : T -> T) l :
  Forall P l -> (forall x, nth_error l n = Some x -> P x -> P (f x)) -> Forall P (upd_nth n f l).
Proof.
  intros H. revert n. induction H as [|y l Hy Hl IH]; intros [|n] Hf; cbn; try constructor; auto.
Qed.

Lemma upd_nth_out {T} n (f : T -> T) l : length l <= n -> upd_nth n f l = l.
Proof. revert n; induction l as [|y l IH]; intros [|n] H; cbn in *; auto; try lia. f_equal. apply IH. lia. Qed.

(* ---- what identifies a connection, and projections of the world -------------------- *)

Definition ident (k : conn) : N * addr * addr * option N := (k_host k, k_local k, k_remote k, k_dhost k).
Definition idents (w : world) := map ident (w_conns w).
Definition srvs (w : world) := map k_srv (w_conns w).
Definition bindss (w : world) := map h_binds (w_hosts w).

(* an update function of a connection that keeps its identity / its server slot *)
Definition keeps_ident (f : conn -> conn) : Prop := forall k, ident (f k) = ident k.
Definition keeps_srv (f : conn -> conn) : Prop := forall k, k_srv (f k) = k_srv k.

Lemma idents_upd_conn w c f : keeps_ident f -> idents (upd_conn w c f) = idents w.
Proof. intros H. unfold idents, upd_conn. cbn. now apply map_upd_nth. Qed.
Lemma srvs_upd_conn w c f : keeps_srv f -> srvs (upd_conn w c f) = srvs w.
Proof. intros H. unfold srvs, upd_conn. cbn. now apply map_upd_nth. Qed.

Lemma ki_set_syn s : keeps_ident (fun k => set_syn k s). Proof. intros k; reflexivity. Qed.
Lemma ks_set_syn s : keeps_srv (fun k => set_syn k s). Proof. intros k; reflexivity. Qed.
Lemma ki_set_sys g : keeps_ident (fun k => set_sys k (g k)). Proof. intros k; reflexivity. Qed.
Lemma ks_set_sys g : keeps_srv (fun k => set_sys k (g k)). Proof. intros k; reflexivity. Qed.
Lemma ki_set_fut g f : keeps_ident g -> keeps_ident (fun k => set_fut (g k) f).
Proof. intros H k. unfold ident in *. cbn. apply (H k). Qed.
Lemma ks_set_fut g f : keeps_srv g -> keeps_srv (fun k => set_fut (g k) f).
Proof. intros H k. cbn. apply (H k). Qed.
Lemma ki_kill : keeps_ident kill_client. Proof. intros k; reflexivity. Qed.
Lemma ks_kill : keeps_srv kill_client. Proof. intros k; reflexivity. Qed.
Lemma ki_id : keeps_ident (fun k => k). Proof. intros k; reflexivity. Qed.
Lemma ks_id : keeps_srv (fun k => k). Proof. intros k; reflexivity. Qed.

Lemma map_upd_nth_comm {T U} (g : T -> U) n (f : T -> T) (f' : U -> U) l :
  (forall x, g (f x) = f' (g x)) -> map g (upd_nth n f l) = upd_nth n f' (map g l).
Proof. intros H. revert n; induction l as [|y l IH]; intros [|n]; cbn; auto; now rewrite ?H, ?IH. Qed.

(* binds of a host: update by port *)
Definition upd_binds (port : N) (f : bindrec -> bindrec) (bs : list (N * bindrec)) : list (N * bindrec) :=
  map (fun pb => if N.eqb (fst pb) port then (fst pb, f (snd pb)) else pb) bs.

Lemma upd_bind_binds hs port f : h_binds (upd_bind hs port f) = upd_binds port f (h_binds hs).
Proof. reflexivity. Qed.

Lemma upd_binds_fst port f bs : map fst (upd_binds port f bs) = map fst bs.
Proof. unfold upd_binds. rewrite map_map. apply map_ext. intros [p b]. cbn. destruct (N.eqb p port); reflexivity. Qed.

Lemma in_upd_binds port f bs p b :
  In (p, b) (upd_binds port f bs) ->
  (p <> port /\ In (p, b) bs) \/ (p = port /\ exists b0, In (p, b0) bs /\ b = f b0).
Proof.
  unfold upd_binds. rewrite in_map_iff. intros ([p0 b0] & E & Hin). cbn in E.
  destruct (N.eqb_spec p0 port) as [->|Hne]; injection E as <- <-.
  - right. split; [reflexivity|]. eauto.
  - left. auto.
Qed.

Lemma find_bind_in hs port b : find_bind hs port = Some b -> In (port, b) (h_binds hs).
Proof.
  unfold find_bind. destruct (find _ _) as [[p b0]|] eqn:E; [|discriminate]. intros [= <-].
  apply find_some in E as [Hin Hp]. cbn in Hp. apply N.eqb_eq in Hp. subst. exact Hin.
Qed.

Lemma NoDup_fst_unique {A B} (l : list (A * B)) a b1 b2 :
  NoDup (map fst l) -> In (a, b1) l -> In (a, b2) l -> b1 = b2.
Proof.
  induction l as [|[a0 b0] l IH]; cbn; [tauto|]. intros Hnd. inversion Hnd as [|? ? Hn Hd]; subst.
  intros [E1|H1] [E2|H2].
  - congruence.
  - injection E1 as -> ->. exfalso. apply Hn. apply (in_map fst) in H2. exact H2.
  - injection E2 as -> ->. exfalso. apply Hn. apply (in_map fst) in H1. exact H1.
  - auto.
Qed.

Lemma map_fst_filter {A B} (g : A -> bool) (l : list (A * B)) :
  map fst (filter (fun pb => g (fst pb)) l) = filter g (map fst l).
Proof. induction l as [|[a b] l IH]; cbn; [reflexivity|]. destruct (g a); cbn; now rewrite IH. Qed.
