(* Property C12 — turmoil::net pairs every connect with exactly one accept, or
   refuses it.  This file only states the theorems and closes them with the
   lemmas of C12_proofs.v; see DESIGN.md section 5 (C12).

   Model: TV.Conn.Model — hosts with listener binds and their SYN queues,
   connector futures (poll / cancel), the stream tables of every host (an entry
   is the existence of a socket in the connection's Stream data plane), links
   with their fault calls (hold, release, partition, repair and the one-way forms; a hold parks
   messages, a repair leaves them parked, a release un-parks them), scripted maturing of single
   messages, the network tick, the random link failure (the outcomes of the fail_rate and
   repair_rate coins are inputs: `Coins`) and the loopback path.  `final (init n cap
   lo hi) es` is the state after an arbitrary event list: theorems quantify over
   every interleaving of binds, connects, polls, cancels (also by timeout),
   accepts, listener drops and re-binds, data-plane calls on every established
   stream, delivery orders, partitions and host turns. *)
From TV.Lib Require Import Base.
From TV.Stream Require Import Model Refs.
From TV.Conn Require Import Gen Model Facts C12_proofs Tokens.
Close Scope N_scope.

(* Pairing.  In every reachable state, for every connection c:
   a connect that returned Ok (future state FutOk) was accepted — its id is in the
   accept log; it is in the accept log exactly when a server-side stream was created
   for it; the accepted stream's addresses mirror the connector's (its local address is
   the connector's peer, its peer is the connector's local address, on the host that owns
   the destination); and the accept log holds no id twice: a SYN is acknowledged at most
   once, so every successful connect is matched by exactly one accepted stream. *)
Theorem c12_pairing : forall n cap lo hi es c k,
  let w := final (init n cap lo hi) es in
  get_conn w c = Some k ->
  (k_fut k = FutOk -> In c (w_accepts w)) /\
  (In c (w_accepts w) <-> k_srv k <> None) /\
  (forall d l p, k_srv k = Some (d, l, p) -> l = k_remote k /\ p = k_local k /\ k_dhost k = Some d) /\
  NoDup (w_accepts w).
Proof.
  intros n cap lo hi es c k w Hc.
  destruct (pairing_lemma w c k (reach_winv n cap lo hi es) Hc) as (P1 & P2 & P3).
  split; [exact P1|]. split; [exact P2|]. split; [exact P3|]. apply reach_nodup.
Qed.

(* Conservation of SYN tokens (what Rust's move semantics of `Syn { ack }` gives the code):
   in every reachable state each connection id occurs at most once in the links, the
   matured queues, the loopback queues and the listeners' queues together, and only while
   no server-side stream exists for it. *)
Theorem c12_syn_token_unique : forall n cap lo hi es c,
  let w := final (init n cap lo hi) es in
  tokc c w <= 1 /\ (1 <= tokc c w -> srv_none w c).
Proof.
  intros n cap lo hi es c w. destruct (reach_tok n cap lo hi es) as [_ [T1 T2]].
  split; [apply (T1 c)|intros Hc; apply T2; exact Hc].
Qed.

(* A pending connect completes with Ok exactly when its SYN was acknowledged by an
   accept, with Refused exactly when its SYN (and the ack channel it carries) was
   dropped; it pends only while the SYN is in flight or queued at a listener. *)
Theorem c12_poll_decided : forall w c k,
  get_conn w c = Some k -> k_fut k = FutPending ->
  (k_syn k = SynGone -> snd (do_poll w c) = RRefused) /\
  (k_syn k = SynAcked -> snd (do_poll w c) = RConnOk (k_local k) (k_remote k)) /\
  (snd (do_poll w c) = RPending <-> k_syn k = SynFlight \/ k_syn k = SynQueued).
Proof. exact poll_decided. Qed.

(* Accept order.  For every live listener in every reachable state, the SYNs that
   arrived at it are, in arrival order, exactly the ones accept has popped so far
   followed by the ones still queued (FIFO); and an accept takes the first queued
   SYN whose connector still waits, skipping (and discarding) the ones that gave up. *)
Theorem c12_fifo : forall n cap lo hi es h hs port b,
  let w := final (init n cap lo hi) es in
  get_host w h = Some hs -> In (port, b) (h_binds hs) ->
  b_arrived b = map fst (b_popped b) ++ map fst (b_deque b).
Proof. intros. eapply fifo_lemma; eauto. apply reach_winv. Qed.

Theorem c12_accept_first_alive : forall w dq,
  match pop_alive w dq with
  | (rest, pops, Some (c, o)) =>
      exists pre, dq = pre ++ (c, o) :: rest /\ (forall x, In x pre -> alive w (fst x) = false) /\
                  alive w c = true /\ pops = map (fun x => (fst x, false)) pre ++ [(c, true)]
  | (rest, pops, None) =>
      rest = [] /\ (forall x, In x dq -> alive w (fst x) = false) /\ pops = map (fun x => (fst x, false)) dq
  end.
Proof. exact pop_alive_first. Qed.

Theorem c12_accept_result : forall w h lid sid hs port b,
  get_host w h = Some hs -> find_lid hs lid = Some (port, b) ->
  match pop_alive w (b_deque b) with
  | (_, _, Some (c, o)) => exists my, snd (do_accept w h lid sid) = RAccOk my o /\
                                      w_accepts (fst (do_accept w h lid sid)) = w_accepts w ++ [c]
  | (_, _, None) => snd (do_accept w h lid sid) = RPending /\
                    w_accepts (fst (do_accept w h lid sid)) = w_accepts w
  end.
Proof. exact accept_result. Qed.

(* Refusal instead of a hang: an address no host owns and a partitioned direction
   refuse at once; a SYN that reaches a host where nobody listens on its port, or whose
   listener is bound to another address, is dropped; dropping a listener drops every
   queued SYN; a dropped SYN makes the next poll return ConnectionRefused (c12_poll_decided)
   and removes the client's table entry. *)
Theorem c12_refused_unowned : forall w h sid dport,
  assign_port w h <> None -> snd (do_connect w h sid (IpNobody, dport)) = RRefused.
Proof. exact connect_unowned_refused. Qed.

(* across an explicitly partitioned direction -- whatever the coins of the random link failure
   say: they repair only directions they broke themselves *)
Theorem c12_refused_partitioned : forall w h sid d dport l0,
  assign_port w h <> None -> d <> h -> (d <? nhosts w)%N = true ->
  find (fun l => on_link l h d) (w_links w) = Some l0 -> cut_from l0 h = true -> rand_from l0 h = false ->
  snd (do_connect w h sid (IpHost d, dport)) = RRefused.
Proof. exact connect_partitioned_refused. Qed.

(* Random link failure (fail_rate).  When the coin comes up at an enqueue on a link, the
   directions that are healthy break (a held or explicitly partitioned direction keeps its state)
   and what is in flight on them is dropped.  So the connect whose own SYN triggers the failure
   of its healthy direction is refused, and a SYN that was in flight (parked) on a direction
   that breaks leaves the link and its connect is refused at the next poll: it can never be
   accepted. *)
Theorem c12_refused_random_break : forall w h sid d dport l0 rr cs,
  assign_port w h <> None -> d <> h -> (d <? nhosts w)%N = true ->
  find (fun l => on_link l h d) (w_links w) = Some l0 ->
  l_coins l0 = (true, rr) :: cs -> cut_from l0 h = false -> held_from l0 h = false ->
  snd (do_connect w h sid (IpHost d, dport)) = RRefused.
Proof. exact connect_breaking_refused. Qed.

Theorem c12_random_break_drops_syn : forall w s d l0 rr cs m k,
  find (fun l => on_link l s d) (w_links w) = Some l0 ->
  l_coins l0 = (true, rr) :: cs ->
  In m (l_sent l0) -> m_body m = WSyn -> breaks w l0 m = true ->
  get_conn w (m_cid m) = Some k -> k_fut k = FutPending ->
  (exists l1, find (fun l => on_link l s d) (w_links (rand_send w s d)) = Some l1 /\ ~ In m (l_sent l1)) /\
  snd (do_poll (rand_send w s d) (m_cid m)) = RRefused.
Proof. exact rand_break_refuses. Qed.

Theorem c12_refused_no_listener : forall w d c k hs,
  get_conn w c = Some k -> get_host w d = Some hs ->
  (find_bind hs (snd (k_remote k)) = None \/
   exists b, find_bind hs (snd (k_remote k)) = Some b /\ length (b_deque b) <> w_cap w /\
             bind_matches (b_ip b) (fst (k_remote k)) = false) ->
  get_conn (fst (syn_arrive w d c)) c = Some (set_syn k SynGone).
Proof. exact syn_arrive_refused. Qed.

Theorem c12_refused_listener_dropped : forall w h lid hs port b c o k,
  get_host w h = Some hs -> find_lid hs lid = Some (port, b) -> In (c, o) (b_deque b) ->
  get_conn w c = Some k ->
  exists k', get_conn (fst (do_drop_listener w h lid)) c = Some k' /\ k_syn k' = SynGone /\ k_fut k' = k_fut k.
Proof. exact drop_listener_refuses. Qed.

Theorem c12_refused_removes_entry : forall w c k,
  get_conn w c = Some k -> k_fut k = FutPending -> k_syn k = SynGone ->
  exists k', get_conn (fst (do_poll w c)) c = Some k' /\ k_fut k' = FutRefused /\
             forall h, client_entry h k' = false.
Proof. exact poll_refused_no_entry. Qed.

(* No residue.  In every reachable state a host's stream table holds an entry for a
   connection only while somebody can still use it: the client entry exists only while the
   connect is pending or returned Ok and one of the two halves of the client stream is
   alive; the server entry only while one half of the accepted stream is alive.  In
   particular a refused or cancelled connect and a stream whose halves were both dropped
   are not counted by established_tcp_stream_count (stream_count). *)
Theorem c12_no_residue : forall n cap lo hi es c k,
  let w := final (init n cap lo hi) es in
  get_conn w c = Some k ->
  (forall h, client_entry h k = true ->
     (k_fut k = FutPending \/ k_fut k = FutOk) /\
     (S.rd (S.eps (k_sys k) S.A) <> None \/ S.wr (S.eps (k_sys k) S.A) <> None)) /\
  (forall h, server_entry h k = true ->
     k_srv k <> None /\ (S.rd (S.eps (k_sys k) S.B) <> None \/ S.wr (S.eps (k_sys k) S.B) <> None)).
Proof. intros n cap lo hi es c k w Hc. apply (no_residue_lemma w c k); [apply reach_winv|exact Hc]. Qed.

Theorem c12_cancel_removes_entry : forall w c k,
  get_conn w c = Some k -> k_fut k = FutPending ->
  exists k', get_conn (fst (do_cancel w c)) c = Some k' /\ k_fut k' = FutCancelled /\
             forall h, client_entry h k' = false.
Proof. exact cancel_no_entry. Qed.

(* An abandoned connect resets the peer (fix 48e101e): dropping the pending future (Cancel,
   an elapsed timeout) removes the client entry (above) and sends a RST towards the destination
   (`send_abandon_rst`); wherever that RST is delivered, the accepting host no longer has an entry
   for the connection, so a stream accepted for a connector that gave up does not stay established. *)
Theorem c12_abandon_resets_acceptor : forall w d c k pk,
  get_conn w c = Some k ->
  exists k', get_conn (fst (deliver_msg w d {| m_cid := c; m_body := WSeg S.A S.PRst; m_parked := pk |})) c = Some k' /\
             forall h, server_entry h k' = false.
Proof. exact abandon_rst_resets_acceptor. Qed.

(* Non-vacuity.  Three connectors on two hosts over a held link; the SYNs of connectors 0
   and 1 are let through one by one in the opposite order; connector 1 (first to arrive) gives up; the listener
   accepts connector 0 (skipping 1), then connector 2 from its own host through 127.0.0.1;
   a fourth connect to a port nobody listens on is refused; both sides drop and the tables
   are empty again.  On the semantics before fix 5100556 the refused and the cancelled
   connect each leave an entry: corpus/C12/refused_connect_residue.json. *)
Definition h_demo : list ev :=
  [Bind 1 1 IpUnspec 9000; Hold 0 1;
   Connect 0 1 (IpHost 1, 9000%N); Connect 0 2 (IpHost 1, 9000%N); Connect 1 3 (IpLoop, 9000%N);
   Connect 0 4 (IpHost 1, 9001%N);
   Mature 0 1 [1]; Tick; Drain 1; Mature 0 1 [0]; Tick; Drain 1; Mature 0 1 [0]; Tick; Drain 1;
   LoopStep 1; LoopStep 1;
   Cancel 1;
   Accept 1 1 100; Accept 1 1 101; Accept 1 1 102;
   Poll 0; Poll 1; Poll 2; Poll 3;
   Count 0; Count 1;
   SOp 0 1 (S.DropR S.A); SOp 0 1 (S.DropW S.A); SOp 1 3 (S.DropR S.A); SOp 1 3 (S.DropW S.A);
   SOp 1 100 (S.DropR S.B); SOp 1 100 (S.DropW S.B); SOp 1 101 (S.DropR S.B); SOp 1 101 (S.DropW S.B);
   Count 0; Count 1].

Example c12_nonvacuous :
  let w := final (init 2 4 49152 65535) h_demo in
  w_accepts w = [0%N; 2%N] /\
  (exists hs b, get_host w 1 = Some hs /\ h_binds hs = [(9000%N, b)] /\
                b_arrived b = [1%N; 0%N; 2%N] /\ b_popped b = [(1%N, false); (0%N, true); (2%N, true)]) /\
  map (fun i => nth i (snd (run (init 2 4 49152 65535) h_demo)) RNone) [18; 19; 20; 21; 22; 23; 24; 25; 26; 35; 36] =
    [RAccOk (IpHost 1, 9000%N) (IpHost 0, 49152%N); RAccOk (IpLoop, 9000%N) (IpLoop, 49152%N); RPending;
     RConnOk (IpHost 0, 49152%N) (IpHost 1, 9000%N); RInvalid; RConnOk (IpLoop, 49152%N) (IpLoop, 9000%N); RRefused;
     RCount 1; RCount 3; RCount 0; RCount 0].
Proof.
  cbv zeta. split; [vm_compute; reflexivity|]. split; [|vm_compute; reflexivity].
  eexists. eexists. split; [vm_compute; reflexivity|]. vm_compute. repeat split; reflexivity.
Qed.

(* The link calls around the handshake.  `repair` makes the link healthy "without releasing any
   held messages": what a hold parked (a SYN, the segments of an established stream) stays on the
   link, parked.  `release` un-parks every message of the pair whatever state the link is in (also
   after hold -> repair, when no direction is on hold any more), and the next tick of the network
   moves all of them towards their hosts: nothing is left behind on a released link. *)
Theorem c12_repair_keeps_parked : forall w a b,
  map l_sent (w_links (do_repair w a b)) = map l_sent (w_links w).
Proof.
  intros w a b. unfold do_repair, on_pair. cbn [w_links set_links]. rewrite map_map.
  apply map_ext. intros l. destruct (on_link l a b); reflexivity.
Qed.

Theorem c12_release_unparks : forall w a b l m,
  In l (w_links (do_release w a b)) -> on_link l a b = true -> In m (l_sent l) -> m_parked m = false.
Proof.
  intros w a b l m Hl Ho Hm. unfold do_release, on_pair in Hl. cbn [w_links set_links] in Hl.
  apply in_map_iff in Hl as (l0 & E & _). destruct (on_link l0 a b) eqn:H0.
  - subst l. cbn [l_sent set_sent] in Hm. apply in_map_iff in Hm as (m0 & E & _). subst m. reflexivity.
  - subst l. congruence.
Qed.

Theorem c12_release_then_tick_empties : forall w a b l,
  In l (w_links (do_tick (do_release w a b))) -> on_link l a b = true -> l_sent l = [].
Proof.
  intros w a b l Hl Ho. unfold do_tick in Hl. cbn [w_links set_links] in Hl.
  apply in_map_iff in Hl as (l1 & E & Hl1). subst l.
  assert (Ho1 : on_link l1 a b = true) by exact Ho.
  unfold flow_link. cbn [l_sent set_rdys set_sent].
  pose proof (c12_release_unparks w a b l1) as U.
  assert (forall m, In m (l_sent l1) -> m_parked m = false) as U' by (intros m Hm; exact (U m Hl1 Ho1 Hm)).
  clear - U'. induction (l_sent l1) as [|m s IH]; [reflexivity|]. cbn [filter].
  rewrite (U' m (or_introl eq_refl)). apply IH. intros m' Hm'. apply U'. right. exact Hm'.
Qed.

(* hold -> connect -> repair: the SYN stays parked on the healthy link (the connect pends, the
   accept finds nothing); release -> tick: it arrives, the accept pairs it, the connect is Ok. *)
Definition h_repair : list ev :=
  [Bind 1 1 IpUnspec 9000; Hold 0 1; Connect 0 1 (IpHost 1, 9000%N);
   Repair 0 1; Tick; Drain 1; Accept 1 1 100; Poll 0; View;
   Release 0 1; Tick; Drain 1; Accept 1 1 101; Poll 0; View].

Example c12_repair_release_example :
  map (fun i => nth i (snd (run (init 2 4 49152 65535) h_repair)) RNone) [6; 7; 12; 13] =
    [RPending; RPending; RAccOk (IpHost 1, 9000%N) (IpHost 0, 49152%N);
     RConnOk (IpHost 0, 49152%N) (IpHost 1, 9000%N)] /\
  (exists l, w_links (final (init 2 4 49152 65535) (firstn 9 h_repair)) = [l] /\
             map m_parked (l_sent l) = [true] /\ l_held_ab l = false /\ l_held_ba l = false) /\
  (exists l, w_links (final (init 2 4 49152 65535) h_repair) = [l] /\ l_sent l = []).
Proof.
  split; [vm_compute; reflexivity|]. split; eexists; (split; [vm_compute; reflexivity|]); vm_compute; repeat split; reflexivity.
Qed.

(* hold -> connect (SYN parked) -> the other direction explicitly partitioned, the SYN's direction
   repaired (healthy, SYN still parked) -> the fail_rate coin comes up at the second connect: the
   direction 0 -> 1 breaks, the parked SYN is dropped with it, the second SYN is dropped at the
   broken direction: both connects are refused, nothing is accepted after the release. *)
Definition h_randfail : list ev :=
  [Bind 1 1 IpUnspec 9000; Coins 0 1 [(false, false); (true, false)]; Hold 0 1;
   Connect 0 1 (IpHost 1, 9000%N); PartitionOne 1 0; RepairOne 0 1;
   Connect 0 2 (IpHost 1, 9000%N); Poll 0;
   Release 0 1; Tick; Drain 1; Accept 1 1 100; Count 0; Count 1].

Example c12_random_break_example :
  map (fun i => nth i (snd (run (init 2 4 49152 65535) h_randfail)) RNone) [3; 6; 7; 11; 12; 13] =
    [RPending; RRefused; RRefused; RPending; RCount 0; RCount 0] /\
  w_accepts (final (init 2 4 49152 65535) h_randfail) = [] /\
  (exists l, w_links (final (init 2 4 49152 65535) (firstn 6 h_randfail)) = [l] /\
             map m_parked (l_sent l) = [true] /\ cut_from l 0 = false /\ held_from l 0 = false /\ cut_from l 1 = true).
Proof.
  split; [vm_compute; reflexivity|]. split; [vm_compute; reflexivity|].
  eexists. split; [vm_compute; reflexivity|]. vm_compute. repeat split; reflexivity.
Qed.

Check c12_no_residue.
Check c12_fifo.

Print Assumptions c12_pairing.
Print Assumptions c12_syn_token_unique.
Print Assumptions c12_poll_decided.
Print Assumptions c12_fifo.
Print Assumptions c12_accept_first_alive.
Print Assumptions c12_accept_result.
Print Assumptions c12_refused_unowned.
Print Assumptions c12_refused_partitioned.
Print Assumptions c12_refused_random_break.
Print Assumptions c12_random_break_drops_syn.
Print Assumptions c12_refused_no_listener.
Print Assumptions c12_refused_listener_dropped.
Print Assumptions c12_refused_removes_entry.
Print Assumptions c12_no_residue.
Print Assumptions c12_cancel_removes_entry.
Print Assumptions c12_abandon_resets_acceptor.
Print Assumptions c12_nonvacuous.
Print Assumptions c12_repair_keeps_parked.
Print Assumptions c12_release_unparks.
Print Assumptions c12_release_then_tick_empties.
Print Assumptions c12_repair_release_example.
Print Assumptions c12_random_break_example.
