(* Property C12 (placeholder while the proofs are being built). *)
From TV.Lib Require Import Base.
From TV.Conn Require Import Gen Model.
Close Scope N_scope.

Example c12_nonvacuous :
  exists l r, nth 5 (snd (run (init 2 2 default_eph_lo default_eph_hi)
     [Bind 1 1 IpUnspec 9000; Connect 0 1 (IpHost 1, 9000%N); Mature 0 1 [0]; Drain 1; Accept 1 1 100; Poll 0])) RNone
   = RConnOk l r.
Proof. eexists. eexists. vm_compute. reflexivity. Qed.

Print Assumptions c12_nonvacuous.
